"""Declarations (the single source of truth of the corpus) and their two printers:
   Rust text given to the real macro, and Coq [decl]/[enum_decl] terms given to the model."""
from .translate import cstr, storage, NATIVE

# ---- field types -------------------------------------------------------------------------------
# {"k":"bool"} | {"k":"u","n":5} | {"k":"i","n":8} | {"k":"custom","name":"E000003","n":3,"opt":False}


def ty_width(t):
    return 1 if t['k'] == 'bool' else t['n']


def rust_scalar_ty(t):
    if t['k'] == 'bool':
        return 'bool'
    if t['k'] == 'u':
        return t.get('path', '') + 'u%d' % t['n']         # path: `arbitrary_int::` written out (the macro looks at the last segment)
    if t['k'] == 'i':
        return 'i%d' % t['n']
    if t['k'] == 'custom':
        return '%sOption<%s>' % (t.get('opt_path', ''), t['name']) if t.get('opt') else t['name']
    if t['k'] == 'text':       # malformed / unsupported spellings, printed verbatim
        return t['text']
    raise ValueError(t)


def rust_field_ty(f):
    s = rust_scalar_ty(f['ty'])
    if f.get('count') is not None:
        return '[%s; %s]' % (s, f['count'])
    return s


def rust_entry(e, pad=False):
    # `010` is the decimal number ten in Rust: a zero-padded bit number is an ordinary one
    z = '0' if pad else ''
    return z + str(e[1]) if e[0] == 's' else '%s%d..=%s%d' % (z, e[1], z, e[2])


def rust_attr(f):
    if f.get('attr_text') is not None:       # malformed attribute, printed verbatim
        return f['attr_text']
    kw = 'bits' if f['bits_kw'] else 'bit'
    if f['list']:
        rng = '[' + ', '.join(rust_entry(e, f.get('zero_pad')) for e in f['entries']) + ']'
    else:
        rng = ', '.join(rust_entry(e, f.get('zero_pad')) for e in f['entries'])
    args = [rng]
    if f['acc']:
        args.append(f['acc'])
    if f.get('stride') is not None:
        args.append('stride%s%d' % (f.get('stride_sep', ' = '), f['stride']))
    if f.get('order'):
        # the order of the arguments is free: range, access and stride in any order
        args = [args[i] for i in f['order'] if i < len(args)] + [a for i, a in enumerate(args) if i not in f['order']]
    return '#[%s(%s%s)]' % (kw, ', '.join(args), ',' if f.get('trailing_comma') else '')


FIELD_DOCS = ['/// documented field %s', '/// %s: hidden while the unit is disabled (r/w, stride = 4)', '#[doc = "field %s, bits(0..=3)"]',
              '/// %s — set by hardware; see `with_` and `set_`', '/** block comment for %s */']


def field_doc(f, tail=''):
    """the wording of a doc comment is free (seeded change C19-m8 looked for the word `hidden` in it)"""
    if f.get('doc_text'):
        return f['doc_text']
    t = FIELD_DOCS[sum(ord(c) for c in f['name']) % len(FIELD_DOCS)] % (f['name'].replace('r#', '') + tail)
    return t


def base_name(w):
    return 'u%d' % w


def rust_bitfield(d):
    lines = []
    args = [d.get('base_text') or base_name(d['base'])]
    df = d.get('default')
    sep = ': ' if d.get('legacy') else ' = '
    pre = []
    if df is not None:
        if df['form'] == 'lit':
            args.append('default%s%s' % (sep, df.get('text', str(df['value']))))
        else:
            cty = base_name(d['base'])
            if d['base'] in NATIVE:
                pre.append('pub const %s: %s = %d;' % (df['name'], cty, df['value']))
                args.append('default%s%s' % (sep, df['name']))
            else:
                # an arbitrary-int base wraps the default in uN::new(..); a named constant must be of the storage type
                pre.append('pub const %s: u%d = %d;' % (df['name'], storage(d['base']), df['value']))
                args.append('default%s%s' % (sep, df['name']))
    if d.get('debug'):
        args.append('debug')
    if d.get('args_rev') and len(args) == 3:
        args = [args[0], args[2], args[1]]          # `debug` before `default`: the order after the base type is free
    if d.get('args_trailing_comma'):
        args[-1] += ','
    lines += pre
    if d.get('doc'):
        lines.append('/// documented type %s' % d['name'])
    for a in d.get('struct_attrs', []):
        lines.append(a)
    lines.append('#[bitbybit::bitfield(%s)]' % ', '.join(args))
    lines.append('pub struct %s {' % d['name'])
    for f in d['fields']:
        if f.get('doc') and not f.get('doc_after'):
            lines.append('    %s' % field_doc(f))
        lines.append('    %s' % rust_attr(f))
        if f.get('doc') and f.get('doc_after'):
            lines.append('    %s' % field_doc(f, ' (after its bit attribute)'))
        lines.append('    %s: %s,' % (f['name'], rust_field_ty(f)))
    lines.append('}')
    if d.get('macro_default') and d.get('default') is not None:
        # produced by a macro_rules! macro: the default value is a fragment ($d) substituted into the attribute
        df = d['default']
        arg = df.get('text', str(df['value'])) if df['form'] == 'lit' else df['name']
        k = [i for i, l in enumerate(lines) if l.startswith('#[bitbybit::bitfield(')][0]
        body = [l.replace('default%s%s' % (': ' if d.get('legacy') else ' = ', arg), 'default%s$d' % (': ' if d.get('legacy') else ' = '))
                if i == k else l for i, l in enumerate(lines[k:], k)]
        k0 = len(pre)            # the constants stay outside; the struct's doc comment and attributes go inside
        lines = lines[:k0] + ['macro_rules! mk_%s {' % d['name'].lower(), '    ($d:%s) => {' % d['macro_default']] + \
            ['        ' + l for l in lines[k0:k] + body] + ['    };', '}', 'mk_%s!(%s);' % (d['name'].lower(), arg)]
    if d.get('module'):
        # the declaration lives in a module of its own so that names it introduces (a default constant called MASK, RAW,
        # ZERO ...) can coincide with names the macro uses internally without clashing with other corpus members
        return ['/// wrapper module', 'pub mod m_%s {' % d['name'].lower(), '#[allow(unused_imports)]', 'use super::*;'] + lines + \
               ['}', 'pub use m_%s::%s;' % (d['name'].lower(), d['name'])]
    return lines


def rust_enum(d):
    lines = list(d.get('pre', []))
    args = [d.get('bits_text') or 'u%d' % d['bits']]
    if d.get('exh') is not None:
        sep = ': ' if d.get('legacy') else ' = '
        args.append('exhaustive%s%s' % (sep, d['exh']))
    if d.get('doc'):
        lines.append('/// documented enum %s' % d['name'])
    if d.get('args_rev') and len(args) == 2:
        args = [args[1], args[0]]               # `bitenum(exhaustive = true, u2)`: the order is free
    lines.append('#[bitbybit::bitenum(%s)]' % ', '.join(args))
    lines.append('#[derive(Debug, PartialEq, Eq)]')
    if d.get('repr'):
        lines.append('#[repr(%s)]' % d['repr'])
    lines.append('pub enum %s {' % d['name'])
    for v in d['variants']:
        if v.get('doc') or d.get('doc'):
            lines.append('    /// documented variant')
        for a in v.get('attrs', []):
            lines.append('    ' + a)          # attributes that do not gate the variant: cfg_attr, allow, doc
        if v.get('cfg') and v.get('doc_first'):
            lines.append('    /// a gated variant, documented before its cfg attribute')
        if v.get('cfg') == 'all':
            lines.append('    #[cfg(all())]')
        elif v.get('cfg') == 'any':
            lines.append('    #[cfg(any())]')
        if v.get('discr_text') is not None:
            lines.append('    %s = %s,' % (v['name'], v['discr_text']))
        elif v.get('discr') is None:
            lines.append('    %s,' % v['name'])
        else:
            lines.append('    %s = %d,' % (v['name'], v['discr']))
    lines.append('}')
    if d.get('macro_arg') is not None:
        # the enum is produced by a macro_rules! macro; `$v` (an expr fragment) is one of its discriminants
        return ['macro_rules! mk_%s {' % d['name'].lower(), '    ($v:expr) => {'] + ['        ' + l for l in lines] + \
               ['    };', '}', 'mk_%s!(%s);' % (d['name'].lower(), d['macro_arg'])]
    return lines


def rust_decl(d):
    return rust_bitfield(d) if d['kind'] == 'bitfield' else rust_enum(d)


# ---- Coq printers ------------------------------------------------------------------------------

def coq_bool(b):
    return 'true' if b else 'false'


def coq_opt(x, pr=str):
    return 'None' if x is None else '(Some %s)' % pr(x)


def coq_fty(t):
    if t['k'] == 'bool':
        return 'FBool'
    if t['k'] == 'u':
        return '(FU %d)' % t['n']
    if t['k'] == 'i':
        return '(FI %d)' % t['n']
    if t['k'] == 'custom':
        return '(FCustom %s %d %s)' % (cstr(t['name']), t['n'], coq_bool(t.get('opt', False)))
    raise ValueError(t)


def coq_entry(e):
    return '(RSingle %d)' % e[1] if e[0] == 's' else '(RRange %d %d)' % (e[1], e[2])


def coq_field(f):
    return '(mkField %s %s %s %s [%s] %s %s %s %s %s)' % (
        cstr(f['name']), coq_fty(f['ty']), coq_bool(f['bits_kw']), coq_bool(f['list']),
        '; '.join(coq_entry(e) for e in f['entries']), coq_opt(f.get('count')), coq_opt(f.get('stride')),
        coq_bool('r' in f['acc']), coq_bool('w' in f['acc']), coq_bool(bool(f.get('doc'))))


def coq_default(df):
    if df is None:
        return 'None'
    if df['form'] == 'lit':
        return '(Some (DLit %d))' % df['value']
    return '(Some (DConst %s %d))' % (cstr(df['name']), df['value'])


def coq_decl(d):
    return '(mkDecl %s %d %s %s [%s] %s)' % (
        cstr(d['name']), d['base'], coq_default(d.get('default')), coq_bool(d.get('debug', False)),
        ';\n    '.join(coq_field(f) for f in d['fields']), coq_bool(bool(d.get('doc'))))


# ---- helpers over declarations ------------------------------------------------------------------

def entry_range(e):
    return (e[1], 1) if e[0] == 's' else (e[1], e[2] + 1 - e[1])


def ranges(f):
    return [entry_range(e) for e in f['entries']]


def total(f):
    return sum(n for _, n in ranges(f))


def fcount(f):
    return f['count'] if f.get('count') is not None else 1


def fstride(f):
    return f['stride'] if f.get('stride') is not None else total(f)


def elem_ranges(f, i):
    return [(lo + i * fstride(f), n) for lo, n in ranges(f)]


def nodup(rs):
    seen = set()
    for lo, n in rs:
        for k in range(lo, lo + n):
            if k in seen:
                return False
            seen.add(k)
    return True


def field_bits(f):
    s = set()
    for i in range(fcount(f)):
        for lo, n in elem_ranges(f, i):
            s.update(range(lo, lo + n))
    return s


# ---- enums in Coq ------------------------------------------------------------------------------

def coq_discr(v):
    if v.get('discr_text') is not None:
        t = v['discr_text'].replace('_', '')
        try:
            if t.lower().startswith('0x'):
                return '(DLitN %d)' % int(t, 16)
            if t.lower().startswith('0b'):
                return '(DLitN %d)' % int(t, 2)
            if t.lower().startswith('0o'):
                return '(DLitN %d)' % int(t, 8)
            if t.isdigit():
                return '(DLitN %d)' % int(t)
        except ValueError:
            pass
        return 'DNonLit'
    if v.get('discr') is None:
        return 'DMissing'
    return '(DLitN %d)' % v['discr']


def coq_enum(d):
    exh = {None: 'None', 'true': '(Some ExTrue)', 'false': '(Some ExFalse)', 'conditional': '(Some ExConditional)'}[d.get('exh')]
    vs = []
    for v in d['variants']:
        cfg = v.get('cfg') is not None
        live = v.get('cfg') != 'any'
        vs.append('(mkVariant %s %s %s %s)' % (cstr(v['name']), coq_discr(v), coq_bool(cfg), coq_bool(live)))
    return '(mkEnum %s %d %s [%s])' % (cstr(d['name']), d['bits'], exh, '; '.join(vs))


def discr_value(v):
    """numeric value of a variant's literal discriminant"""
    if v.get('discr') is not None:
        return v['discr']
    t = (v.get('discr_text') or '').replace('_', '')
    return int(t, 0)


# ---- attribute strings as token lists for the model of the argument parser (Tokens.v) ------------------

import re as _re

_PUNCT = {'.': 'PDot', '=': 'PEq', ':': 'PColon', ',': 'PComma'}


def _tok_flat(text):
    """tokens of a bracket-free piece of attribute text -> list of Coq tok terms, or None if it does not lex"""
    out = []
    i = 0
    while i < len(text):
        c = text[i]
        if c.isspace():
            i += 1
        elif c.isdigit():
            m = _re.match(r'[0-9][0-9A-Za-z_.]*?(?=\.\.|[^0-9A-Za-z_]|$)', text[i:])
            lit = m.group(0)
            out.append('(KLit %s)' % lit if lit.isdigit() and int(lit) <= 65535 else 'KBadLit')     # parse_literal_number refuses anything above u16::MAX
            i += len(lit)
        elif c.isalpha() or c == '_':
            m = _re.match(r'[A-Za-z_][A-Za-z0-9_]*', text[i:])
            out.append('(KIdent %s)' % cstr(m.group(0)))
            i += len(m.group(0))
        elif c in '"\'':
            return None
        else:
            out.append('(KPunct %s)' % _PUNCT.get(c, 'POther'))
            i += 1
    return out


def attr_tokens(attr_text):
    """'#[bits([0..=1, 4], rw)]' -> (name, Coq term of type list tok) ; None when the text is not of the form #[name(...)]"""
    m = _re.fullmatch(r'\s*#\[\s*([A-Za-z_][A-Za-z0-9_]*)\s*\((.*)\)\s*\]\s*', attr_text, _re.S)
    if not m:
        return None
    name, body = m.group(1), m.group(2)
    toks = []
    i = 0
    while i < len(body):
        if body[i] == '[':
            j = body.find(']', i)
            if j < 0:
                return None
            inner = body[i + 1:j]
            if '[' in inner:
                return None
            elems = [e for e in inner.split(',')]
            if elems and elems[-1].strip() == '':
                elems = elems[:-1]
            ok = all(_re.fullmatch(r'\s*\d+\s*(\.\.=?\s*\d+)?\s*', e) for e in elems)     # syn must parse each element as an expression
            if not ok:
                toks.append('(KGroup None)')
            else:
                toks.append('(KGroup (Some [%s]))' % '; '.join('[%s]' % '; '.join(_tok_flat(e)) for e in elems))
            i = j + 1
        elif body[i] in '({':
            toks.append('(KGroup None)')
            return name, '[%s]' % '; '.join(toks)
        else:
            j = i
            while j < len(body) and body[j] not in '[({':
                j += 1
            t = _tok_flat(body[i:j])
            if t is None:
                return None
            toks += t
            i = j
    return name, '[%s]' % '; '.join(toks)
