#!/bin/bash
# usage: tools/mutall.sh <seed-id> ...   runs the target property's check (and extras given as SEED:Cxx,Cyy) on each seeded change
cd "$(dirname "$0")/.."
for s in "$@"; do
  id="${s%%:*}"; extra=""; [[ "$s" == *:* ]] && extra="${s#*:}"
  prop="${id%%-*}"
  tools/mutant.py run /tmp/mut/$prop $id $prop ${extra//,/ } 2>&1 | grep -v "^WARNING"
done
