#!/bin/bash
# usage: tools/confirmwave.sh <Cxx> <suffix> <first-number>   confirms /tmp/mut/<Cxx><suffix>.out/patch{1,2}.diff as <Cxx>-m<n>, <Cxx>-m<n+1>
cd "$(dirname "$0")/.."
P=$1; S=$2; N=$3
for k in 1 2; do
  id=$P-m$((N+k-1))
  if [ -f /tmp/mut/$P$S.out/patch$k.diff ]; then
    python3 tools/mutant.py confirm /tmp/mut/$P$S /tmp/mut/$P$S.out/patch$k.diff /tmp/mut/$P$S.out/demo$k $id $P 2>&1 | tail -3
  fi
done
