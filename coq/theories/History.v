(** * History.v — any finite history of writes (C11, C12).

    Part 1 is about the abstract register of [Spec.v]: after any sequence of writes every bit
    is the bit supplied by the last write that covered it, or its initial value
    ([last_write_wins]); writes to disjoint elements commute; an [N]-bit register stays an
    [N]-bit register ([run_lt]).

    Part 2 ties histories to the *real* code: when the per-program obligations of [Prog.v]
    hold for the translated expansion [p] of a declaration [d] (they are computed by the kernel
    on every run), then running ANY finite sequence of [with_]/[set_] calls through [eval] on
    the real bodies, in either build profile, never panics, yields exactly the abstract
    register's state, and never creates state above bit [W-1] ([real_history]).  The
    quantification over histories is by induction on the operation list: no bound on length. *)
From BB Require Import Bits Expr Sym Spec Validate Prog.
Open Scope N_scope.

(** ** Part 1: the abstract register *)

Record wop := mkW { w_f : field; w_i : N; w_v : N }.

Definition apply (x : N) (o : wop) : N := spec_set (w_f o) (w_i o) (w_v o) x.

Definition run (ops : list wop) (x0 : N) : N := fold_left apply ops x0.

(** the last write (searching from the end of the history) that covers raw bit [k]:
    the value written and which of its bits lands on [k] *)
Fixpoint last_write (ops : list wop) (k : N) : option (N * N) :=
  match ops with
  | [] => None
  | o :: ops' =>
      match last_write ops' k with
      | Some r => Some r
      | None =>
          match find_pos (elem_ranges (w_f o) (w_i o)) 0 k with
          | Some j => Some (w_v o, j)
          | None => None
          end
      end
  end.

Theorem last_write_wins ops : forall x0 k,
  N.testbit (run ops x0) k =
  match last_write ops k with
  | Some (v, j) => N.testbit v j
  | None => N.testbit x0 k
  end.
Proof.
  unfold run. induction ops as [|o ops IH]; cbn [fold_left last_write]; intros x0 k; [reflexivity|].
  rewrite IH. destruct (last_write ops k) as [[v j]|]; [reflexivity|].
  unfold apply, spec_set. rewrite scatter_spec.
  destruct (find_pos _ 0 k); reflexivity.
Qed.

(** [last_write] really is "the last one that covers": nothing after it covers [k], and for a
    duplicate-free element bit [j] of the written value sits at [nth_pos .. j = k]. *)
Definition op_covers (o : wop) (k : N) : bool := covers (elem_ranges (w_f o) (w_i o)) k.

Lemma last_write_None ops k :
  last_write ops k = None <-> forall o, In o ops -> op_covers o k = false.
Proof.
  induction ops as [|o ops IH]; cbn [last_write].
  - split; [intros _ o []|reflexivity].
  - destruct (last_write ops k) as [r|].
    + split; [discriminate|]. intros H. destruct IH as [_ IH].
      discriminate IH. intros o' Ho'. apply H. now right.
    + destruct IH as [IH _]. specialize (IH eq_refl).
      destruct (find_pos _ 0 k) as [j|] eqn:E.
      * split; [discriminate|]. intros H. specialize (H o (or_introl eq_refl)).
        unfold op_covers in H. apply (find_pos_None_covers _ 0) in H. congruence.
      * split; [|reflexivity]. intros _ o' [<-|Ho']; [|now apply IH].
        unfold op_covers. now apply (find_pos_None_covers _ 0).
Qed.

Lemma last_write_Some ops k v j :
  last_write ops k = Some (v, j) ->
  exists before o after,
    ops = (before ++ o :: after)%list /\ w_v o = v /\
    find_pos (elem_ranges (w_f o) (w_i o)) 0 k = Some j /\
    forall o', In o' after -> op_covers o' k = false.
Proof.
  revert v j. induction ops as [|o ops IH]; cbn [last_write]; intros v j H; [discriminate|].
  destruct (last_write ops k) as [[v' j']|] eqn:E.
  - injection H as -> ->. destruct (IH _ _ eq_refl) as (b & o' & a & -> & Hv & Hf & Ha).
    exists (o :: b), o', a. auto.
  - destruct (find_pos _ 0 k) as [j'|] eqn:Ef; [|discriminate]. injection H as <- <-.
    exists [], o, ops. split; [reflexivity|]. split; [reflexivity|]. split; [exact Ef|].
    now apply last_write_None.
Qed.

Lemma find_pos_Some_nth_pos rs : NoDupBits rs -> forall off k j,
  find_pos rs off k = Some j -> off <= j /\ j - off < total rs /\ nth_pos rs (j - off) = k.
Proof.
  induction rs as [|[lo n] rs IH]; cbn [NoDupBits find_pos total nth_pos]; intros ND off k j H; [discriminate|].
  destruct ND as [Hd ND].
  destruct (find_pos rs (off + n) k) as [j'|] eqn:E.
  - injection H as ->. destruct (IH ND _ _ _ E) as (H1 & H2 & H3).
    split; [lia|]. split; [lia|]. destruct (N.ltb_spec (j - off) n); [lia|].
    replace (j - off - n) with (j - (off + n)) by lia. exact H3.
  - destruct (N.leb_spec lo k); cbn [andb] in H; [|discriminate].
    destruct (N.ltb_spec k (lo + n)); [|discriminate]. injection H as <-.
    split; [lia|]. split; [lia|]. destruct (N.ltb_spec (off + (k - lo) - off) n); lia.
Qed.

(** writes whose elements share no bit commute (C12: "writes to disjoint fields commute") *)
Theorem disjoint_commute o1 o2 x :
  (forall k, op_covers o1 k = true -> op_covers o2 k = false) ->
  apply (apply x o1) o2 = apply (apply x o2) o1.
Proof.
  intros Hd. apply N.bits_inj. intros k. unfold apply, spec_set. rewrite !scatter_spec.
  destruct (find_pos (elem_ranges (w_f o2) (w_i o2)) 0 k) as [j2|] eqn:E2;
  destruct (find_pos (elem_ranges (w_f o1) (w_i o1)) 0 k) as [j1|] eqn:E1; try reflexivity.
  exfalso.
  assert (C1 : op_covers o1 k = true).
  { unfold op_covers. destruct (covers _ k) eqn:C; [reflexivity|].
    apply (find_pos_None_covers _ 0) in C. congruence. }
  specialize (Hd k C1). unfold op_covers in Hd. apply (find_pos_None_covers _ 0) in Hd. congruence.
Qed.

(** the getters observe exactly that state (C12: "all getters observe exactly that state") *)
Theorem getters_observe ops x0 f i j :
  j < total (elem_ranges f i) ->
  N.testbit (spec_get f i (run ops x0)) j =
  match last_write ops (nth_pos (elem_ranges f i) j) with
  | Some (v, j') => N.testbit v j'
  | None => N.testbit x0 (nth_pos (elem_ranges f i) j)
  end.
Proof. intros Hj. unfold spec_get. rewrite gather_spec by exact Hj. apply last_write_wins. Qed.

(** overlapping fields alias the same bits coherently: a write through [f] is seen by [g]
    on exactly the raw bits both name *)
Theorem overlap_coherent f i g i' v x j :
  j < total (elem_ranges g i') ->
  N.testbit (spec_get g i' (spec_set f i v x)) j =
  match find_pos (elem_ranges f i) 0 (nth_pos (elem_ranges g i') j) with
  | Some jf => N.testbit v jf
  | None => N.testbit x (nth_pos (elem_ranges g i') j)
  end.
Proof. intros Hj. unfold spec_get, spec_set. rewrite gather_spec by exact Hj. apply scatter_spec. Qed.

(** an N-bit register stays an N-bit register (C11) *)
Definition in_base (W : N) (o : wop) : Prop := max_end (elem_ranges (w_f o) (w_i o)) <= W.

Theorem run_lt W ops : forall x0,
  x0 < 2 ^ W -> Forall (in_base W) ops -> run ops x0 < 2 ^ W.
Proof.
  unfold run. induction ops as [|o ops IH]; cbn [fold_left]; intros x0 Hx Hall; [exact Hx|].
  inversion Hall as [|o' ops' Ho Hops]; subst. apply IH; [|exact Hops].
  unfold apply, spec_set. now apply scatter_lt.
Qed.

(** ** Part 2: histories on the real code *)

Inductive hkind := HWith | HSet.

Record hop := mkH { h_kind : hkind; h_f : field; h_i : N; h_v : N }.

Definition hop_wop (o : hop) : wop := mkW (h_f o) (h_i o) (h_v o).

Definition body_of (p : program) (o : hop) : option expr :=
  match h_kind o with
  | HWith => match find_fn (with_name (h_f o)) (p_fns p) with
             | Some fn => match fn_body fn with BStruct e => Some e | _ => None end
             | None => None
             end
  | HSet => match find_fn (set_name (h_f o)) (p_fns p) with
            | Some fn => match fn_body fn with BSet e => Some e | _ => None end
            | None => None
            end
  end.

Section Real.
Variable c : bool.          (* overflow checks on / off *)
Variable d : decl.
Variable p : program.

(** one call of the real accessor on the state [raw]; the new state is the integer that the
    body stores in [raw_value] *)
Definition real_step (raw : N) (o : hop) : res N :=
  match body_of p o with
  | Some e =>
      match eval c (mk_env (d_W d) raw (h_i o) (present (f_ty (h_f o)) (h_v o))) e with
      | Ok (VInt _ r) => Ok r
      | Ok _ => Stuck
      | Panic => Panic
      | Stuck => Stuck
      end
  | None => Stuck
  end.

Fixpoint real_run (raw : N) (ops : list hop) : res N :=
  match ops with
  | [] => Ok raw
  | o :: ops' => bind (real_step raw o) (fun raw' => real_run raw' ops')
  end.

(** an operation the API admits: a writable field of the declaration, an in-range index, a
    value of the field's type *)
Definition hop_ok (o : hop) : Prop :=
  In (h_f o) (d_fields d) /\ f_set (h_f o) = true /\ dup_bits (h_f o) = false /\ h_i o < count (h_f o)
  /\ h_v o < 2 ^ ty_width (f_ty (h_f o)).

(** the setter obligations of [Prog.obligations] for every writable field *)
Definition setters_ok : Prop :=
  forall f, In f (d_fields d) -> f_set f = true -> dup_bits f = false ->
            ob_with (d_W d) (p_fns p) f = true /\ ob_set (d_W d) (p_fns p) f = true.

Lemma real_step_ok raw o :
  setters_ok -> hop_ok o -> raw < 2 ^ d_W d ->
  real_step raw o = Ok (apply raw (hop_wop o)) /\ apply raw (hop_wop o) < 2 ^ d_W d.
Proof.
  intros S (Hin & Hset & Hdup & Hi & Hv) Hraw. destruct (S _ Hin Hset Hdup) as [Ow Os].
  unfold real_step, body_of, apply, hop_wop. cbn [w_f w_i w_v].
  destruct (h_kind o).
  - unfold ob_with in Ow. destruct (find_fn _ _) as [fn|]; [|discriminate].
    destruct (fn_body fn) as [|e| |]; try discriminate.
    apply andb_prop in Ow. destruct Ow as [Ow _].
    destruct (check_setter_sound _ _ _ Ow _ _ _ Hi Hraw Hv c) as [-> Hlt]. auto.
  - unfold ob_set in Os. destruct (find_fn _ _) as [fn|]; [|discriminate].
    destruct (fn_body fn) as [| |e|]; try discriminate.
    apply andb_prop in Os. destruct Os as [Os _].
    destruct (check_setter_sound _ _ _ Os _ _ _ Hi Hraw Hv c) as [-> Hlt]. auto.
Qed.

(** ANY finite history of [with_]/[set_] calls on the real bodies: no panic, exactly the
    abstract register's state, still an N-bit value *)
Theorem real_history ops : forall raw,
  setters_ok -> Forall hop_ok ops -> raw < 2 ^ d_W d ->
  real_run raw ops = Ok (run (map hop_wop ops) raw) /\ run (map hop_wop ops) raw < 2 ^ d_W d.
Proof.
  unfold run. induction ops as [|o ops IH]; cbn [real_run map fold_left]; intros raw S Hall Hraw; [auto|].
  inversion Hall as [|o' ops' Ho Hops]; subst.
  destruct (real_step_ok raw o S Ho Hraw) as [-> Hlt]. cbn [bind]. now apply IH.
Qed.

(** ... hence last-write-wins, bit by bit, for the real code *)
Corollary real_last_write_wins ops raw :
  setters_ok -> Forall hop_ok ops -> raw < 2 ^ d_W d ->
  exists r, real_run raw ops = Ok r /\ r < 2 ^ d_W d /\
    forall k, N.testbit r k =
      match last_write (map hop_wop ops) k with
      | Some (v, j) => N.testbit v j
      | None => N.testbit raw k
      end.
Proof.
  intros S Hall Hraw. destruct (real_history ops raw S Hall Hraw) as [-> Hlt].
  eexists. split; [reflexivity|]. split; [exact Hlt|]. intros k. apply last_write_wins.
Qed.

(** C11: re-wrapping [x.raw_value()] gives back the very same state, so no getter can tell
    the two apart; and [raw_value()] cannot panic on any reachable state *)
Theorem rewrap_identity raw_body new_body :
  check_raw_value (d_W d) raw_body = true -> check_new_raw (d_W d) new_body = true ->
  forall ops raw0, setters_ok -> Forall hop_ok ops -> raw0 < 2 ^ d_W d ->
  exists x, real_run raw0 ops = Ok x /\
    eval c (mk_env (d_W d) x 0 (VBool false)) raw_body = Ok (VInt (base_ty (d_W d)) x) /\
    eval c (mk_env (d_W d) 0 0 (VInt (base_ty (d_W d)) x)) new_body = Ok (VInt (TU (storage (d_W d))) x).
Proof.
  intros Hr Hn ops raw0 S Hall Hraw. destruct (real_history ops raw0 S Hall Hraw) as [-> Hlt].
  eexists. split; [reflexivity|]. split.
  - now apply check_raw_value_sound.
  - apply check_new_raw_sound; [exact Hn|exact Hlt|apply pow2_pos].
Qed.
End Real.

(** the obligation list that every run discharges (the theorem [run_ok] of each generated case
    file states [forallb snd (obligations d p) = true]) contains [setters_ok] *)
Lemma obligations_setters_ok d p :
  forallb snd (obligations d p) = true -> setters_ok d p.
Proof.
  unfold obligations. rewrite forallb_app. intros H. apply andb_prop in H. destruct H as [_ H].
  rewrite forallb_forall in H. intros f Hin Hset Hdup.
  assert (A : forall ob, In ob (field_obligations (d_W d) (p_fns p) f) -> snd ob = true).
  { intros ob Hob. apply H. apply in_flat_map. exists f. auto. }
  unfold field_obligations in A. rewrite Hset, Hdup in A. split.
  - apply (A (("with:" ++ f_name f)%string, ob_with (d_W d) (p_fns p) f)). apply in_or_app. right. now left.
  - apply (A (("set:" ++ f_name f)%string, ob_set (d_W d) (p_fns p) f)). apply in_or_app. right. right. now left.
Qed.

Print Assumptions real_history.
Print Assumptions last_write_wins.
