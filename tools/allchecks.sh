#!/bin/bash
# usage: tools/allchecks.sh [tier]   runs every check once, printing one line each
cd "$(dirname "$0")/.."
for p in C01 C02 C03 C04 C05 C06 C07 C08 C09 C10 C11 C12 C13 C14 C15 C16 C17 C18 C19; do
  ./check $p --tier ${1:-quick} 2>&1 | grep -v "^\[bbv\]\|^WARNING" | tail -3
done
