(** * Support for the slice of the macro translated from its Rust source on every run

    [harness/bbv/srcmodel.py] reads the small decision functions of the macro ([BaseDataSize::new],
    [is_int_size_regular_type], the width test of [try_parse_arbitrary_int_type], [Bits::base_type],
    [Bits::is_arbitrary_int], [Exhaustive::matches], [Exhaustive::is_conditional]) out of /repo's source
    and writes them as Gallina functions [src_*].  Each is then proved equal to the function of the
    hand-written model FOR EVERY ARGUMENT: below [slice_bound] by kernel computation over the whole range,
    from there on by deciding every comparison with a constant ([big_arg]).  This file holds the two halves
    of that argument; the generated file only instantiates them. *)
From Coq Require Import NArith List Bool Lia.
From BB Require Import Bits.
Import ListNotations.
Open Scope N_scope.

Definition slice_bound : N := 300.
Definition slice_dom : list N := map N.of_nat (seq 0 300).

Lemma slice_dom_complete n : n < slice_bound -> In n slice_dom.
Proof.
  intros H. unfold slice_dom. apply in_map_iff. exists (N.to_nat n). split.
  - apply N2Nat.id.
  - apply in_seq. unfold slice_bound in H. lia.
Qed.

Definition beq_opt {A} (beq : A -> A -> bool) (a b : option A) : bool :=
  match a, b with Some x, Some y => beq x y | None, None => true | _, _ => false end.
Definition beq_pair (a b : N * N) : bool := (fst a =? fst b) && (snd a =? snd b).

Lemma beq_bool_ok a b : Bool.eqb a b = true -> a = b.
Proof. apply Bool.eqb_prop. Qed.
Lemma beq_N_ok a b : N.eqb a b = true -> a = b.
Proof. apply N.eqb_eq. Qed.
Lemma beq_pair_ok a b : beq_pair a b = true -> a = b.
Proof.
  destruct a as [a1 a2], b as [b1 b2]. unfold beq_pair. cbn [fst snd]. intros H.
  apply andb_true_iff in H. destruct H as [H1 H2]. apply N.eqb_eq in H1, H2. congruence.
Qed.
Lemma beq_opt_ok {A} (beq : A -> A -> bool) :
  (forall a b, beq a b = true -> a = b) -> forall a b, beq_opt beq a b = true -> a = b.
Proof. intros Hb [a|] [b|]; cbn; intros H; try discriminate; [f_equal; auto | reflexivity]. Qed.

(** the computed half: agreement on every argument below the bound *)
Lemma slice_below {A} (beq : A -> A -> bool) (f g : N -> A) :
  (forall a b, beq a b = true -> a = b) ->
  forallb (fun n => beq (f n) (g n)) slice_dom = true ->
  forall n, n < slice_bound -> f n = g n.
Proof.
  intros Hb Hall n Hn. rewrite forallb_forall in Hall. apply Hb, Hall, slice_dom_complete, Hn.
Qed.

(** the first argument below the bound on which two functions differ, for the report *)
Definition slice_first_diff {A} (beq : A -> A -> bool) (f g : N -> A) : option (N * A * A) :=
  match find (fun n => negb (beq (f n) (g n))) slice_dom with
  | Some n => Some (n, f n, g n)
  | None => None
  end.

(** the symbolic half: with [slice_bound <= n] every comparison of [n] with a constant below the bound is decided *)
Ltac big_cmp n :=
  match goal with
  | |- context[N.eqb n ?c] => replace (N.eqb n c) with false by (symmetry; apply N.eqb_neq; unfold slice_bound in *; lia)
  | |- context[N.eqb ?c n] => replace (N.eqb c n) with false by (symmetry; apply N.eqb_neq; unfold slice_bound in *; lia)
  | |- context[N.leb n ?c] => replace (N.leb n c) with false by (symmetry; apply N.leb_gt; unfold slice_bound in *; lia)
  | |- context[N.leb ?c n] => replace (N.leb c n) with true by (symmetry; apply N.leb_le; unfold slice_bound in *; lia)
  | |- context[N.ltb n ?c] => replace (N.ltb n c) with false by (symmetry; apply N.ltb_ge; unfold slice_bound in *; lia)
  | |- context[N.ltb ?c n] => replace (N.ltb c n) with true by (symmetry; apply N.ltb_lt; unfold slice_bound in *; lia)
  end.
Ltac big_arg n :=
  cbv beta zeta;
  repeat (big_cmp n; cbv beta zeta; cbn [andb orb negb fst snd]);
  reflexivity.
