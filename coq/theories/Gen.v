(** * Gen.v — model of the code generator (bitbybit/src/bitfield/codegen.rs): for every field
      declaration, the accessor bodies the macro emits, as [expr] terms.

    The functions follow [extracted_bits], [getter_packed], [setter_new_raw_value],
    [setter_mask], [setter_new_bits] and the argument conversion in [generate], template by
    template, with the same operators and nesting (so that the output can be compared
    *syntactically* with the translated real expansion: [syntactic_match]).  GenCorrect.v proves
    that these bodies meet the abstract register for EVERY declaration that satisfies the
    layout rules — all widths, positions, counts, strides and list lengths.

    This is a hand-written model.  It is tied to the code on every run by comparing it, term
    for term, with the translation of the real expansion of every corpus declaration; the
    agreement rate is reported in the evidence.  A mismatch is not by itself a violation (a
    harmless rewrite of a template changes the syntax): the per-program reflective obligations
    decide the properties for the real code; the theorems here extend them to declarations
    outside the corpus as far as the model mirrors the code. *)
From BB Require Import Bits Expr Spec Validate Prog.
From Coq Require Import String.
Open Scope string_scope.
Open Scope N_scope.

(** ** what [parse_field] records about a field *)

Definition is_bool (t : fty) : bool := match t with FBool => true | _ => false end.

(** [use_regular_int]: the field is carried by a primitive integer rather than an arbitrary-int *)
Definition use_regular (t : fty) : bool :=
  match t with
  | FBool => true
  | FU n => is_native n
  | FI _ => true
  | FCustom _ n _ => negb (n =? 1) && is_native n
  end.

(** the type of [as #primitive_type] in the getter *)
Definition prim_ty (t : fty) : ity :=
  match t with
  | FBool => TU 8
  | FU n => TU n
  | FI n => TI n
  | FCustom _ n _ => TU (storage n)
  end.

Definition is_custom (t : fty) : option string :=
  match t with FCustom name _ _ => Some name | _ => None end.

(** ** pieces *)

Section Templates.
Variable S : N.               (* storage width: the type of [self.raw_value] and of the literal [one] *)

Definition one : expr := ELit (TU S) 1.
Definition usz (n : N) : expr := ELit TUsize n.

(** [#lowest_bit #array_shift] *)
Definition pos (arr : option (N * N)) (lo : N) : expr :=
  match arr with
  | None => usz lo
  | Some (_, stride) => EBin OAdd (usz lo) (EBin OMul EIdx (usz stride))
  end.

(** [((one << n) - one)] *)
Definition lowmask (n : N) : expr := EBin OSub (EBin OShl one (usz n)) one.

(** [a | b | c], left-associated as [#(..)|*] parses; a single term stands alone *)
Fixpoint or_all (acc : expr) (l : list expr) : expr :=
  match l with
  | [] => acc
  | e :: l' => or_all (EBin OOr acc e) l'
  end.

Definition ors (l : list expr) : expr :=
  match l with
  | [] => EUnsupported "empty"
  | e :: l' => or_all e l'
  end.

(** [getter_packed]: the scan over the ranges with the running target offset *)
Fixpoint packed_terms (arr : option (N * N)) (rs : list range) (off : N) : list expr :=
  match rs with
  | [] => []
  | (lo, n) :: rs' =>
      EBin OShl (EBin OAnd (EBin OShr ERaw (pos arr lo)) (lowmask n)) (usz off)
      :: packed_terms arr rs' (off + n)
  end.

Definition getter_packed (arr : option (N * N)) (rs : list range) : expr := ors (packed_terms arr rs 0).

(** [setter_mask] *)
Definition mask_terms (rs : list range) : list expr :=
  map (fun '(lo, n) => EBin OShl (lowmask n) (usz lo)) rs.

(** [setter_new_bits] *)
Fixpoint newbits_terms (rs : list range) (off : N) : list expr :=
  match rs with
  | [] => []
  | (lo, n) :: rs' =>
      EBin OShl (EBin OAnd (EBin OShr (EVar "temp") (usz off)) (lowmask n)) (usz lo)
      :: newbits_terms rs' (off + n)
  end.

(** ** getter *)

Definition extracted_bits (f : field) : expr :=
  let rs := ranges f in
  let arr := match f_count f with Some k => Some (k, stride f) | None => None end in
  let t := f_ty f in
  if is_bool t then
    match rs with
    | (lo, _) :: _ => EBin ONe (EBin OAnd ERaw (EBin OShl one (pos arr lo))) (ELit TLit 0)
    | [] => EUnsupported "no range"
    end
  else if use_regular t then
    match rs with
    | [(lo, n)] => if n =? S then ECast ERaw (prim_ty t) else ECast (getter_packed arr rs) (prim_ty t)
    | _ => ECast (getter_packed arr rs) (prim_ty t)
    end
  else
    match rs with
    | [(lo, _)] => EExtract S (total rs) ERaw (pos arr lo)
    | _ => EExtract S (total rs) (getter_packed arr rs) (ELit TLit 0)
    end.

Definition with_index_assert (f : field) (body : expr) : expr :=
  match f_count f with
  | Some k => EAssert (EBin OLt EIdx (usz k)) body
  | None => body
  end.

Definition gen_getter (f : field) : expr :=
  with_index_assert f
    (match is_custom (f_ty f) with
     | Some name => ELet "extracted_bits" (extracted_bits f) (ECustomNew name (EVar "extracted_bits"))
     | None => extracted_bits f
     end).

(** ** setter *)

Definition argument_converted (t : fty) : expr :=
  match t with
  | FBool => EArg
  | FU n => if is_native n then EArg else EUValue EArg
  | FI n => ECast EArg (TU n)
  | FCustom _ n _ => if use_regular t then ECustomRaw EArg else EUValue (ECustomRaw EArg)
  end.

Definition new_raw_value (f : field) : expr :=
  let rs := ranges f in
  let t := f_ty f in
  let A := argument_converted t in
  match f_count f with
  | Some _ =>
      let s := stride f in
      if is_bool t then
        match rs with
        | (lo, _) :: _ =>
            ELet "effective_index" (EBin OAdd (usz lo) (EBin OMul EIdx (usz s)))
              (EIf A (EBin OOr ERaw (EBin OShl one (EVar "effective_index")))
                     (EBin OAnd ERaw (ENot (EBin OShl one (EVar "effective_index")))))
        | [] => EUnsupported "no range"
        end
      else
        match rs with
        | [(lo, n)] =>
            ELet "effective_index" (EBin OAdd (usz lo) (EBin OMul EIdx (usz s)))
              (EBin OOr (EBin OAnd ERaw (ENot (EBin OShl (lowmask n) (EVar "effective_index"))))
                        (EBin OShl (ECast A (TU S)) (EVar "effective_index")))
        | _ =>
            ELet "temp" (ECast A (TU S))
              (ELet "MASK" (ors (mask_terms rs))
                 (EBin OOr (EBin OAnd ERaw (ENot (EBin OShl (EVar "MASK") (EBin OMul EIdx (usz s)))))
                           (EBin OShl (ors (newbits_terms rs 0)) (EBin OMul EIdx (usz s)))))
        end
  | None =>
      if is_bool t then
        match rs with
        | (lo, _) :: _ =>
            EIf A (EBin OOr ERaw (EBin OShl one (usz lo))) (EBin OAnd ERaw (ENot (EBin OShl one (usz lo))))
        | [] => EUnsupported "no range"
        end
      else
        match rs with
        | [(lo, n)] =>
            if n =? S then ECast A (TU S)
            else EBin OOr (EBin OAnd ERaw (ENot (EBin OShl (lowmask n) (usz lo))))
                          (EBin OShl (ECast A (TU S)) (usz lo))
        | _ =>
            ELet "temp" (ECast A (TU S))
              (ELet "CLEAR_MASK" (ENot (ors (mask_terms rs)))
                 (EBin OOr (EBin OAnd ERaw (EVar "CLEAR_MASK")) (ors (newbits_terms rs 0))))
        end
  end.

(** the same expression is pasted into [with_] ([Self { raw_value: .. }]) and [set_]
    ([self.raw_value = ..;]) *)
Definition gen_setter (f : field) : expr := with_index_assert f (new_raw_value f).

(** ** raw_value / new_with_raw_value *)

Definition gen_raw_value (W : N) : expr :=
  if W =? S then ERaw else EExtract S W ERaw (ELit TLit 0).

Definition gen_new_with_raw_value (W : N) : expr :=
  if W =? S then EArg else EUValue EArg.
End Templates.

(** ** syntactic comparison with the translated real expansion *)

Definition ity_beq := ity_eqb.

Definition binop_eqb (a b : binop) : bool :=
  match a, b with
  | OShl, OShl | OShr, OShr | OAnd, OAnd | OOr, OOr | OXor, OXor | OAdd, OAdd | OSub, OSub
  | OMul, OMul | OLt, OLt | ONe, ONe | OEq, OEq => true
  | _, _ => false
  end.

Fixpoint expr_eqb (a b : expr) : bool :=
  match a, b with
  | ERaw, ERaw | EIdx, EIdx | EArg, EArg => true
  | EVar x, EVar y => String.eqb x y
  | ELit t n, ELit t' n' => ity_eqb t t' && (n =? n')
  | EBool x, EBool y => Bool.eqb x y
  | EBin o x y, EBin o' x' y' => binop_eqb o o' && expr_eqb x x' && expr_eqb y y'
  | ENot x, ENot y => expr_eqb x y
  | ECast x t, ECast y t' => expr_eqb x y && ity_eqb t t'
  | EIf c x y, EIf c' x' y' => expr_eqb c c' && expr_eqb x x' && expr_eqb y y'
  | ELet v x y, ELet v' x' y' => String.eqb v v' && expr_eqb x x' && expr_eqb y y'
  | EAssert c x, EAssert c' x' => expr_eqb c c' && expr_eqb x x'
  | EExtract s n x y, EExtract s' n' x' y' => (s =? s') && (n =? n') && expr_eqb x x' && expr_eqb y y'
  | EUNew s n x, EUNew s' n' x' => (s =? s') && (n =? n') && expr_eqb x x'
  | EUValue x, EUValue y => expr_eqb x y
  | ECustomNew t x, ECustomNew t' x' => String.eqb t t' && expr_eqb x x'
  | ECustomRaw x, ECustomRaw y => expr_eqb x y
  | EWrapBin o x y, EWrapBin o' x' y' => binop_eqb o o' && expr_eqb x x' && expr_eqb y y'
  | EDebugAssert c x, EDebugAssert c' x' => expr_eqb c c' && expr_eqb x x'
  | _, _ => false
  end.

Definition body_matches (name : string) (fns : list fn_item) (e : expr) : bool :=
  match find_fn name fns with
  | Some fn => match fn_body fn with
               | BValue e' | BStruct e' | BSet e' => expr_eqb e' e
               | BOther _ => false
               end
  | None => false
  end.

(** for every accessor the declaration calls for: is the real body, term for term, the model's? *)
Definition lbl (a b : string) : string := a ++ b.

Definition syntactic_match (d : decl) (p : program) : list (string * bool) :=
  let S := storage (d_W d) in
  (("gen:raw_value", body_matches "raw_value" (p_fns p) (gen_raw_value S (d_W d)))
   :: ("gen:new_with_raw_value", body_matches "new_with_raw_value" (p_fns p) (gen_new_with_raw_value S (d_W d)))
   :: flat_map (fun f =>
       ((if f_get f then [(lbl "gen:get:" (f_name f), body_matches (f_name f) (p_fns p) (gen_getter S f))] else [])
        ++ (if f_set f then [(lbl "gen:with:" (f_name f), body_matches (with_name f) (p_fns p) (gen_setter S f));
                             (lbl "gen:set:" (f_name f), body_matches (set_name f) (p_fns p) (gen_setter S f))]
            else []))%list) (d_fields d))%list.
