(** * Properties.v — the property theorems, and nothing else.

    Every theorem is closed by [exact] of a lemma proved elsewhere, so a statement cannot be
    quietly weakened by editing a proof.  [Print Assumptions] for each of them is produced on
    every run by the check (see harness/bbv/theorems.py) and compared with an allow-list.

    Reading guide.  [check_getter W f body = true] etc. are *computed* by the kernel for the real
    expansion of every corpus declaration on every run; the theorems say what a successful check
    means for all raw values, all arguments, all in-range indices and both build profiles
    ([c] ranges over overflow-checks on/off). *)
From BB Require Import Bits Expr Sym Spec Validate Parse ParseCorrect Enum Prog History Builder Surface DebugFmt Gen GenCorrect BuilderValid Tokens EndToEnd ParseRegion EnumRegion.
Open Scope N_scope.

(** ** C01 — getter returns exactly the declared bits *)

Theorem C01_getter_exact : forall W f body,
  check_getter W f body = true ->
  forall i raw, i < count f -> raw < 2 ^ W ->
  forall c, eval c (mk_env W raw i (VBool false)) body = Ok (present (f_ty f) (spec_get f i raw)).
Proof. exact check_getter_sound. Qed.

(** bit [j] of the field value is bit [nth_pos .. j] of the raw value, weight [2^j] *)
Theorem C01_bit_weights : forall f i x j,
  j < total (elem_ranges f i) ->
  N.testbit (spec_get f i x) j = N.testbit x (nth_pos (elem_ranges f i) j).
Proof. intros f i x j. apply gather_spec. Qed.

(** no bit outside the field influences the result *)
Theorem C01_outside_bits_irrelevant : forall f i x y,
  (forall k, covers (elem_ranges f i) k = true -> N.testbit x k = N.testbit y k) ->
  spec_get f i x = spec_get f i y.
Proof. intros f i x y. apply gather_ext. Qed.

(** ** C02 — setter rewrites exactly the field's bits; read-back *)

Theorem C02_setter_exact : forall W f body,
  check_setter W f body = true ->
  forall i raw v, i < count f -> raw < 2 ^ W -> v < 2 ^ ty_width (f_ty f) ->
  forall c, eval c (mk_env W raw i (present (f_ty f) v)) body
            = Ok (VInt (TU (storage W)) (spec_set f i v raw))
            /\ spec_set f i v raw < 2 ^ W.
Proof. exact check_setter_sound. Qed.

Theorem C02_readback : forall f i v x,
  NoDupBits (elem_ranges f i) -> v < 2 ^ total (elem_ranges f i) ->
  spec_get f i (spec_set f i v x) = v.
Proof. intros f i v x. apply gather_scatter. Qed.

Theorem C02_frame : forall f i v x k,
  covers (elem_ranges f i) k = false ->
  N.testbit (spec_set f i v x) k = N.testbit x k.
Proof. intros f i v x k. apply scatter_frame. Qed.

(** ** C03 — out-of-range indices panic before anything is read or written *)

Theorem C03_oob_panics : forall K body,
  check_assert K body = true ->
  forall ρ c, K <= e_idx ρ -> e_idx ρ < 2 ^ 64 -> eval c ρ body = Panic.
Proof. exact check_assert_sound. Qed.

(** ** C06 / C11 — raw value in and out *)

Theorem C06_raw_value_exact : forall W body,
  check_raw_value W body = true ->
  forall raw, raw < 2 ^ W ->
  forall c, eval c (mk_env W raw 0 (VBool false)) body = Ok (VInt (base_ty W) raw).
Proof. exact check_raw_value_sound. Qed.

Theorem C06_new_with_raw_value_exact : forall W body,
  check_new_raw W body = true ->
  forall r raw, r < 2 ^ W -> raw < 2 ^ W ->
  forall c, eval c (mk_env W raw 0 (VInt (base_ty W) r)) body = Ok (VInt (TU (storage W)) r).
Proof. exact check_new_raw_sound. Qed.

(** ** C16 — a successful symbolic evaluation certifies totality and profile independence *)

Theorem C16_seval_total_profile_independent : forall e σ sv,
  seval σ e = Some sv ->
  forall ν ρ, agrees ν σ ρ -> forall c, exists v, eval c ρ e = Ok v /\ den ν sv v.
Proof. exact seval_sound. Qed.

Theorem C16_checked_ok_then_unchecked_same : forall e ρ v,
  eval true ρ e = Ok v -> forall c, eval c ρ e = Ok v.
Proof. exact eval_mode_indep. Qed.

(** ** C07 — bitenum conversions: exact, total, mutually inverse (model of the generated match) *)

Theorem C07_new_returns_the_variant_with_that_discriminant : forall e x name,
  enum_new e x = NOk name ->
  exists v, In v (live e) /\ v_name v = name /\ v_discr v = DLitN x.
Proof. exact C07_new_exact. Qed.

Theorem C07_err_when_no_variant : forall e x,
  exh_of e <> ExTrue ->
  (forall v, In v (live e) -> v_discr v <> DLitN x) ->
  enum_new e x = NErr x.
Proof. exact C07_err. Qed.

Theorem C07_raw_then_new : forall e v x,
  NoDup (discrs (live e)) -> In v (live e) -> enum_raw v = Some x ->
  enum_new e x = NOk (v_name v).
Proof. exact C07_inverse_1. Qed.

Theorem C07_new_then_raw : forall e x name,
  enum_new e x = NOk name ->
  exists v, In v (live e) /\ v_name v = name /\ enum_raw v = Some x.
Proof. exact C07_inverse_2. Qed.

Theorem C07_never_panics : forall e,
  wf_enum e -> enum_accept e = true -> NoDup (discrs (en_variants e)) ->
  forall x, x < 2 ^ en_bits e -> enum_new e x <> NUnreachable.
Proof. exact C07_total. Qed.

(** ** C09 — the macro's decision (model) is the documented rule, both directions *)

Theorem C09_accept_iff_valid : forall d, accept_decl d = valid_decl d.
Proof. exact accept_decl_iff_valid. Qed.

Theorem C09_field_accept_iff_valid : forall W f, accept_field W f = valid_field W f.
Proof. exact accept_field_iff_valid. Qed.

(** ** C10 — bitenum validation *)

Theorem C10_enum_accept_iff_valid : forall e, enum_accept e = valid_enum e.
Proof. exact C10_accept_iff_valid. Qed.

Theorem C10_exhaustive_claims_are_sound : forall e,
  wf_enum e -> enum_accept e = true -> exh_of e = ExTrue -> NoDup (discrs (en_variants e)) ->
  forall x, x < 2 ^ en_bits e -> exists name, enum_new e x = NOk name.
Proof. exact C10_exhaustive_sound. Qed.

Theorem C10_no_variant_is_unrepresentable : forall e v x,
  enum_accept e = true -> In v (en_variants e) -> enum_raw v = Some x -> x < 2 ^ en_bits e.
Proof. exact C10_no_unrepresentable. Qed.

(** ** C12 — any history of writes ends in last-write-wins state, bit by bit *)

Theorem C12_last_write_wins : forall ops x0 k,
  N.testbit (run ops x0) k =
  match last_write ops k with
  | Some (v, j) => N.testbit v j
  | None => N.testbit x0 k
  end.
Proof. exact last_write_wins. Qed.

Theorem C12_last_write_is_the_last_covering_one : forall ops k v j,
  last_write ops k = Some (v, j) ->
  exists before o after,
    ops = (before ++ o :: after)%list /\ w_v o = v /\
    find_pos (elem_ranges (w_f o) (w_i o)) 0 k = Some j /\
    forall o', In o' after -> op_covers o' k = false.
Proof. exact last_write_Some. Qed.

Theorem C12_untouched_bits_keep_initial_value : forall ops k,
  last_write ops k = None <-> forall o, In o ops -> op_covers o k = false.
Proof. exact last_write_None. Qed.

Theorem C12_disjoint_writes_commute : forall o1 o2 x,
  (forall k, op_covers o1 k = true -> op_covers o2 k = false) ->
  apply (apply x o1) o2 = apply (apply x o2) o1.
Proof. exact disjoint_commute. Qed.

Theorem C12_getters_observe_the_state : forall ops x0 f i j,
  j < total (elem_ranges f i) ->
  N.testbit (spec_get f i (run ops x0)) j =
  match last_write ops (nth_pos (elem_ranges f i) j) with
  | Some (v, j') => N.testbit v j'
  | None => N.testbit x0 (nth_pos (elem_ranges f i) j)
  end.
Proof. exact getters_observe. Qed.

Theorem C12_overlapping_fields_alias_coherently : forall f i g i' v x j,
  j < total (elem_ranges g i') ->
  N.testbit (spec_get g i' (spec_set f i v x)) j =
  match find_pos (elem_ranges f i) 0 (nth_pos (elem_ranges g i') j) with
  | Some jf => N.testbit v jf
  | None => N.testbit x (nth_pos (elem_ranges g i') j)
  end.
Proof. exact overlap_coherent. Qed.

(** the real bodies (both profiles), any finite history: no panic, the abstract state, N bits *)
Theorem C12_real_code_any_history : forall c d p ops raw,
  setters_ok d p -> Forall (hop_ok d) ops -> raw < 2 ^ d_W d ->
  real_run c d p raw ops = Ok (run (map hop_wop ops) raw) /\ run (map hop_wop ops) raw < 2 ^ d_W d.
Proof. exact real_history. Qed.

(** ** C11 — arbitrary-int bases are N-bit registers *)

Theorem C11_no_state_above_bit_N : forall W ops x0,
  x0 < 2 ^ W -> Forall (in_base W) ops -> run ops x0 < 2 ^ W.
Proof. exact run_lt. Qed.

Theorem C11_rewrap_is_identity_on_reachable_states : forall c d p raw_body new_body,
  check_raw_value (d_W d) raw_body = true -> check_new_raw (d_W d) new_body = true ->
  forall ops raw0, setters_ok d p -> Forall (hop_ok d) ops -> raw0 < 2 ^ d_W d ->
  exists x, real_run c d p raw0 ops = Ok x /\
    eval c (mk_env (d_W d) x 0 (VBool false)) raw_body = Ok (VInt (base_ty (d_W d)) x) /\
    eval c (mk_env (d_W d) 0 0 (VInt (base_ty (d_W d)) x)) new_body = Ok (VInt (TU (storage (d_W d))) x).
Proof. exact rewrap_identity. Qed.

(** what each run's kernel-checked [run_ok] theorem establishes is the hypothesis above *)
Theorem C12_run_obligations_give_setters_ok : forall d p,
  forallb snd (obligations d p) = true -> setters_ok d p.
Proof. exact obligations_setters_ok. Qed.

(** ** C06 — the storage integer is the smallest native integer that holds the base width *)

Theorem C06_storage_minimal : forall W, 1 <= W <= 128 ->
  In (storage W) [8; 16; 32; 64; 128] /\ W <= storage W /\
  forall s, In s [8; 16; 32; 64; 128] -> W <= s -> storage W <= s.
Proof. exact storage_minimal. Qed.

(** ** C13 — builder()...build() is the default with every field written *)

Theorem C13_builder_is_the_with_chain_from_the_default : forall c d p steps args init,
  setters_ok d p -> Forall (hop_ok d) (builder_hops steps args) -> init < 2 ^ d_W d ->
  real_run c d p init (builder_hops steps args)
  = Ok (run (map hop_wop (builder_hops steps args)) init).
Proof. exact C13_builder_is_with_chain. Qed.

Theorem C13_every_argument_reads_back : forall before o after x,
  pairwise_later_disjoint o after ->
  NoDupBits (elem_ranges (w_f o) (w_i o)) -> w_v o < 2 ^ total (elem_ranges (w_f o) (w_i o)) ->
  spec_get (w_f o) (w_i o) (run (before ++ o :: after) x) = w_v o.
Proof. exact build_reads_back. Qed.

Theorem C13_uncovered_bits_keep_the_default : forall ops x k,
  (forall o, In o ops -> op_covers o k = false) -> N.testbit (run ops x) k = N.testbit x k.
Proof. exact build_keeps_default. Qed.

(** ** C14 — the builder exists exactly when sound; build() is unreachable until all fields are set *)

Theorem C14_overlap_test_is_exact : forall rs, (exists m, scan rs 0 = Some m) <-> NoDupBits rs.
Proof. exact scan_0_iff. Qed.

Theorem C14_offered_iff_sound : forall d,
  (forall k, writable_cover d k = true -> k < d_W d) ->
  ((exists steps, builder_offered d = Some steps) <->
   no_bit_writable_twice d /\
   (has_default d = true \/ forall k, k < d_W d -> writable_cover d k = true)).
Proof. exact offered_iff_sound. Qed.

Theorem C14_chain_masks_strictly_grow : forall fs running steps,
  chain fs running = Some steps ->
  Forall (fun f => f_set f = true -> forall fm, field_mask f = Some fm -> fm <> 0) fs ->
  wf_chain steps running.
Proof. exact chain_wf. Qed.

Theorem C14_only_the_complete_chain_reaches_build : forall steps m calls,
  wf_chain steps m ->
  typechecks steps (fold_left (fun _ s => bs_out s) steps m) m calls = true ->
  calls = full_calls steps.
Proof. exact typestate_unique_path. Qed.

Theorem C14_the_complete_chain_typechecks : forall steps m,
  wf_chain steps m ->
  typechecks steps (fold_left (fun _ s => bs_out s) steps m) m (full_calls steps) = true.
Proof. exact typestate_full_path_ok. Qed.

(** ** C15 — everything but set_ is const (surface); one evaluator for both contexts *)

Theorem C15_everything_but_set_is_const : forall d s,
  In s (expected_sigs d) -> s_const s = false ->
  exists f, In f (d_fields d) /\ f_set f = true /\ s_name s = set_name f.
Proof. exact C15_const_surface. Qed.

Theorem C15_builder_steps_are_const : forall d st,
  In st (expected_steps d) -> s_const (xs_sig st) = true /\ s_pub (xs_sig st) = true.
Proof. exact C15_builder_steps_const. Qed.

(** ** C17 — access specifiers decide the API surface *)

Theorem C17_field_api_is_exactly_what_the_specifier_says : forall f,
  map s_name (field_sigs f) =
  ((if f_get f then [f_name f] else []) ++ (if f_set f then [with_name f; set_name f] else []))%list.
Proof. exact C17_field_surface_exact. Qed.

Theorem C17_whole_api_surface : forall d,
  map s_name (expected_sigs d) =
  (map s_name (base_sigs d) ++
   flat_map (fun f => (if f_get f then [f_name f] else []) ++
                      (if f_set f then [with_name f; set_name f] else [])) (d_fields d))%list.
Proof. exact C17_surface_exact. Qed.

Theorem C17_only_setters_of_writable_fields_mutate : forall d s,
  In s (expected_sigs d) -> s_self s = "&mut"%string ->
  exists f, In f (d_fields d) /\ f_set f = true /\ s_name s = set_name f.
Proof. exact C17_mutators_are_writable_fields. Qed.

Theorem C17_writes_elsewhere_do_not_touch_a_field : forall f i g j v x,
  (forall k, covers (elem_ranges f i) k = true -> covers (elem_ranges g j) k = false) ->
  spec_get f i (spec_set g j v x) = spec_get f i x.
Proof. exact C17_other_writers_do_not_touch. Qed.

(** ** C18 — documentation *)

Theorem C18_public_items_are_documented : forall d s,
  (forall f, In f (d_fields d) -> f_doc f = true) ->
  In s (expected_sigs d) -> s_pub s = true -> s_doc s = true.
Proof. exact C18_docs. Qed.

Theorem C18_builder_items_are_documented : forall d st,
  (forall f, In f (d_fields d) -> f_doc f = true) ->
  In st (expected_steps d) -> s_doc (xs_sig st) = true.
Proof. exact C18_docs_builder. Qed.

(** ** C19 — debug prints every field by name from the getters, in order *)

Theorem C19_every_field_by_name_in_order : forall env k d raw,
  exists fs, debug_tree env (S k) d raw = DStruct (d_name d) fs /\ map fst fs = map f_name (d_fields d).
Proof. exact C19_every_field_in_order. Qed.

Theorem C19_text_is_a_function_of_the_getters : forall env k d x y,
  (forall f, In f (d_fields d) -> spec_get f 0 x = spec_get f 0 y) ->
  debug_tree env (S k) d x = debug_tree env (S k) d y.
Proof. exact C19_values_from_getters. Qed.

(** ** The generator model (Gen.v, a term-for-term mirror of codegen.rs): ALL declarations *)

(** C01/C03/C04/C05/C08: every getter, every valid layout, every raw value, both profiles *)
Theorem C01_generator_model_every_getter : forall c W f i raw,
  base_ok W = true -> valid_field W f = true -> nodup_bits (ranges f) = true -> count f < 2 ^ 64 ->
  i < count f -> raw < 2 ^ W ->
  eval c (mk_env W raw i (VBool false)) (gen_getter (storage W) f) = Ok (present (f_ty f) (spec_get f i raw)).
Proof. exact model_getter_correct. Qed.

(** C02/C03/C04/C05/C08/C11: every with_/set_ body *)
Theorem C02_generator_model_every_setter : forall c W f i raw v,
  base_ok W = true -> valid_field W f = true -> nodup_bits (ranges f) = true -> count f < 2 ^ 64 ->
  i < count f -> raw < 2 ^ W -> v < 2 ^ ty_width (f_ty f) ->
  eval c (mk_env W raw i (present (f_ty f) v)) (gen_setter (storage W) f)
  = Ok (VInt (TU (storage W)) (spec_set f i v raw))
  /\ spec_set f i v raw < 2 ^ W.
Proof. exact model_setter_correct. Qed.

Theorem C03_generator_model_out_of_range_index_panics : forall c S f ρ k,
  f_count f = Some k -> k < 2 ^ 64 -> k <= e_idx ρ -> e_idx ρ < 2 ^ 64 ->
  eval c ρ (gen_getter S f) = Panic /\ eval c ρ (gen_setter S f) = Panic.
Proof. exact gen_oob_panics. Qed.

Theorem C04_distinct_bits_fit_the_base : forall rs W, NoDupBits rs -> max_end rs <= W -> total rs <= W.
Proof. exact total_le_base. Qed.

Theorem C06_generator_model_raw_value : forall c W raw,
  base_ok W = true -> raw < 2 ^ W ->
  eval c (mk_env W raw 0 (VBool false)) (gen_raw_value (storage W) W) = Ok (VInt (base_ty W) raw).
Proof. exact gen_raw_value_correct. Qed.

Theorem C06_generator_model_new_with_raw_value : forall c W r raw,
  base_ok W = true -> r < 2 ^ W ->
  eval c (mk_env W raw 0 (VInt (base_ty W) r)) (gen_new_with_raw_value (storage W) W)
  = Ok (VInt (TU (storage W)) r).
Proof. exact gen_new_with_raw_value_correct. Qed.

(** C11/C12/C16: any finite history on the model's bodies *)
Theorem C12_generator_model_any_history : forall c d ops raw,
  valid_decl d = true -> Forall (fun f => count f < 2 ^ 64) (d_fields d) ->
  Forall (hop_ok d) ops -> raw < 2 ^ d_W d ->
  model_run c d raw ops = Ok (run (map hop_wop ops) raw) /\ run (map hop_wop ops) raw < 2 ^ d_W d.
Proof. exact model_history. Qed.

(** C14 for every rule-valid declaration: build() type-checks exactly for the complete chain *)
Theorem C14_build_typechecks_iff_every_field_supplied_in_order : forall d steps,
  valid_decl d = true -> builder_offered d = Some steps ->
  forall calls, typechecks steps (final_mask steps) 0 calls = true <-> calls = full_calls steps.
Proof. exact typestate_for_valid_declarations. Qed.

(** C07 per program: when the run's obligation on the translated real match holds, the real match computes the
    model's conversion for every raw value *)
Theorem C07_real_match_is_the_model_conversion : forall e p,
  NoDup (map v_name (en_variants e)) ->
  list_eqb arm_eqb (ep_arms p) (expected_arms e) = true ->
  (match ep_default p with
   | DefErr => exh_matches (exh_of e) false
   | DefUnreachable => negb (exh_matches (exh_of e) false)
   | DefOther => false
   end) = true ->
  forall x, ep_new p (live_name e) x = enum_new e x.
Proof. exact check_enum_new_sound. Qed.

(** C09, the attribute grammar: the macro's token automaton on the tokens of a well-formed attribute yields exactly
    the ranges, access flags and stride the structured decision starts from, or rejects exactly when it does *)
Theorem C09_argument_automaton_parses_well_formed_attributes : forall f,
  (f_entries f <> [] \/ f_list f = true) ->
  option_map result_of (parse_attr (f_bits_kw f) (is_some (f_count f)) (print_attr f)) = front f.
Proof. exact parse_print. Qed.

Theorem C09_accepted_fields_have_a_parsable_attribute : forall W f,
  accept_field W f = true -> exists r, front f = Some r.
Proof. exact accept_field_front. Qed.

(** C09 / C10, the functions against which the translation of the macro's own source is proved on every run (DESIGN 3.7) are
    exactly the corresponding parts of the decision models: a field is accepted iff its attribute has the right shape, its
    type is spelled in a supported way, the numeric checks [region_checks] pass and a custom type has the selected width *)
Theorem C09_numeric_checks_are_the_arithmetic_part_of_accept_field : forall W f,
  accept_field W f = true ->
  exists rs sz, type_size (f_ty f) = Some sz /\ region_checks W rs sz (f_count f) (f_stride f) = true.
Proof. exact accept_field_region_true. Qed.

Theorem C10_count_checks_are_the_arithmetic_part_of_enum_accept : forall e,
  enum_accept e = true ->
  enum_cfg_check (existsb v_cfg (en_variants e)) (exh_of e) = true /\
  enum_count_checks (en_bits e) (N.of_nat (List.length (en_variants e))) (exh_of e) = true.
Proof. exact enum_accept_region_true. Qed.

(** C13 per program: the builder step the model expects calls the real with_ methods in order, element by element *)
Theorem C13_expected_step_performs_the_with_calls : forall d s vs,
  with_names_distinct d -> In (bs_field s) (d_fields d) -> f_set (bs_field s) = true ->
  List.length vs = N.to_nat (count (bs_field s)) ->
  shape_hops d (xs_shape (expected_step s)) vs = Some (step_hops s vs).
Proof. exact expected_step_semantics. Qed.

(** C19: the compact rendering is the standard struct format *)
Theorem C19_standard_struct_format : forall n f fs,
  render_compact (DStruct n (f :: fs))
  = (n ++ " { " ++ join ", " (map (fun av => fst av ++ ": " ++ render_compact (snd av)) (f :: fs)) ++ " }")%string.
Proof. exact render_compact_struct. Qed.

(** ** End to end over the model of the macro: whatever the model of [parse_field] accepts, the model of
       [codegen.rs] implements as the abstract register *)
Theorem model_macro_end_to_end : forall d,
  accept_decl d = true ->
  Forall (fun f => nodup_bits (ranges f) = true /\ count f < 2 ^ 64) (d_fields d) ->
  (* every getter *)
  (forall c f i raw, In f (d_fields d) -> i < count f -> raw < 2 ^ d_W d ->
     eval c (mk_env (d_W d) raw i (VBool false)) (gen_getter (storage (d_W d)) f)
     = Ok (present (f_ty f) (spec_get f i raw)))
  (* every finite history of writes *)
  /\ (forall c ops raw, Forall (hop_ok d) ops -> raw < 2 ^ d_W d ->
        model_run c d raw ops = Ok (run (map hop_wop ops) raw) /\ run (map hop_wop ops) raw < 2 ^ d_W d)
  (* the raw value in and out *)
  /\ (forall c raw, raw < 2 ^ d_W d ->
        eval c (mk_env (d_W d) raw 0 (VBool false)) (gen_raw_value (storage (d_W d)) (d_W d)) = Ok (VInt (base_ty (d_W d)) raw)).
Proof. exact macro_model_end_to_end. Qed.

(** C06: ZERO is 0; DEFAULT (hence new() and Default::default(), whose bodies are Self::DEFAULT) carries the declared value *)
Theorem C06_zero_and_default_carry_the_declared_value : forall d,
  (match d_default d with Some df => default_value df < 2 ^ d_W d | None => True end) ->
  forall c, In c (expected_consts d) ->
  cinit_value d (c_init c) =
  Some (if String.eqb (c_name c) "ZERO" then 0
        else match d_default d with Some df => default_value df | None => 0 end).
Proof. exact C06_constants_carry_the_declared_value. Qed.
