(** * Spec.v — the abstract N-bit register: what a bitfield declaration *means*.

    Written independently of the macro's code.  A field is an ordered list of bit ranges
    [(lo, len)]; the first range supplies the least significant bits of the field value.
    [gather] reads, [scatter] writes; both are characterised bit by bit.  No shift/mask
    trickery is needed to read this file: the two [_spec] lemmas are the definition. *)
From BB Require Import Bits.
From Coq Require Import String.
Open Scope N_scope.

Definition range := (N * N)%type.   (* lowest bit, number of bits *)

Fixpoint total (rs : list range) : N :=
  match rs with [] => 0 | (_, n) :: rs' => n + total rs' end.

(** reading: concatenate the ranges, first range least significant *)
Fixpoint gather (rs : list range) (x : N) : N :=
  match rs with
  | [] => 0
  | (lo, n) :: rs' => N.lor (bitsN lo n x) (N.shiftl (gather rs' x) n)
  end.

(** position in the raw value of bit [j] of the field value *)
Fixpoint nth_pos (rs : list range) (j : N) : N :=
  match rs with
  | [] => 0
  | (lo, n) :: rs' => if j <? n then lo + j else nth_pos rs' (j - n)
  end.

(** which bit of the field value (counting from [off]) is stored at raw bit [k]?
    With a list naming a bit twice the later entry wins; such lists are outside every
    guarantee (see [NoDupBits]). *)
Fixpoint find_pos (rs : list range) (off k : N) : option N :=
  match rs with
  | [] => None
  | (lo, n) :: rs' =>
      match find_pos rs' (off + n) k with
      | Some j => Some j
      | None => if (lo <=? k) && (k <? lo + n) then Some (off + (k - lo)) else None
      end
  end.

(** writing: put bits [off ..] of [v] at the listed positions of [x] *)
Fixpoint scatter (rs : list range) (off v x : N) : N :=
  match rs with
  | [] => x
  | (lo, n) :: rs' =>
      scatter rs' (off + n) v
        (N.lor (N.ldiff x (N.shiftl (N.ones n) lo)) (N.shiftl (bitsN off n v) lo))
  end.

(** the set of raw bits a range list names *)
Definition covers (rs : list range) (k : N) : bool :=
  existsb (fun '(lo, n) => (lo <=? k) && (k <? lo + n)) rs.

(** no bit is named twice *)
Fixpoint NoDupBits (rs : list range) : Prop :=
  match rs with
  | [] => True
  | (lo, n) :: rs' => (forall k, lo <= k < lo + n -> covers rs' k = false) /\ NoDupBits rs'
  end.

Fixpoint nodup_bits (rs : list range) : bool :=
  match rs with
  | [] => true
  | (lo, n) :: rs' =>
      forallb (fun '(lo', n') => (n =? 0) || (n' =? 0) || (lo + n <=? lo') || (lo' + n' <=? lo)) rs'
      && nodup_bits rs'
  end.

Definition shift_ranges (d : N) (rs : list range) : list range :=
  map (fun '(lo, n) => (lo + d, n)) rs.

Definition max_end (rs : list range) : N :=
  fold_right (fun '(lo, n) m => N.max (lo + n) m) 0 rs.

(** ** Characterisations *)

Lemma gather_lt rs x : gather rs x < 2 ^ total rs.
Proof.
  apply small_of_testbit. revert x.
  induction rs as [|[lo n] rs IH]; cbn [gather total]; intros x i Hi; [apply N.bits_0|].
  rewrite N.lor_spec, bitsN_spec.
  destruct (N.ltb_spec i n); [lia|]. cbn [andb orb].
  rewrite N.shiftl_spec_high' by lia. apply IH. lia.
Qed.

Lemma gather_spec rs x j :
  j < total rs -> N.testbit (gather rs x) j = N.testbit x (nth_pos rs j).
Proof.
  revert j. induction rs as [|[lo n] rs IH]; cbn [gather total nth_pos]; intros j Hj; [lia|].
  rewrite N.lor_spec, bitsN_spec.
  destruct (N.ltb_spec j n); cbn [andb orb].
  - rewrite N.shiftl_spec_low by lia. rewrite orb_false_r. f_equal. lia.
  - rewrite N.shiftl_spec_high' by lia. apply IH. lia.
Qed.

Lemma scatter_spec rs : forall off v x k,
  N.testbit (scatter rs off v x) k =
  match find_pos rs off k with Some j => N.testbit v j | None => N.testbit x k end.
Proof.
  induction rs as [|[lo n] rs IH]; cbn [scatter find_pos]; intros off v x k; [reflexivity|].
  rewrite IH. destruct (find_pos rs (off + n) k) as [j|]; [reflexivity|].
  rewrite N.lor_spec, N.ldiff_spec.
  destruct (N.leb_spec lo k) as [Hlo|Hlo]; cbn [andb].
  - rewrite !N.shiftl_spec_high' by lia. rewrite bitsN_spec.
    destruct (N.ltb_spec k (lo + n)).
    + rewrite N.ones_spec_low by lia. destruct (N.ltb_spec (k - lo) n); [|lia].
      cbn. rewrite andb_false_r. cbn. f_equal. lia.
    + rewrite N.ones_spec_high by lia. destruct (N.ltb_spec (k - lo) n); [lia|].
      cbn. now rewrite andb_true_r, orb_false_r.
  - rewrite !N.shiftl_spec_low by lia. cbn. now rewrite andb_true_r, orb_false_r.
Qed.

Lemma find_pos_None_covers rs : forall off k, find_pos rs off k = None <-> covers rs k = false.
Proof.
  induction rs as [|[lo n] rs IH]; cbn [find_pos covers existsb]; intros off k; [tauto|].
  specialize (IH (off + n) k). fold (covers rs k) in *.
  destruct (find_pos rs (off + n) k) as [j|].
  - split; [discriminate|]. intros H. apply orb_false_elim in H. destruct H as [_ H].
    apply IH in H. discriminate.
  - destruct ((lo <=? k) && (k <? lo + n)); cbn.
    + split; discriminate.
    + split; intros _; [now apply IH|reflexivity].
Qed.

Lemma covers_nth_pos rs j : j < total rs -> covers rs (nth_pos rs j) = true.
Proof.
  revert j. induction rs as [|[lo n] rs IH]; cbn [total nth_pos covers existsb]; intros j Hj; [lia|].
  destruct (N.ltb_spec j n).
  - apply orb_true_intro. left. lia.
  - apply orb_true_intro. right. apply IH. lia.
Qed.

(** with distinct bits, the [j]-th field bit lives at [nth_pos rs j] and nowhere else *)
Lemma find_pos_nth_pos rs : NoDupBits rs -> forall off j,
  j < total rs -> find_pos rs off (nth_pos rs j) = Some (off + j).
Proof.
  induction rs as [|[lo n] rs IH]; cbn [NoDupBits total nth_pos find_pos]; intros ND off j Hj; [lia|].
  destruct ND as [Hd ND].
  destruct (N.ltb_spec j n) as [Hjn|Hjn].
  - assert (Hc : covers rs (lo + j) = false) by (apply Hd; lia).
    apply (find_pos_None_covers rs (off + n)) in Hc. rewrite Hc.
    destruct (N.leb_spec lo (lo + j)); [|lia]. destruct (N.ltb_spec (lo + j) (lo + n)); [|lia].
    cbn. f_equal. lia.
  - rewrite (IH ND (off + n) (j - n)) by lia. f_equal. lia.
Qed.

(** write then read is the identity (C02, C04) *)
Theorem gather_scatter rs v x :
  NoDupBits rs -> v < 2 ^ total rs -> gather rs (scatter rs 0 v x) = v.
Proof.
  intros ND Hv. apply N.bits_inj. intros j.
  destruct (N.lt_ge_cases j (total rs)) as [Hj|Hj].
  - rewrite gather_spec by exact Hj. rewrite scatter_spec, (find_pos_nth_pos rs ND 0 j Hj).
    f_equal.
  - rewrite (testbit_small _ (total rs) j (gather_lt _ _) Hj).
    now rewrite (testbit_small v (total rs) j).
Qed.

(** bits the list does not name are untouched (frame; C02, C04) *)
Theorem scatter_frame rs off v x k :
  covers rs k = false -> N.testbit (scatter rs off v x) k = N.testbit x k.
Proof.
  intros H. rewrite scatter_spec. apply (find_pos_None_covers rs off) in H. now rewrite H.
Qed.

(** reading depends only on the named bits (C01: "no bit outside the range influences") *)
Theorem gather_ext rs x y :
  (forall k, covers rs k = true -> N.testbit x k = N.testbit y k) -> gather rs x = gather rs y.
Proof.
  intros H. apply N.bits_inj. intros j.
  destruct (N.lt_ge_cases j (total rs)) as [Hj|Hj].
  - rewrite !gather_spec by exact Hj. apply H. now apply covers_nth_pos.
  - now rewrite !(testbit_small _ (total rs) j (gather_lt _ _) Hj).
Qed.

Lemma max_end_covers rs k : covers rs k = true -> k < max_end rs.
Proof.
  induction rs as [|[lo n] rs IH]; cbn [covers existsb max_end fold_right]; [discriminate|].
  intros H. apply orb_prop in H. destruct H as [H|H].
  - lia.
  - specialize (IH H). unfold max_end in IH. lia.
Qed.

Lemma scatter_lt rs off v x W :
  x < 2 ^ W -> max_end rs <= W -> scatter rs off v x < 2 ^ W.
Proof.
  intros Hx Hm. apply small_of_testbit. intros i Hi.
  rewrite scatter_frame.
  - now apply (testbit_small x W).
  - destruct (covers rs i) eqn:E; [|reflexivity]. apply max_end_covers in E. lia.
Qed.

Lemma disjoint_covers lo n rs k :
  forallb (fun '(lo', n') => (n =? 0) || (n' =? 0) || (lo + n <=? lo') || (lo' + n' <=? lo)) rs = true ->
  lo <= k < lo + n -> covers rs k = false.
Proof.
  intros H Hk. induction rs as [|[lo' n'] rs IH]; cbn [covers existsb forallb] in *; [reflexivity|].
  apply andb_prop in H. destruct H as [H1 H2]. fold (covers rs k). rewrite (IH H2).
  rewrite orb_false_r. lia.
Qed.

Lemma nodup_bits_ok rs : nodup_bits rs = true -> NoDupBits rs.
Proof.
  induction rs as [|[lo n] rs IH]; cbn [nodup_bits NoDupBits]; [trivial|].
  intros H. apply andb_prop in H. destruct H as [H1 H2]. split; [|now apply IH].
  intros k Hk. now apply (disjoint_covers lo n).
Qed.

Lemma covers_shift d rs k : covers (shift_ranges d rs) k = (d <=? k) && covers rs (k - d).
Proof.
  induction rs as [|[lo n] rs IH]; cbn [shift_ranges map covers existsb].
  - now rewrite andb_false_r.
  - fold (shift_ranges d rs). fold (covers (shift_ranges d rs) k). fold (covers rs (k - d)).
    rewrite IH. destruct (N.leb_spec d k); cbn [andb].
    + f_equal. lia.
    + rewrite orb_false_r. lia.
Qed.

Lemma total_shift d rs : total (shift_ranges d rs) = total rs.
Proof. induction rs as [|[lo n] rs IH]; cbn; [reflexivity|]. now f_equal. Qed.

Lemma max_end_shift d rs : rs <> [] -> max_end (shift_ranges d rs) = max_end rs + d.
Proof.
  induction rs as [|[lo n] rs IH]; [congruence|]. intros _.
  destruct rs as [|r rs'].
  - cbn. lia.
  - specialize (IH ltac:(discriminate)). cbn [shift_ranges map max_end fold_right] in *.
    unfold max_end, shift_ranges in IH. rewrite IH. lia.
Qed.

Lemma NoDupBits_shift d rs : NoDupBits rs -> NoDupBits (shift_ranges d rs).
Proof.
  induction rs as [|[lo n] rs IH]; cbn [NoDupBits shift_ranges map]; [trivial|].
  intros [Hd ND]. split; [|now apply IH].
  intros k Hk. fold (shift_ranges d rs). rewrite covers_shift.
  destruct (N.leb_spec d k); cbn [andb]; [|reflexivity]. apply Hd. lia.
Qed.

(** ** Declarations, as the user writes them *)

Inductive fty :=
| FBool
| FU (n : N)                              (* u8..u128 and arbitrary_int u1..u127 *)
| FI (n : N)                              (* i8..i128 *)
| FCustom (name : string) (n : N) (opt : bool).   (* bitenum / nested bitfield with an n-bit raw value;
                                                     opt: declared as Option<name> *)

Inductive rentry := RSingle (n : N) | RRange (lo hi : N).

Record field := mkField {
  f_name : string;
  f_ty : fty;
  f_bits_kw : bool;              (* written with `bits(..)` (true) or `bit(..)` (false) *)
  f_list : bool;                 (* the range argument is a bracketed list *)
  f_entries : list rentry;
  f_count : option N;            (* Some K for [T; K] *)
  f_stride : option N;           (* stride = s, when written *)
  f_get : bool;                  (* r or rw *)
  f_set : bool;                  (* w or rw *)
  f_doc : bool                   (* the user wrote a doc comment on the field *)
}.

Inductive default_form := DLit (n : N) | DConst (name : string) (n : N).

Record decl := mkDecl {
  d_name : string;
  d_W : N;                       (* declared (exposed) base width: 8,16,32,64,128 or an arbitrary-int width *)
  d_default : option default_form;
  d_debug : bool;
  d_fields : list field;
  d_doc : bool                   (* the user wrote a doc comment on the struct *)
}.

Definition entry_range (e : rentry) : range :=
  match e with RSingle n => (n, 1) | RRange lo hi => (lo, hi + 1 - lo) end.

Definition ranges (f : field) : list range := map entry_range (f_entries f).

Definition ty_width (t : fty) : N :=
  match t with FBool => 1 | FU n | FI n | FCustom _ n _ => n end.

Definition count (f : field) : N := match f_count f with Some k => k | None => 1 end.

(** the stride when omitted is the element width *)
Definition stride (f : field) : N :=
  match f_stride f with Some s => s | None => total (ranges f) end.

(** element [i] of a field: the declared ranges moved up by [i * stride] *)
Definition elem_ranges (f : field) (i : N) : list range := shift_ranges (i * stride f) (ranges f).

Definition spec_get (f : field) (i x : N) : N := gather (elem_ranges f i) x.
Definition spec_set (f : field) (i v x : N) : N := scatter (elem_ranges f i) 0 v x.

Definition is_native (n : N) : bool :=
  (n =? 8) || (n =? 16) || (n =? 32) || (n =? 64) || (n =? 128).

(** ** The documented layout rules (C09), independent of the macro's code *)

Definition entry_ok (e : rentry) : bool :=
  match e with RSingle _ => true | RRange lo hi => lo <=? hi end.

Definition ty_ok (t : fty) : bool :=
  match t with
  | FBool => true
  | FU n => (1 <=? n) && (n <=? 128)
  | FI n => is_native n
  | FCustom _ n _ => (1 <=? n) && (n <=? 128)
  end.

(** the attribute is well-formed: `bit(n)`, `bits(a..=b)` or `bit(s)([..])` *)
Definition attr_shape_ok (f : field) : bool :=
  if f_list f then match f_entries f with [] => false | _ => true end
  else match f_entries f, f_bits_kw f with
       | [RSingle _], false => true
       | [RRange _ _], true => true
       | _, _ => false
       end.

Definition valid_field (W : N) (f : field) : bool :=
  let rs := ranges f in
  let n := total rs in
  attr_shape_ok f
  && forallb entry_ok (f_entries f)
  && ty_ok (f_ty f)
  && (ty_width (f_ty f) =? n)
  && (match f_ty f with FBool => (List.length rs =? 1)%nat | _ => true end)
  && (match f_count f with
      | None => match f_stride f with None => true | Some _ => false end
      | Some k =>
          (2 <=? k)
          && (if f_list f
              then match f_stride f with Some _ => true | None => (List.length rs =? 1)%nat end
              else true)
          && (if (List.length rs =? 1)%nat then n <=? stride f else true)
      end)
  && ((count f - 1) * stride f + max_end rs <=? W).

Definition base_ok (W : N) : bool := (1 <=? W) && (W <=? 128).

(** the [debug] option calls every field's getter without an index (C19: "bitfields whose fields
    are all readable and not arrays; others do not compile with debug") *)
Definition debug_ok (d : decl) : bool :=
  negb (d_debug d)
  || forallb (fun f => f_get f && match f_count f with None => true | Some _ => false end) (d_fields d).

(** a declared default must be a value of the base type (for an arbitrary-int base [uN::new(default)] is evaluated
    at compile time and fails otherwise; for a native base the literal is out of range for its type) *)
Definition default_ok (d : decl) : bool :=
  match d_default d with
  | Some (DLit n) | Some (DConst _ n) => n <? 2 ^ d_W d
  | None => true
  end.

Definition valid_decl (d : decl) : bool :=
  base_ok (d_W d) && forallb (valid_field (d_W d)) (d_fields d) && debug_ok d && default_ok d.

Lemma valid_decl_parts d :
  valid_decl d = true ->
  base_ok (d_W d) = true /\ forallb (valid_field (d_W d)) (d_fields d) = true /\ debug_ok d = true /\ default_ok d = true.
Proof.
  unfold valid_decl. intros H. apply andb_prop in H. destruct H as [H H4]. apply andb_prop in H. destruct H as [H H3].
  apply andb_prop in H. destruct H as [H1 H2]. auto.
Qed.
