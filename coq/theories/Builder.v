(** * Builder.v — model of [make_builder] (bitbybit/src/bitfield/codegen.rs) and what it guarantees
      (C13, C14).

    [scan] is [ranges_have_self_overlap]'s loop (a running mask, [bits & mask != 0] means overlap);
    [field_mask] the per-field mask; [chain] the loop over the writable fields with
    [running_mask]; [builder_offered] adds the completeness test.  The masks are the const-generic
    arguments of the generated [Partial<Name><MASK>] type states.

    Main results:
    - [scan_0_iff]: the running-mask overlap test succeeds exactly when no bit is named twice
      ([NoDupBits]), whatever the order and however many ranges — by induction on the list;
    - [offered_iff_sound]: a builder is offered iff no bit is writable twice (over fields, array
      elements and ranges) and there is a default or the writable bits cover the base;
    - [typestate_unique_path]: with strictly growing masks the only call sequence from
      [builder()] that reaches a type offering [build()] is every step, in declaration order;
    - [build_reads_back], [build_keeps_default]: the built value holds every argument and the
      default's bits everywhere else (C13). *)
From BB Require Import Bits Spec History.
From Coq Require Import String.
Open Scope N_scope.

(** ** masks *)

Definition range_mask (r : range) : N := N.shiftl (N.ones (snd r)) (fst r).

Lemma range_mask_spec r k :
  N.testbit (range_mask r) k = (fst r <=? k) && (k <? fst r + snd r).
Proof.
  unfold range_mask. destruct (N.leb_spec (fst r) k); cbn [andb].
  - rewrite N.shiftl_spec_high' by lia. destruct (N.ltb_spec k (fst r + snd r)).
    + now rewrite N.ones_spec_low by lia.
    + now rewrite N.ones_spec_high by lia.
  - now rewrite N.shiftl_spec_low by lia.
Qed.

Lemma land_eq0 a b : (N.land a b =? 0) = true <-> forall k, N.testbit a k = true -> N.testbit b k = false.
Proof.
  rewrite N.eqb_eq. split.
  - intros H k Ha. assert (E : N.testbit (N.land a b) k = false) by (rewrite H; apply N.bits_0).
    rewrite N.land_spec, Ha in E. exact E.
  - intros H. apply N.bits_inj. intros k. rewrite N.land_spec, N.bits_0.
    destruct (N.testbit a k) eqn:Ea; [|reflexivity]. now rewrite (H k Ea).
Qed.

Lemma land_neq0 a b : (N.land a b =? 0) = false -> exists k, N.testbit a k = true /\ N.testbit b k = true.
Proof.
  intros H. apply N.eqb_neq in H.
  destruct (N.eq_dec (N.land a b) 0) as [E|E]; [contradiction|].
  exists (N.log2 (N.land a b)). pose proof (N.bit_log2 _ E) as B. rewrite N.land_spec in B.
  now apply andb_prop in B.
Qed.

(** [ranges_have_self_overlap]: [None] = "return true" (an overlap was found) *)
Fixpoint scan (rs : list range) (mask : N) : option N :=
  match rs with
  | [] => Some mask
  | r :: rs' =>
      if N.land (range_mask r) mask =? 0 then scan rs' (N.lor mask (range_mask r)) else None
  end.

Lemma covers_cons r rs k :
  covers (r :: rs) k = ((fst r <=? k) && (k <? fst r + snd r)) || covers rs k.
Proof. destruct r. reflexivity. Qed.

Lemma scan_Some rs : forall mask m,
  scan rs mask = Some m ->
  NoDupBits rs /\ (forall k, covers rs k = true -> N.testbit mask k = false)
  /\ (forall k, N.testbit m k = N.testbit mask k || covers rs k).
Proof.
  induction rs as [|r rs IH]; cbn [scan]; intros mask m H.
  - injection H as <-. split; [exact I|]. split; [discriminate|]. intros k. cbn. now rewrite orb_false_r.
  - destruct (N.land (range_mask r) mask =? 0) eqn:E; [|discriminate].
    rewrite land_eq0 in E. destruct (IH _ _ H) as (ND & Hd & Hm).
    assert (Hr : forall k, fst r <= k < fst r + snd r -> covers rs k = false).
    { intros k Hk. destruct (covers rs k) eqn:C; [|reflexivity]. specialize (Hd k C).
      rewrite N.lor_spec, range_mask_spec in Hd. apply orb_false_elim in Hd. lia. }
    split; [|split].
    + destruct r as [lo n]. cbn [NoDupBits]. split; [exact Hr|exact ND].
    + intros k. rewrite covers_cons. intros C. apply orb_prop in C. destruct C as [C|C].
      * apply E. now rewrite range_mask_spec.
      * specialize (Hd k C). rewrite N.lor_spec in Hd. now apply orb_false_elim in Hd.
    + intros k. rewrite Hm, N.lor_spec, range_mask_spec, covers_cons. now rewrite orb_assoc.
Qed.

Lemma scan_None rs : forall mask,
  scan rs mask = None ->
  ~ (NoDupBits rs /\ (forall k, covers rs k = true -> N.testbit mask k = false)).
Proof.
  induction rs as [|r rs IH]; cbn [scan]; intros mask H [ND Hd]; [discriminate|].
  destruct r as [lo n]. cbn [NoDupBits] in ND. destruct ND as [Hr ND].
  destruct (N.land (range_mask (lo, n)) mask =? 0) eqn:E.
  - apply (IH _ H). split; [exact ND|]. intros k C. rewrite N.lor_spec, range_mask_spec. cbn [fst snd].
    apply orb_false_intro.
    + apply Hd. rewrite covers_cons. now rewrite C, orb_true_r.
    + destruct (N.leb_spec lo k); destruct (N.ltb_spec k (lo + n)); try reflexivity.
      rewrite Hr in C by lia. discriminate.
  - destruct (land_neq0 _ _ E) as (k & K1 & K2). rewrite range_mask_spec in K1. cbn [fst snd] in K1.
    rewrite Hd in K2; [discriminate|]. rewrite covers_cons. cbn [fst snd]. now rewrite K1.
Qed.

(** the running-mask test is exactly "no bit is named twice" *)
Theorem scan_0_iff rs : (exists m, scan rs 0 = Some m) <-> NoDupBits rs.
Proof.
  split.
  - intros (m & H). now destruct (scan_Some _ _ _ H).
  - intros ND. destruct (scan rs 0) as [m|] eqn:E; [eauto|].
    exfalso. apply (scan_None _ _ E). split; [exact ND|]. intros k _. apply N.bits_0.
Qed.

Lemma scan_app a : forall b mask,
  scan (a ++ b) mask = match scan a mask with Some m => scan b m | None => None end.
Proof.
  induction a as [|r a IH]; cbn [scan app]; intros b mask; [reflexivity|].
  destruct (N.land (range_mask r) mask =? 0); [apply IH|reflexivity].
Qed.

Lemma NoDupBits_app a b :
  NoDupBits (a ++ b) <-> NoDupBits a /\ NoDupBits b /\ (forall k, covers a k = true -> covers b k = false).
Proof.
  induction a as [|[lo n] a IH]; cbn [app NoDupBits].
  - split; [intros H; split; [exact I|split; [exact H|discriminate]]|tauto].
  - rewrite IH. split.
    + intros (Hr & Na & Nb & Hab). split; [split; [|exact Na]|split; [exact Nb|]].
      * intros k Hk. specialize (Hr k Hk). unfold covers in *. rewrite existsb_app in Hr.
        now apply orb_false_elim in Hr.
      * intros k C. rewrite covers_cons in C. cbn [fst snd] in C. apply orb_prop in C. destruct C as [C|C].
        -- assert (Hk : lo <= k < lo + n) by lia. specialize (Hr k Hk). unfold covers in *.
           rewrite existsb_app in Hr. now apply orb_false_elim in Hr.
        -- now apply Hab.
    + intros ((Hr & Na) & Nb & Hab). split; [|split; [exact Na|split; [exact Nb|]]].
      * intros k Hk. unfold covers. rewrite existsb_app. apply orb_false_intro; [now apply Hr|].
        apply Hab. rewrite covers_cons. cbn [fst snd]. apply orb_true_intro. left. lia.
      * intros k C. apply Hab. rewrite covers_cons. now rewrite C, orb_true_r.
Qed.

(** ** the macro's decision *)

(** all elements of a field, in the order the macro visits them: index by index *)
Definition field_elems (f : field) : list range :=
  flat_map (fun i => elem_ranges f (N.of_nat i)) (seq 0 (N.to_nat (count f))).

(** [None]: the field overlaps itself (between ranges of its list or between array elements) *)
Definition field_mask (f : field) : option N := scan (field_elems f) 0.

Record bstep := mkBStep { bs_field : field; bs_in : N; bs_out : N }.

Fixpoint chain (fs : list field) (running : N) : option (list bstep) :=
  match fs with
  | [] => Some []
  | f :: fs' =>
      if f_set f then
        match field_mask f with
        | None => None
        | Some fm =>
            if N.land running fm =? 0
            then option_map (cons (mkBStep f running (N.lor running fm))) (chain fs' (N.lor running fm))
            else None
        end
      else chain fs' running
  end.

Definition final_mask (steps : list bstep) : N := fold_left (fun _ s => bs_out s) steps 0.

Definition has_default (d : decl) : bool := match d_default d with Some _ => true | None => false end.

(** [running_mask.count_ones() == exposed], for a mask below [2^W] *)
Definition complete (W m : N) : bool := m =? N.ones W.

Definition builder_offered (d : decl) : option (list bstep) :=
  match chain (d_fields d) 0 with
  | Some steps => if has_default d || complete (d_W d) (final_mask steps) then Some steps else None
  | None => None
  end.

(** every bit any writable field can write, over all fields, elements and ranges *)
Definition writable_ranges (fs : list field) : list range :=
  flat_map field_elems (filter f_set fs).

Lemma chain_scan fs : forall running,
  match chain fs running, scan (writable_ranges fs) running with
  | Some steps, Some m => fold_left (fun _ s => bs_out s) steps running = m
  | None, None => True
  | _, _ => False
  end.
Proof.
  unfold writable_ranges.
  induction fs as [|f fs IH]; cbn [chain filter flat_map scan fold_left]; intros running; [reflexivity|].
  destruct (f_set f); [|apply IH]. cbn [flat_map]. rewrite scan_app. unfold field_mask.
  destruct (scan (field_elems f) 0) as [fm|] eqn:E0.
  - destruct (scan_Some _ _ _ E0) as (ND & _ & Hfm).
    destruct (N.land running fm =? 0) eqn:El.
    + (* the element scan also succeeds from [running], with mask [running | fm] *)
      assert (Es : scan (field_elems f) running = Some (N.lor running fm)).
      { destruct (scan (field_elems f) running) as [m|] eqn:E1.
        - f_equal. destruct (scan_Some _ _ _ E1) as (_ & _ & Hm). apply N.bits_inj. intros k.
          rewrite Hm, N.lor_spec, Hfm, N.bits_0. reflexivity.
        - exfalso. apply (scan_None _ _ E1). split; [exact ND|]. intros k C.
          rewrite land_eq0 in El. destruct (N.testbit running k) eqn:R; [|reflexivity].
          specialize (El k R). rewrite Hfm, C, N.bits_0 in El. discriminate. }
      rewrite Es. specialize (IH (N.lor running fm)).
      destruct (chain fs (N.lor running fm)) as [steps|]; cbn [option_map fold_left bs_out]; exact IH.
    + destruct (scan (field_elems f) running) as [m|] eqn:E1; [|exact I].
      destruct (scan_Some _ _ _ E1) as (_ & Hd & _).
      destruct (land_neq0 _ _ El) as (k & K1 & K2). rewrite Hfm, N.bits_0 in K2. cbn [orb] in K2.
      rewrite (Hd k K2) in K1. discriminate.
  - destruct (scan (field_elems f) running) as [m|] eqn:E1; [|exact I].
    destruct (scan_Some _ _ _ E1) as (ND & _ & _).
    exfalso. apply (scan_None _ _ E0). split; [exact ND|]. intros k _. apply N.bits_0.
Qed.

Definition no_bit_writable_twice (d : decl) : Prop := NoDupBits (writable_ranges (d_fields d)).

(** the bits some writable field covers *)
Definition writable_cover (d : decl) (k : N) : bool := covers (writable_ranges (d_fields d)) k.

Lemma chain_Some_iff d :
  (exists steps, chain (d_fields d) 0 = Some steps) <-> no_bit_writable_twice d.
Proof.
  unfold no_bit_writable_twice. rewrite <- scan_0_iff.
  pose proof (chain_scan (d_fields d) 0) as H.
  destruct (chain (d_fields d) 0) as [steps|]; destruct (scan _ 0) as [m|]; try contradiction.
  - split; eauto.
  - split; intros (x & Hx); discriminate.
Qed.

Lemma final_mask_cover d steps :
  chain (d_fields d) 0 = Some steps ->
  forall k, N.testbit (final_mask steps) k = writable_cover d k.
Proof.
  intros Hc k. pose proof (chain_scan (d_fields d) 0) as H. rewrite Hc in H.
  destruct (scan (writable_ranges (d_fields d)) 0) as [m|] eqn:E; [|contradiction].
  unfold final_mask. rewrite H. destruct (scan_Some _ _ _ E) as (_ & _ & Hm).
  rewrite Hm, N.bits_0. reflexivity.
Qed.

(** C14, first half: builder() is offered exactly when no bit is writable through more than one
    field, array element or range, and either a default is declared or the writable fields
    cover every bit of the base. *)
Theorem offered_iff_sound d :
  (forall k, writable_cover d k = true -> k < d_W d) ->      (* every field lies inside the base (C09) *)
  ((exists steps, builder_offered d = Some steps) <->
   no_bit_writable_twice d /\
   (has_default d = true \/ forall k, k < d_W d -> writable_cover d k = true)).
Proof.
  intros Hin. unfold builder_offered. split.
  - intros (steps & H). destruct (chain (d_fields d) 0) as [st|] eqn:Ec; [|discriminate].
    split; [apply chain_Some_iff; eauto|].
    destruct (has_default d); [now left|]. right. cbn [orb] in H.
    unfold complete in H. destruct (N.eqb_spec (final_mask st) (N.ones (d_W d))) as [Ef|]; [|discriminate].
    intros k Hk. rewrite <- (final_mask_cover d st Ec), Ef. now apply N.ones_spec_low.
  - intros (ND & Hc). apply chain_Some_iff in ND. destruct ND as (steps & Ec). rewrite Ec.
    destruct Hc as [->|Hc]; [cbn [orb]; eauto|].
    assert (Ef : final_mask steps = N.ones (d_W d)).
    { apply N.bits_inj. intros k. rewrite (final_mask_cover d steps Ec).
      destruct (N.lt_ge_cases k (d_W d)) as [Hk|Hk].
      - rewrite N.ones_spec_low by exact Hk. now apply Hc.
      - rewrite N.ones_spec_high by exact Hk. destruct (writable_cover d k) eqn:C; [|reflexivity].
        specialize (Hin k C). lia. }
    unfold complete. rewrite Ef, N.eqb_refl, orb_true_r. eauto.
Qed.

(** ** type states *)

(** each step's output mask is its input mask plus a non-empty set of fresh bits *)
Definition grows (s : bstep) : Prop :=
  exists k, N.testbit (bs_out s) k = true /\ N.testbit (bs_in s) k = false.

Definition linked (steps : list bstep) (m0 : N) : Prop :=
  forall pre s post, steps = (pre ++ s :: post)%list -> bs_in s = fold_left (fun _ t => bs_out t) pre m0.

Lemma chain_linked fs : forall running steps,
  chain fs running = Some steps ->
  forall pre s post, steps = (pre ++ s :: post)%list ->
  bs_in s = fold_left (fun _ t => bs_out t) pre running
  /\ (forall k, N.testbit (bs_in s) k = true -> N.testbit (bs_out s) k = true)
  /\ (forall k, N.testbit running k = true -> N.testbit (bs_in s) k = true).
Proof.
  induction fs as [|f fs IH]; cbn [chain]; intros running steps H pre s post E.
  - injection H as <-. destruct pre; discriminate.
  - destruct (f_set f); [|now apply (IH _ _ H pre s post)].
    destruct (field_mask f) as [fm|]; [|discriminate].
    destruct (N.land running fm =? 0); [|discriminate].
    destruct (chain fs (N.lor running fm)) as [st|] eqn:Ec; [|discriminate].
    cbn [option_map] in H. injection H as <-.
    destruct pre as [|p pre]; cbn [app] in E; injection E as Es Et.
    + subst s. cbn [bs_in bs_out fold_left]. split; [reflexivity|]. split; [|tauto].
      intros k Hk. rewrite N.lor_spec, Hk. reflexivity.
    + subst p. destruct (IH _ _ Ec pre s post Et) as (H1 & H2 & H3). cbn [fold_left bs_out].
      split; [exact H1|]. split; [exact H2|]. intros k Hk. apply H3. rewrite N.lor_spec, Hk. reflexivity.
Qed.

(** the methods the generated impl blocks offer on [Partial<m>]: the steps whose input mask is
    [m], and [build] when [m] is the final mask *)
Inductive bcall := CallWith (name : string) | CallBuild.   (* name of the field being supplied *)

Fixpoint step_from (steps : list bstep) (m : N) (f : string) : option N :=
  match steps with
  | [] => None
  | s :: steps' =>
      if (bs_in s =? m) && String.eqb (f_name (bs_field s)) f then Some (bs_out s)
      else step_from steps' m f
  end.

(** does the call sequence type-check starting from [Partial<m>], ending in a bitfield? *)
Fixpoint typechecks (steps : list bstep) (fin : N) (m : N) (calls : list bcall) : bool :=
  match calls with
  | [] => false
  | [CallBuild] => m =? fin
  | CallBuild :: _ => false
  | CallWith f :: calls' =>
      match step_from steps m f with
      | Some m' => typechecks steps fin m' calls'
      | None => false
      end
  end.

(** strictly growing masks: mask after [j] steps differs from the mask after [k] steps *)
Definition masks_of (steps : list bstep) (m0 : N) : list N :=
  m0 :: map bs_out steps.

Lemma chain_masks_strict fs : forall running steps,
  chain fs running = Some steps ->
  Forall (fun f => f_set f = true -> forall fm, field_mask f = Some fm -> fm <> 0) fs ->
  Forall (fun s => bs_in s <> bs_out s /\ N.land (bs_in s) (bs_out s) = bs_in s) steps.
Proof.
  induction fs as [|f fs IH]; cbn [chain]; intros running steps H HF.
  - injection H as <-. constructor.
  - inversion HF as [|f' fs' Hf HFs]; subst.
    destruct (f_set f) eqn:Ew; [|now apply (IH _ _ H)].
    destruct (field_mask f) as [fm|] eqn:Em; [|discriminate].
    destruct (N.land running fm =? 0) eqn:El; [|discriminate].
    destruct (chain fs (N.lor running fm)) as [st|] eqn:Ec; [|discriminate].
    cbn [option_map] in H. injection H as <-. constructor; [|now apply (IH _ _ Ec)].
    cbn [bs_in bs_out]. specialize (Hf eq_refl fm eq_refl). split.
    + intros E. apply Hf. apply N.bits_inj. intros k. rewrite N.bits_0.
      destruct (N.testbit fm k) eqn:B; [|reflexivity]. exfalso.
      rewrite land_eq0 in El. assert (R : N.testbit running k = false).
      { destruct (N.testbit running k) eqn:R; [|reflexivity]. rewrite (El k R) in B. discriminate. }
      assert (R' : N.testbit (N.lor running fm) k = true) by (rewrite N.lor_spec, B; apply orb_true_r).
      rewrite <- E in R'. congruence.
    + apply N.bits_inj. intros k. rewrite N.land_spec, N.lor_spec.
      destruct (N.testbit running k); reflexivity.
Qed.

(** the call sequence the builder is designed for: every writable field in declaration order,
    then build() *)
Definition full_calls (steps : list bstep) : list bcall :=
  (map (fun s => CallWith (f_name (bs_field s))) steps ++ [CallBuild])%list.

Lemma step_from_self_first s steps m :
  bs_in s = m -> step_from (s :: steps) m (f_name (bs_field s)) = Some (bs_out s).
Proof. intros <-. cbn [step_from]. now rewrite N.eqb_refl, String.eqb_refl. Qed.

(** Masks along a chain are "increasing sets": [sub a b] iff every bit of [a] is in [b]. *)
Definition sub (a b : N) : Prop := N.land a b = a.

Lemma sub_refl a : sub a a. Proof. unfold sub. apply N.land_diag. Qed.
Lemma sub_trans a b c : sub a b -> sub b c -> sub a c.
Proof.
  unfold sub. intros H1 H2. apply N.bits_inj. intros k. rewrite N.land_spec.
  destruct (N.testbit a k) eqn:A; [|reflexivity]. cbn.
  assert (B : N.testbit b k = true).
  { rewrite <- H1, N.land_spec in A. now apply andb_prop in A. }
  rewrite <- H2, N.land_spec in B. now apply andb_prop in B.
Qed.
Lemma sub_antisym a b : sub a b -> sub b a -> a = b.
Proof. unfold sub. intros H1 H2. rewrite <- H1. rewrite N.land_comm. exact H2. Qed.

(** a well-formed chain: consecutive, each step strictly grows *)
Fixpoint wf_chain (steps : list bstep) (m : N) : Prop :=
  match steps with
  | [] => True
  | s :: steps' => bs_in s = m /\ sub (bs_in s) (bs_out s) /\ bs_in s <> bs_out s /\ wf_chain steps' (bs_out s)
  end.

Lemma wf_chain_later_in steps : forall m, wf_chain steps m ->
  forall s, In s steps -> sub m (bs_in s).
Proof.
  induction steps as [|s0 steps IH]; cbn [wf_chain]; intros m H s Hin; [destruct Hin|].
  destruct H as (Hi & Hs & _ & Hw). destruct Hin as [<-|Hin].
  - rewrite Hi. apply sub_refl.
  - eapply sub_trans; [|apply (IH _ Hw s Hin)]. now rewrite <- Hi.
Qed.

Lemma wf_chain_final_sub steps : forall m, wf_chain steps m ->
  sub m (fold_left (fun _ s => bs_out s) steps m).
Proof.
  induction steps as [|s steps IH]; cbn [wf_chain fold_left]; intros m H; [apply sub_refl|].
  destruct H as (Hi & Hs & _ & Hw). eapply sub_trans; [|apply (IH _ Hw)]. now rewrite <- Hi.
Qed.

(** in a well-formed chain no later step starts at the current mask *)
Lemma wf_chain_no_later steps : forall s0, wf_chain (s0 :: steps) (bs_in s0) ->
  forall s, In s steps -> bs_in s <> bs_in s0.
Proof.
  intros s0 H s Hin E. cbn [wf_chain] in H. destruct H as (_ & Hs & Hne & Hw).
  pose proof (wf_chain_later_in _ _ Hw s Hin) as H1. rewrite E in H1.
  apply Hne. now apply sub_antisym.
Qed.

Lemma step_from_skip steps m f :
  (forall s, In s steps -> bs_in s <> m) -> step_from steps m f = None.
Proof.
  induction steps as [|s steps IH]; cbn [step_from]; intros H; [reflexivity|].
  destruct (N.eqb_spec (bs_in s) m) as [E|_]; [exfalso; apply (H s); [now left|exact E]|].
  cbn [andb]. apply IH. intros s' Hs'. apply H. now right.
Qed.

Lemma step_from_In steps m f m' :
  step_from steps m f = Some m' -> exists t, In t steps /\ bs_in t = m /\ bs_out t = m'.
Proof.
  induction steps as [|s steps IH]; cbn [step_from]; [discriminate|].
  destruct (N.eqb_spec (bs_in s) m) as [E|_]; cbn [andb].
  - destruct (String.eqb _ f).
    + intros [= <-]. exists s. split; [now left|auto].
    + intros H. destruct (IH H) as (t & Ht & H1 & H2). exists t. split; [now right|auto].
  - intros H. destruct (IH H) as (t & Ht & H1 & H2). exists t. split; [now right|auto].
Qed.

Lemma wf_chain_subs steps : forall m, wf_chain steps m -> forall t, In t steps -> sub (bs_in t) (bs_out t).
Proof.
  induction steps as [|s steps IH]; cbn [wf_chain]; intros m H t Hin; [destruct Hin|].
  destruct H as (_ & Hs & _ & Hw). destruct Hin as [<-|Hin]; [exact Hs|now apply (IH _ Hw)].
Qed.

(** a step that has been taken is never offered again: every later type state is a superset of
    its output mask, hence different from its input mask *)
Lemma typechecks_drop s steps fin : forall calls m,
  sub (bs_out s) m -> sub (bs_in s) (bs_out s) -> bs_in s <> bs_out s ->
  (forall t, In t steps -> sub (bs_in t) (bs_out t)) ->
  typechecks (s :: steps) fin m calls = typechecks steps fin m calls.
Proof.
  induction calls as [|c calls IH]; intros m Hm Hs Hne Hall; [reflexivity|].
  destruct c as [f|]; cbn [typechecks]; [|reflexivity].
  assert (E : step_from (s :: steps) m f = step_from steps m f).
  { cbn [step_from]. destruct (N.eqb_spec (bs_in s) m) as [E|_]; [|reflexivity].
    exfalso. apply Hne. apply sub_antisym; [exact Hs|]. now rewrite E. }
  rewrite E. destruct (step_from steps m f) as [m'|] eqn:Sf; [|reflexivity].
  apply IH; try assumption.
  destruct (step_from_In _ _ _ _ Sf) as (t & Ht & H1 & H2). subst m m'.
  eapply sub_trans; [exact Hm|]. now apply Hall.
Qed.

(** C14, second half.  With the chain the macro builds, a call sequence from [builder()]
    type-checks exactly when it supplies every writable field, in declaration order, and then
    calls [build()] — so forgetting (or repeating, or reordering) a field is a compile error. *)
Theorem typestate_unique_path steps : forall m calls,
  wf_chain steps m ->
  typechecks steps (fold_left (fun _ s => bs_out s) steps m) m calls = true ->
  calls = full_calls steps.
Proof.
  induction steps as [|s steps IH]; intros m calls W T.
  - cbn [fold_left] in T. destruct calls as [|[f|] calls]; cbn [typechecks step_from] in T; try discriminate.
    destruct calls; [reflexivity|discriminate].
  - pose proof (wf_chain_subs _ _ W) as Hall.
    cbn [wf_chain] in W. destruct W as (Hi & Hs & Hne & Hw). cbn [fold_left] in T.
    destruct calls as [|[f|] calls]; cbn [typechecks] in T; [discriminate| |].
    + cbn [step_from] in T. rewrite Hi, N.eqb_refl in T. cbn [andb] in T.
      destruct (String.eqb (f_name (bs_field s)) f) eqn:En.
      * unfold full_calls. cbn [map app]. f_equal.
        -- apply String.eqb_eq in En. now subst f.
        -- rewrite typechecks_drop in T; [apply (IH (bs_out s) calls Hw T)|apply sub_refl|exact Hs|exact Hne|].
           intros t Ht. apply Hall. now right.
      * rewrite step_from_skip in T; [discriminate|].
        intros s' Hs'. rewrite <- Hi.
        apply (wf_chain_no_later steps s); [|exact Hs']. cbn [wf_chain]. tauto.
    + (* build() before the end: the final mask is strictly larger than [m] *)
      destruct calls; [|discriminate].
      apply N.eqb_eq in T. exfalso. apply Hne.
      pose proof (wf_chain_final_sub _ _ Hw) as Hf. rewrite <- T, <- Hi in Hf.
      now apply sub_antisym.
Qed.

(** and conversely the designed sequence does type-check *)
Theorem typestate_full_path_ok steps : forall m,
  wf_chain steps m ->
  typechecks steps (fold_left (fun _ s => bs_out s) steps m) m (full_calls steps) = true.
Proof.
  induction steps as [|s steps IH]; intros m W.
  - cbn. apply N.eqb_refl.
  - pose proof (wf_chain_subs _ _ W) as Hall.
    cbn [wf_chain] in W. destruct W as (Hi & Hs & Hne & Hw).
    unfold full_calls. cbn [map app fold_left typechecks].
    rewrite (step_from_self_first s steps m Hi).
    fold (full_calls steps). rewrite typechecks_drop; [now apply IH|apply sub_refl|exact Hs|exact Hne|].
    intros t Ht. apply Hall. now right.
Qed.

(** the chain the macro computes is well-formed as soon as every writable field has a bit *)
Lemma chain_wf fs : forall running steps,
  chain fs running = Some steps ->
  Forall (fun f => f_set f = true -> forall fm, field_mask f = Some fm -> fm <> 0) fs ->
  wf_chain steps running.
Proof.
  induction fs as [|f fs IH]; cbn [chain]; intros running steps H HF.
  - injection H as <-. exact I.
  - inversion HF as [|f' fs' Hf HFs]; subst.
    destruct (f_set f) eqn:Ew; [|now apply (IH _ _ H)].
    destruct (field_mask f) as [fm|] eqn:Em; [|discriminate].
    destruct (N.land running fm =? 0) eqn:El; [|discriminate].
    destruct (chain fs (N.lor running fm)) as [st|] eqn:Ec; [|discriminate].
    cbn [option_map] in H. injection H as <-. cbn [wf_chain bs_in bs_out].
    specialize (Hf eq_refl fm eq_refl).
    split; [reflexivity|]. split; [|split; [|now apply (IH _ _ Ec)]].
    + unfold sub. apply N.bits_inj. intros k. rewrite N.land_spec, N.lor_spec.
      destruct (N.testbit running k); reflexivity.
    + intros E. apply Hf. apply N.bits_inj. intros k. rewrite N.bits_0.
      destruct (N.testbit fm k) eqn:B; [|reflexivity]. exfalso.
      rewrite land_eq0 in El. assert (R : N.testbit running k = false).
      { destruct (N.testbit running k) eqn:R; [|reflexivity]. rewrite (El k R) in B. discriminate. }
      assert (R' : N.testbit (N.lor running fm) k = true) by (rewrite N.lor_spec, B; apply orb_true_r).
      rewrite <- E in R'. congruence.
Qed.

(** a field with at least one bit has a non-empty mask *)
Lemma field_mask_nonzero f fm :
  field_mask f = Some fm -> (exists k, covers (field_elems f) k = true) -> fm <> 0.
Proof.
  unfold field_mask. intros H (k & C) E. destruct (scan_Some _ _ _ H) as (_ & _ & Hm).
  specialize (Hm k). rewrite E, C, !N.bits_0 in Hm. discriminate.
Qed.

(** ** C13: what the built value holds *)

(** the writes a complete builder chain performs: every element of every writable field once *)
Definition pairwise_later_disjoint (o : wop) (after : list wop) : Prop :=
  forall o', In o' after -> forall k, op_covers o k = true -> op_covers o' k = false.

Lemma run_app a b x : run (a ++ b) x = run b (run a x).
Proof. unfold run. apply fold_left_app. Qed.

Lemma run_frame ops x k :
  (forall o, In o ops -> op_covers o k = false) -> N.testbit (run ops x) k = N.testbit x k.
Proof.
  intros H. rewrite last_write_wins. apply last_write_None in H. now rewrite H.
Qed.

(** every argument reads back: a write that no later write overlaps is what the getter returns *)
Theorem build_reads_back before o after x :
  pairwise_later_disjoint o after ->
  NoDupBits (elem_ranges (w_f o) (w_i o)) -> w_v o < 2 ^ total (elem_ranges (w_f o) (w_i o)) ->
  spec_get (w_f o) (w_i o) (run (before ++ o :: after) x) = w_v o.
Proof.
  intros Hd ND Hv. rewrite run_app. set (y := run before x).
  change (run (o :: after) y) with (run after (apply y o)).
  unfold spec_get. rewrite (gather_ext _ _ (apply y o)).
  - unfold apply, spec_set. now apply gather_scatter.
  - intros k C. apply run_frame. intros o' Ho'. now apply (Hd o' Ho').
Qed.

(** bits covered by no writable field keep the default's value *)
Theorem build_keeps_default ops x k :
  (forall o, In o ops -> op_covers o k = false) -> N.testbit (run ops x) k = N.testbit x k.
Proof. apply run_frame. Qed.

Print Assumptions offered_iff_sound.
Print Assumptions typestate_unique_path.
Print Assumptions build_reads_back.
