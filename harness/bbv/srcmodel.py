"""A slice of the macro's own decision code, translated from /repo's SOURCE into Gallina on every run.

The small pure functions that choose storage classes and interpret `exhaustive` are read from
bitbybit/src with xlate (syn), translated into Coq definitions (`src_*`), and proved equal — by kernel
computation over their whole finite domain — to the corresponding functions of the hand-written model
(`storage`, `is_native`, `storage_enum`, `is_arb_enum`, `exh_matches`, `is_conditional`, the arbitrary-int
width test).  A change to one of them that no corpus declaration happens to exercise (a boundary at 63/64 or
127/128, say) breaks the equality for that value.

The translator understands only what these functions use: integer literals and named constants, comparisons,
boolean operators, if/else chains, let, assert!, match on an integer with literal / range / wildcard patterns,
`[..].contains(&x)`, `(a..b).contains(&x)`, `matches!`, `Ok/Some/Err/None/return`, struct literals.  Anything
else makes the translation fail, which is reported (the correspondence no longer checks)."""
import json, os, re

class Untranslatable(Exception):
    pass


def find_fn(items, name, impl=None):
    for it in items:
        if impl is None and it['kind'] == 'fn' and it['name'] == name:
            return it
        if impl is not None and it['kind'] == 'impl' and it['self_ty'] == impl:
            for f in it['items']:
                if f['kind'] == 'fn' and f['name'] == name:
                    return f
    raise Untranslatable('function %s%s not found' % ((impl + '::') if impl else '', name))


def param_names(f):
    return [p['name'] for p in f['params'] if 'name' in p]


def consts_of(items):
    out = {}
    for it in items:
        if it['kind'] == 'other':
            m = re.search(r'\bconst\s+(\w+)\s*:\s*\w+\s*=\s*(\d+)\s*;\s*$', it['tokens'].strip())
            if m:
                out[m.group(1)] = int(m.group(2))
    return out


class Tr:
    """expression translator; `env` maps Rust names to Coq terms; results are plain Coq strings"""

    def __init__(self, env, consts, calls, field_of_self):
        self.env = dict(env)
        self.consts = consts
        self.calls = calls                  # rust fn name -> coq function name (applied to translated args)
        self.self_fields = field_of_self    # member -> coq term

    def pat(self, p, x):
        """boolean Coq term: does integer x match pattern p"""
        if p['p'] == 'wild':
            return 'true'
        if p['p'] == 'lit' and p['e'].get('kind') == 'int':
            return '(%s =? %s)' % (x, p['e']['value'])
        if p['p'] == 'range':
            return self.range_test(p['tokens'], x)
        if p['p'] == 'or':
            return '(%s)' % ' || '.join(self.pat(c, x) for c in p['cases'])
        if p['p'] == 'path' and len(p['segs']) == 2 and p['segs'][0] == 'Exhaustiveness' and \
                p['segs'][1] in ('True', 'False', 'Conditional'):
            return '(match %s with Ex%s => true | _ => false end)' % (x, p['segs'][1])
        if p['p'] == 'lit' and p['e'].get('kind') == 'bool':
            return '(Bool.eqb %s %s)' % (x, 'true' if p['e']['value'] else 'false')
        raise Untranslatable('pattern ' + json.dumps(p)[:80])

    def bound(self, t):
        if re.fullmatch(r'\d+', t):
            return t
        if t in self.env:
            return self.env[t]
        if t in self.consts:
            return str(self.consts[t])
        raise Untranslatable('range bound ' + t)

    def range_test(self, tokens, x):
        t = tokens.replace(' ', '')
        if t.startswith('(') and t.endswith(')'):
            t = t[1:-1]
        m = re.fullmatch(r'(\w+)\.\.=(\w+)', t)
        if m:
            return '((%s <=? %s) && (%s <=? %s))' % (self.bound(m.group(1)), x, x, self.bound(m.group(2)))
        m = re.fullmatch(r'(\w+)\.\.(\w+)', t)
        if m:
            return '((%s <=? %s) && (%s <? %s))' % (self.bound(m.group(1)), x, x, self.bound(m.group(2)))
        m = re.fullmatch(r'(\w+)\.\.', t)
        if m:
            return '(%s <=? %s)' % (self.bound(m.group(1)), x)
        m = re.fullmatch(r'\.\.=(\w+)', t)
        if m:
            return '(%s <=? %s)' % (x, self.bound(m.group(1)))
        m = re.fullmatch(r'\.\.(\w+)', t)
        if m:
            return '(%s <? %s)' % (x, self.bound(m.group(1)))
        raise Untranslatable('range ' + tokens)

    def expr(self, e):
        k = e.get('e')
        if k == 'lit':
            if e['kind'] == 'int':
                return e['value']
            if e['kind'] == 'bool':
                return 'true' if e['value'] else 'false'
            if e['kind'] == 'str':
                m = re.fullmatch(r'u(\d+)', e['value'])
                if m:
                    return m.group(1)          # the name of an unsigned type stands for its width
            raise Untranslatable('literal ' + json.dumps(e)[:60])
        if k == 'path':
            if len(e['segs']) == 1:
                n = e['segs'][0]
                if n in self.env:
                    return self.env[n]
                if n in self.consts:
                    return str(self.consts[n])
                if n == 'None':
                    return 'None'
            if len(e['segs']) == 2 and e['segs'][0] == 'Exhaustiveness':
                return {'True': 'ExTrue', 'False': 'ExFalse', 'Conditional': 'ExConditional'}[e['segs'][1]]
            raise Untranslatable('path ' + '::'.join(e['segs']))
        if k == 'field' and e['x'].get('e') == 'path' and e['x']['segs'] == ['self'] and e['member'] in self.self_fields:
            return self.self_fields[e['member']]
        if k == 'un' and e['op'] == '!':
            return '(negb %s)' % self.expr(e['x'])
        if k == 'bin':
            a, b = self.expr(e['l']), self.expr(e['r'])
            op = {'==': '=?', '<=': '<=?', '<': '<?', '||': '||', '&&': '&&', '+': '+', '-': '-', '*': '*'}.get(e['op'])
            if op:
                return '(%s %s %s)' % (a, op, b)
            if e['op'] == '>':
                return '(%s <? %s)' % (b, a)
            if e['op'] == '>=':
                return '(%s <=? %s)' % (b, a)
            if e['op'] == '!=':
                return '(negb (%s =? %s))' % (a, b)
            raise Untranslatable('operator ' + e['op'])
        if k == 'if':
            if e['f'] is None:
                raise Untranslatable('if without else')
            return '(if %s then %s else %s)' % (self.expr(e['c']), self.block(e['t']), self.expr(e['f']))
        if k == 'block':
            return self.block(e['b'])
        if k == 'match':
            x = self.expr(e['x'])
            out = None
            for arm in reversed(e['arms']):
                if arm['guard'] is not None or arm['attrs']:
                    raise Untranslatable('match arm with guard/attrs')
                body = self.expr(arm['body'])
                if out is None:
                    out = body          # the last arm: rustc has checked that the arms are exhaustive
                else:
                    out = '(if %s then %s else %s)' % (self.pat(arm['pat'], x), body, out)
            return out
        if k == 'mcall' and e['method'] == 'contains' and len(e['args']) == 1:
            a = e['args'][0]
            if a.get('e') == 'ref':
                a = a['x']
            x = self.expr(a)
            r = e['recv']
            if r.get('e') == 'array':
                return '(%s)' % ' || '.join('(%s =? %s)' % (x, self.expr(v)) for v in r['elems'])
            if r.get('e') in ('other', 'paren'):
                return self.range_test(r.get('tokens') or '', x)
            raise Untranslatable('contains on ' + json.dumps(r)[:60])
        if k == 'macro' and e['name'] == 'matches' and e.get('args') and len(e['args']) == 2:
            return self.matches(e['args'][0], e['args'][1])
        if k == 'call' and e['f'].get('e') == 'path':
            segs = e['f']['segs']
            if segs in (['Ok'], ['Some']) and len(e['args']) == 1:
                return '(Some %s)' % self.expr(e['args'][0])
            if segs == ['Err']:
                return 'None'
            if segs == ['syn', 'Ident', 'new'] and len(e['args']) == 2:
                return self.expr(e['args'][0])           # an identifier built from a type name: keep the name
            if len(segs) == 1 and segs[0] in self.calls:
                return '(%s %s)' % (self.calls[segs[0]], ' '.join(self.expr(a) for a in e['args']))
            raise Untranslatable('call ' + '::'.join(segs))
        if k == 'return':
            if e['x'] is None:
                raise Untranslatable('return;')
            return self.expr(e['x'])
        if k == 'struct':
            f = dict((x['name'], self.expr(x['e'])) for x in e['fields'])
            if set(f) == {'internal', 'exposed'}:
                return '(Some (%s, %s))' % (f['internal'], f['exposed'])
            raise Untranslatable('struct literal')
        raise Untranslatable('expression ' + json.dumps(e)[:80])

    def matches(self, scrut, pat):
        """matches!((a, b), (P1, Q1) | (P2, Q2))  /  matches!(a, P)"""
        def alts(p):
            if p.get('e') == 'bin' and p['op'] == '|':
                return alts(p['l']) + alts(p['r'])
            return [p]

        def eqs(s, p):
            if s.get('e') == 'tuple' and p.get('e') == 'tuple' and len(s['elems']) == len(p['elems']):
                return ' && '.join(eqs(a, b) for a, b in zip(s['elems'], p['elems']))
            sv, pv = self.expr(s), self.expr(p)
            if pv in ('true', 'false'):
                return '(Bool.eqb %s %s)' % (sv, pv)
            if pv in ('ExTrue', 'ExFalse', 'ExConditional'):
                return '(match %s with %s => true | _ => false end)' % (sv, pv)
            raise Untranslatable('matches! pattern')
        return '(%s)' % ' || '.join('(%s)' % eqs(scrut, p) for p in alts(pat))

    def block(self, b):
        return self.stmts(b['stmts'], 0)

    def stmts(self, st, i):
        s = st[i]
        last = i == len(st) - 1
        if s['s'] == 'let':
            if last:
                raise Untranslatable('let at the end of a block')
            init = s['init']
            if init.get('e') == 'match' and any(a['body'].get('e') == 'return' for a in init['arms']):
                # `let n = match x { p => v, _ => return R }; rest`: the continuation goes into the arms that produce a value
                x = self.expr(init['x'])
                out = None
                for arm in reversed(init['arms']):
                    if arm['guard'] is not None or arm['attrs']:
                        raise Untranslatable('match arm with guard/attrs')
                    if arm['body'].get('e') == 'return':
                        body = self.expr(arm['body'])
                    else:
                        old = self.env.get(s['name'])
                        self.env[s['name']] = s['name'] + "'"
                        try:
                            body = "(let %s' := %s in %s)" % (s['name'], self.expr(arm['body']), self.stmts(st, i + 1))
                        finally:
                            if old is None:
                                self.env.pop(s['name'], None)
                            else:
                                self.env[s['name']] = old
                    if out is None:
                        out = body      # the last arm: rustc has checked that the arms are exhaustive
                    else:
                        out = '(if %s then %s else %s)' % (self.pat(arm['pat'], x), body, out)
                return out
            try:
                v = self.expr(init)
            except Untranslatable:
                # a value the decision does not depend on (a span, an identifier object): keep going; using it later fails
                saved = self.env.pop(s['name'], None)
                try:
                    return self.stmts(st, i + 1)
                finally:
                    if saved is not None:
                        self.env[s['name']] = saved
            old = self.env.get(s['name'])
            self.env[s['name']] = s['name'] + "'"
            try:
                return "(let %s' := %s in %s)" % (s['name'], v, self.stmts(st, i + 1))
            finally:
                if old is None:
                    self.env.pop(s['name'], None)
                else:
                    self.env[s['name']] = old
        if s['s'] == 'expr':
            e = s['e']
            if e.get('e') == 'macro' and e['name'] == 'assert' and e.get('args') and len(e['args']) == 1 and not last:
                return '(if %s then %s else None)' % (self.expr(e['args'][0]), self.stmts(st, i + 1))
            if e.get('e') == 'if' and e['f'] is None and not last:
                # `if c { return X; }` followed by the rest
                t = e['t']['stmts']
                if len(t) == 1 and t[0]['s'] == 'expr' and t[0]['e'].get('e') == 'return':
                    return '(if %s then %s else %s)' % (self.expr(e['c']), self.expr(t[0]['e']), self.stmts(st, i + 1))
            if last:
                return self.expr(e)
        raise Untranslatable('statement ' + json.dumps(s)[:80])


def find_node(node, pred):
    if isinstance(node, dict):
        if pred(node):
            return node
        for v in node.values():
            r = find_node(v, pred)
            if r is not None:
                return r
    elif isinstance(node, list):
        for v in node:
            r = find_node(v, pred)
            if r is not None:
                return r
    return None


HEADER = """From Coq Require Import NArith List Bool String Lia.
From BB Require Import Bits Expr Spec Enum SrcSlice.
Import ListNotations.
Open Scope N_scope.
Set Printing Width 100000.
Set Printing Depth 1000000.
"""

# which properties lean on which function (the failing obligation is reported under these)
PROPS = {
    'src:is_int_size_regular_type': ['C09', 'C01'],
    'src:try_parse_arbitrary_int_type': ['C09', 'C01'],
    'src:BaseDataSize::new': ['C06', 'C11', 'C09'],
    'src:Bits::base_type': ['C07', 'C10'],
    'src:Bits::is_arbitrary_int': ['C07'],
    'src:Exhaustive::matches': ['C10', 'C07'],
    'src:ArgumentParser::take_*': ['C09'],
    'src:parse_field checks': ['C09', 'C03'],
    'src:bitenum count checks': ['C10'],
    'src:finished_argument': ['C09', 'C17'],
}

N_UNIT = """
Definition model_side (n : N) : %(ty)s := %(model)s.
(* the arguments the macro can pass to this function *)
Definition in_dom (n : N) : bool := %(dom)s.
Definition src_side (n : N) : %(ty)s := if in_dom n then %(fn)s n else model_side n.
Definition first_diff := Eval vm_compute in slice_first_diff %(beq)s src_side model_side.
Print first_diff.
Lemma src_agrees_everywhere : forall n : N, src_side n = model_side n.
Proof.
  intros n. destruct (N.ltb_spec n slice_bound) as [H|H].
  - revert n H. apply (slice_below %(beq)s); [exact %(beq_ok)s | vm_compute; reflexivity].
  - unfold src_side, in_dom, model_side, %(unfolds)s. big_arg n.
Qed.
Theorem src_agrees : forall n : N, in_dom n = true -> %(fn)s n = model_side n.
Proof. intros n H. generalize (src_agrees_everywhere n). unfold src_side. rewrite H. trivial. Qed.
Print Assumptions src_agrees.
"""


def n_unit(defs, fn, ty, beq, beq_ok, model, unfolds, dom='true'):
    """a Coq file: the translated definition(s), the first difference (printed), and the for-all-n theorem"""
    return HEADER + defs + N_UNIT % dict(ty=ty, model=model, beq=beq, fn=fn, beq_ok=beq_ok, unfolds=', '.join(unfolds), dom=dom)


MATCHES_UNIT = """
Definition first_diff := Eval vm_compute in
  find (fun ke => negb (Bool.eqb (src_exh_matches (fst ke) (snd ke)) (exh_matches (fst ke) (snd ke)))
                  || negb (Bool.eqb (src_is_conditional (fst ke)) (is_conditional (fst ke))))
       (list_prod [ExTrue; ExFalse; ExConditional] [true; false]).
Print first_diff.
Theorem src_agrees : forall k e, src_exh_matches k e = exh_matches k e /\\ src_is_conditional k = is_conditional k.
Proof. intros [] []; split; reflexivity. Qed.
Print Assumptions src_agrees.
"""


# ------------------------------------------------------------------------------------------------
# the transition functions of the attribute-argument automaton (ArgumentParser::take_*)

AP_CTOR = {'Reset': 'Reset', 'ResetOnlyRangeAllowed': 'ResetOnlyRange', 'RangeGotLowerLimit': 'GotLower',
           'RangeGotFirstPeriod': 'GotDot1', 'RangeGotSecondPeriod': 'GotDot2', 'RangeGotEquals': 'GotEq',
           'RangeGotBothLimits': 'GotBoth', 'StrideStarted': 'StrideStarted', 'HasStrideEquals': 'StrideEq',
           'StrideComplete': 'StrideDone', 'Read': 'ARead', 'Write': 'AWrite', 'ReadWrite': 'AReadWrite'}
AP_ARITY = {'GotLower': 1, 'GotDot1': 1, 'GotDot2': 1, 'GotEq': 1, 'GotBoth': 2, 'StrideDone': 1}
PC_OF_CHAR = {"'.'": 'PDot', "'='": 'PEq', "':'": 'PColon', "','": 'PComma'}


class ApTr:
    """match self { State(args) [if guard] => Ok(State'(..)), .. , _ => Err(..) } -> Gallina over Tokens.ap"""

    def __init__(self, arg, kind):
        self.arg = arg          # name of the second parameter
        self.kind = kind        # 'lit' | 'punct' | 'ident'
        self.env = {}

    def ctor(self, segs):
        if len(segs) == 2 and segs[0] in ('ArgumentParser', 'Self') and segs[1] in AP_CTOR:
            return AP_CTOR[segs[1]]
        raise Untranslatable('constructor ' + '::'.join(segs))

    def pattern(self, p):
        """-> list of (coq pattern, bound names)"""
        if p['p'] == 'or':
            out = []
            for c in p['cases']:
                out += self.pattern(c)
            return out
        if p['p'] == 'path':
            c = self.ctor(p['segs'])
            if AP_ARITY.get(c, 0) != 0:
                raise Untranslatable('arity of ' + c)
            return [(c, [])]
        if p['p'] == 'tuple_struct':
            c = self.ctor(p['path'])
            names = []
            for e in p['elems']:
                if e['p'] == 'ident':
                    names.append(e['name'])
                elif e['p'] == 'wild':
                    names.append('_')
                else:
                    raise Untranslatable('sub-pattern')
            if AP_ARITY.get(c, 0) != len(names):
                raise Untranslatable('arity of ' + c)
            return [('%s %s' % (c, ' '.join(names)), [n for n in names if n != '_'])]
        raise Untranslatable('pattern ' + json.dumps(p)[:80])

    def value(self, e):
        k = e.get('e')
        if k == 'block' and len(e['b']['stmts']) == 1 and e['b']['stmts'][0]['s'] == 'expr':
            return self.value(e['b']['stmts'][0]['e'])
        if k == 'call' and e['f'].get('e') == 'path':
            segs = e['f']['segs']
            if segs == ['Ok'] and len(e['args']) == 1:
                return '(Some %s)' % self.value(e['args'][0])
            if segs == ['Err']:
                return 'None'
            if segs in (['Self', 'parse_literal_number'], ['ArgumentParser', 'parse_literal_number']) and self.kind == 'lit' \
                    and len(e['args']) == 1 and e['args'][0].get('segs') == [self.arg]:
                return self.arg       # the literal's numeric value (a literal that does not parse is a separate token kind in the model)
            c = self.ctor(segs)
            if AP_ARITY.get(c, 0) != len(e['args']):
                raise Untranslatable('arity of ' + c)
            return '(%s %s)' % (c, ' '.join(self.value(a) for a in e['args']))
        if k == 'path':
            if len(e['segs']) == 1 and e['segs'][0] in self.env:
                return e['segs'][0]
            c = self.ctor(e['segs'])
            if AP_ARITY.get(c, 0) != 0:
                raise Untranslatable('arity of ' + c)
            return c
        if k == 'try':
            return self.value(e['x'])
        if k == 'un' and e['op'] == '*':
            return self.value(e['x'])
        raise Untranslatable('value ' + json.dumps(e)[:80])

    def guard(self, e):
        k = e.get('e')
        if k == 'bin' and e['op'] in ('||', '&&'):
            return '(%s %s %s)' % (self.guard(e['l']), e['op'], self.guard(e['r']))
        if k == 'bin' and e['op'] == '==':
            l, r = e['l'], e['r']
            if self.kind == 'punct' and l.get('e') == 'mcall' and l['method'] == 'as_char' and l['recv'].get('segs') == [self.arg] \
                    and r.get('e') == 'lit' and r.get('tokens') in PC_OF_CHAR:
                return '(match %s with %s => true | _ => false end)' % (self.arg, PC_OF_CHAR[r['tokens']])
            if self.kind == 'ident' and l.get('e') == 'path' and l['segs'] == [self.sname] and r.get('e') == 'lit' and r.get('kind') == 'str':
                return '(String.eqb %s "%s")' % (self.arg, r['value'])
        raise Untranslatable('guard ' + json.dumps(e)[:80])

    def arms(self, arms):
        if not arms:
            raise Untranslatable('no default arm')
        a = arms[0]
        if a['attrs']:
            raise Untranslatable('attributes on an arm')
        if a['pat']['p'] == 'wild' and a['guard'] is None:
            return self.value(a['body'])
        pats = self.pattern(a['pat'])
        rest = self.arms(arms[1:])
        branches = []
        for cp, names in pats:
            for n in names:
                self.env[n] = True
            body = self.value(a['body'])
            if a['guard'] is not None:
                body = '(if %s then %s else %s)' % (self.guard(a['guard']), body, rest)
            for n in names:
                self.env.pop(n, None)
            branches.append('| %s => %s' % (cp, body))
        return '(match self with %s | _ => %s end)' % (' '.join(branches), rest)

    def function(self, f):
        st = f['body']['stmts']
        self.sname = None
        if self.kind == 'ident' and len(st) == 2 and st[0]['s'] == 'let' and st[0]['init'].get('method') == 'to_string' \
                and st[0]['init']['recv'].get('segs') == [self.arg]:
            self.sname = st[0]['name']
            st = st[1:]
        if len(st) != 1 or st[0]['s'] != 'expr' or st[0]['e'].get('e') != 'match' or st[0]['e']['x'].get('segs') != ['self']:
            raise Untranslatable('body is not a match on self')
        return self.arms(st[0]['e']['arms'])


AP_UNIT = """From BB Require Import Tokens.
Definition first_diff := Eval vm_compute in
  let states := [Reset; ResetOnlyRange; GotLower 3; GotDot1 3; GotDot2 3; GotEq 3; GotBoth 3 5; StrideStarted; StrideEq; StrideDone 4;
                 ARead; AWrite; AReadWrite] in
  (find (fun s => negb (beq_opt ap_eqb (src_take_literal s 7) (take_literal s 7))) states,
   find (fun sc => negb (beq_opt ap_eqb (src_take_punct (fst sc) (snd sc)) (take_punct (fst sc) (snd sc))))
        (list_prod states [PDot; PEq; PColon; PComma; POther]),
   find (fun si => negb (beq_opt ap_eqb (src_take_ident (fst si) (snd si)) (take_ident (fst si) (snd si))))
        (list_prod states ["rw"; "r"; "w"; "stride"; "x"; ""]%string)).
Print first_diff.
Theorem src_agrees :
  (forall s n, src_take_literal s n = take_literal s n) /\\
  (forall s c, src_take_punct s c = take_punct s c) /\\
  (forall s id, src_take_ident s id = take_ident s id).
Proof.
  split; [|split].
  - intros [] n; reflexivity.
  - intros [] []; reflexivity.
  - intros [] id; reflexivity.
Qed.
Print Assumptions src_agrees.
"""


# ------------------------------------------------------------------------------------------------
# the numeric checks of parse_field: from `let number_of_bits = ...` up to the bounds checks

class NeedSplit(Exception):
    def __init__(self, var):
        self.var = var


EFFECT_WORDS = ('return', 'try')
EFFECT_MACROS = ('panic', 'assert', 'unreachable', 'todo', 'unimplemented', 'assert_eq', 'assert_ne')
EFFECT_METHODS = ('unwrap', 'expect', 'unwrap_or_else')


def effect_free(node):
    """no early exit hidden inside: the value may be ignored if nothing decides on it"""
    if isinstance(node, dict):
        if node.get('e') in EFFECT_WORDS:
            return False
        if node.get('e') == 'macro' and node.get('name') in EFFECT_MACROS:
            return False
        if node.get('e') == 'mcall' and node.get('method') in EFFECT_METHODS:
            return False
        if node.get('e') == 'other' or node.get('s') == 'other':
            return False
        return all(effect_free(v) for v in node.values())
    if isinstance(node, list):
        return all(effect_free(v) for v in node)
    return True


OPAQUE = object()


class RegionTr:
    """statements with early `return Err(..)`, `if let Some(x) = opt`, assignment to an Option variable, unwrap() ->
    a Gallina boolean (true = the end of the region was reached).  env: rust name -> ('N'|'bool', term) |
    ('opt', term) | ('some', inner term) | ('ranges', term) | ('opaque',)"""

    def __init__(self, env, consts, whole=False):
        self.env = dict(env)
        self.consts = consts
        self.fresh = 0
        self.whole = whole      # the statements are a whole function body: `return Ok(..)` accepts
        self.rej = 'false'      # what an early `return Err(..)` / a panic yields
        self.bound_log = []     # names bound by let / patterns, in order (block scoping of shadowed names)

    def bind(self, name, v):
        self.bound_log.append(name)
        self.env[name] = v

    def scoped(self, k):
        """a continuation that first drops the names bound (and possibly shadowed) since now: leaving a block"""
        mark = len(self.bound_log)
        pre = dict(self.env)

        def k2():
            cur = dict(self.env)
            log = list(self.bound_log)
            for n in set(self.bound_log[mark:]):
                if n in pre:
                    self.env[n] = pre[n]
                else:
                    self.env.pop(n, None)
            del self.bound_log[mark:]       # an enclosing block must not undo what happens to these names after this block
            try:
                return k()
            finally:
                self.env = cur
                self.bound_log[:] = log
        return k2

    def name(self, base):
        self.fresh += 1
        return '%s_%d' % (re.sub(r'\W', '', base), self.fresh)

    # ---- pure expressions --------------------------------------------------------------------
    def num(self, e):
        t, v = self.expr(e)
        if t != 'N':
            raise Untranslatable('expected a number: ' + json.dumps(e)[:60])
        return v

    def boolean(self, e):
        t, v = self.expr(e)
        if t != 'bool':
            raise Untranslatable('expected a condition: ' + json.dumps(e)[:60])
        return v

    def closure(self, c, ptypes):
        if c.get('e') != 'closure' or len(c['params']) != len(ptypes):
            raise Untranslatable('closure')
        saved = dict(self.env)
        names = []
        for p, t in zip(c['params'], ptypes):
            if p['p'] != 'ident':
                raise Untranslatable('closure parameter')
            n = self.name(p['name'])
            names.append(n)
            self.env[p['name']] = (t, n)
        try:
            body = self.num(c['body'])
        finally:
            self.env = saved
        return '(fun %s => %s)' % (' '.join(names), body)

    @staticmethod
    def dotted(e):
        if e.get('e') == 'path' and len(e['segs']) == 1:
            return e['segs'][0]
        if e.get('e') == 'field':
            d = RegionTr.dotted(e['x'])
            return None if d is None else d + '.' + e['member']
        if e.get('e') == 'ref':
            return RegionTr.dotted(e['x'])
        return None

    def expr(self, e):
        k = e.get('e')
        if k == 'lit' and e['kind'] == 'int':
            return 'N', e['value']
        if k == 'lit' and e['kind'] == 'bool':
            return 'bool', 'true' if e['value'] else 'false'
        if k == 'field' and self.dotted(e) in self.env and self.env[self.dotted(e)][0] in ('N', 'bool'):
            return self.env[self.dotted(e)]
        if k == 'cast':
            v = self.num(e['x'])
            w = {'u8': 8, 'u16': 16, 'u32': 32, 'u64': 64, 'usize': 64}.get(e['ty'])
            if e['ty'] == 'u128':
                return 'N', v
            if w:
                return 'N', '(%s mod 2 ^ %d)' % (v, w)
            raise Untranslatable('cast to ' + str(e['ty']))
        if k == 'bin' and e['op'] == '<<':
            a, b = self.num(e['l']), self.num(e['r'])
            return 'N', ('(2 ^ %s)' % b) if a == '1' else '(N.shiftl %s %s)' % (a, b)
        if k == 'mcall' and self.dotted(e['recv']) in self.env and self.env[self.dotted(e['recv'])][0] == 'kind':
            kd = self.env[self.dotted(e['recv'])][1]
            if e['method'] == 'is_conditional' and not e['args']:
                return 'bool', '(is_conditional %s)' % kd
            if e['method'] == 'matches' and len(e['args']) == 1:
                return 'bool', '(exh_matches %s %s)' % (kd, self.boolean(e['args'][0]))
        if k == 'mcall' and e['method'] == 'len' and not e['args'] and self.env.get(self.dotted(e['recv']), ('',))[0] == 'count':
            return 'N', self.env[self.dotted(e['recv'])][1]
        if k == 'mcall' and e['method'] == 'any' and len(e['args']) == 1 and e['recv'].get('e') == 'mcall' and \
                e['recv']['method'] == 'iter' and self.env.get(self.dotted(e['recv']['recv']), ('',))[0] == 'count' and \
                (self.dotted(e['recv']['recv']) + '.any') in self.env:
            return self.env[self.dotted(e['recv']['recv']) + '.any']
        if k == 'path' and len(e['segs']) == 1:
            n = e['segs'][0]
            if n in self.env:
                v = self.env[n]
                if v[0] in ('N', 'bool'):
                    return v
                raise Untranslatable('use of %s (%s) as a value' % (n, v[0]))
            if n in self.consts:
                return 'N', str(self.consts[n])
            raise Untranslatable('name ' + n)
        if k == 'un' and e['op'] == '!':
            return 'bool', '(negb %s)' % self.boolean(e['x'])
        if k == 'un' and e['op'] == '*':
            return self.expr(e['x'])
        if k == 'bin':
            op = e['op']
            if op in ('&&', '||'):
                return 'bool', '(%s %s %s)' % (self.boolean(e['l']), op, self.boolean(e['r']))
            a, b = self.num(e['l']), self.num(e['r'])
            if op in ('+', '*', '-'):
                # usize arithmetic: `-` below zero panics in a debug build of the macro and wraps in a release build; the model
                # (and this translation) use truncated subtraction, which agrees wherever the macro does not misbehave
                return 'N', '(%s %s %s)' % (a, op, b)
            cmp_ = {'==': '(%s =? %s)', '!=': '(negb (%s =? %s))', '<': '(%s <? %s)', '<=': '(%s <=? %s)'}
            if op in cmp_:
                return 'bool', cmp_[op] % (a, b)
            if op == '>':
                return 'bool', '(%s <? %s)' % (b, a)
            if op == '>=':
                return 'bool', '(%s <=? %s)' % (b, a)
            raise Untranslatable('operator ' + op)
        if k == 'field' and e['member'] in ('start', 'end'):
            x = e['x']
            if x.get('e') == 'path' and len(x['segs']) == 1 and self.env.get(x['segs'][0], ('',))[0] == 'range':
                return 'N', '(%s %s)' % ('fst' if e['member'] == 'start' else 'snd', self.env[x['segs'][0]][1])
            if x.get('e') == 'index' and x['x'].get('e') == 'path' and self.env.get(x['x']['segs'][0], ('',))[0] == 'ranges' \
                    and x['i'].get('e') == 'lit' and x['i']['value'] == '0':
                raise Untranslatable('ranges[0] outside a message')
        if k == 'mcall':
            m, r = e['method'], e['recv']
            rn = r['segs'][0] if r.get('e') == 'path' and len(r['segs']) == 1 else None
            rv = self.env.get(rn) if rn else None
            if m == 'len' and rv and rv[0] == 'ranges' and not e['args']:
                return 'N', '(N.of_nat (List.length %s))' % rv[1]
            if m == 'is_empty' and rv and rv[0] == 'ranges' and not e['args']:
                return 'bool', '(match %s with [] => true | _ => false end)' % rv[1]
            if m in ('is_none', 'is_some') and rv and rv[0] in ('opt', 'some') and not e['args']:
                if rv[0] == 'some':
                    return 'bool', 'false' if m == 'is_none' else 'true'
                return 'bool', '(match %s with None => %s | Some _ => %s end)' % (
                    rv[1], 'true' if m == 'is_none' else 'false', 'false' if m == 'is_none' else 'true')
            if m == 'unwrap' and rv and rv[0] in ('opt', 'some') and not e['args']:
                if rv[0] == 'some':
                    return 'N', rv[1]
                raise NeedSplit(rn)
            if m == 'map_or' and len(e['args']) == 2 and r.get('e') == 'mcall' and r['method'] in ('last', 'first') and \
                    r['recv'].get('e') == 'path' and self.env.get(r['recv']['segs'][0], ('',))[0] == 'ranges':
                lst = self.env[r['recv']['segs'][0]][1]
                return 'N', '(match %s with r_ :: _ => %s r_ | [] => %s end)' % (
                    lst if r['method'] == 'first' else '(rev %s)' % lst, self.closure(e['args'][1], ['range']), self.num(e['args'][0]))
            if m == 'fold' and len(e['args']) == 2 and r.get('e') == 'mcall' and r['method'] == 'iter' and \
                    r['recv'].get('e') == 'path' and self.env.get(r['recv']['segs'][0], ('',))[0] == 'ranges':
                init = self.num(e['args'][0])
                return 'N', '(fold_left %s %s %s)' % (self.closure(e['args'][1], ['N', 'range']), self.env[r['recv']['segs'][0]][1], init)
            if m == 'unwrap_or' and len(e['args']) == 1 and r.get('e') == 'mcall' and r['method'] == 'min' and \
                    r['recv'].get('e') == 'mcall' and r['recv']['method'] == 'map' and len(r['recv']['args']) == 1:
                it = r['recv']['recv']
                if it.get('e') == 'mcall' and it['method'] == 'iter' and it['recv'].get('e') == 'path' and \
                        self.env.get(it['recv']['segs'][0], ('',))[0] == 'ranges':
                    return 'N', '(list_min_or (map %s %s) %s)' % (self.closure(r['recv']['args'][0], ['range']),
                                                                  self.env[it['recv']['segs'][0]][1], self.num(e['args'][0]))
            if m == 'unwrap_or' and len(e['args']) == 1 and r.get('e') == 'mcall' and r['method'] == 'max' and \
                    r['recv'].get('e') == 'mcall' and r['recv']['method'] == 'map' and len(r['recv']['args']) == 1:
                it = r['recv']['recv']
                if it.get('e') == 'mcall' and it['method'] == 'iter' and it['recv'].get('e') == 'path' and \
                        self.env.get(it['recv']['segs'][0], ('',))[0] == 'ranges':
                    return 'N', '(list_max_or (map %s %s) %s)' % (self.closure(r['recv']['args'][0], ['range']),
                                                                  self.env[it['recv']['segs'][0]][1], self.num(e['args'][0]))
        raise Untranslatable('expression ' + json.dumps(e)[:90])

    def optexpr(self, e):
        """an Option<usize>-valued expression -> ('some', term) | ('opt', term).  checked_* never overflow here: usize is
        modelled as N (see the trusted base)"""
        k = e.get('e')
        if k == 'path' and len(e['segs']) == 1 and self.env.get(e['segs'][0], ('',))[0] in ('opt', 'some'):
            return self.env[e['segs'][0]]
        if k == 'path' and e['segs'] == ['None']:
            return ('opt', 'None')
        if k == 'call' and e['f'].get('segs') == ['Some'] and len(e['args']) == 1:
            return ('some', self.num(e['args'][0]))
        if k == 'mcall' and e['method'] in ('checked_mul', 'checked_add') and len(e['args']) == 1:
            a, b = self.num(e['recv']), self.num(e['args'][0])
            return ('some', '(%s %s %s)' % (a, '*' if e['method'] == 'checked_mul' else '+', b))
        if k == 'mcall' and e['method'] == 'checked_sub' and len(e['args']) == 1:
            a, b = self.num(e['recv']), self.num(e['args'][0])
            return ('opt', '(if %s <? %s then None else Some (%s - %s))' % (a, b, a, b))
        if k == 'mcall' and e['method'] == 'and_then' and len(e['args']) == 1 and e['args'][0].get('e') == 'closure' \
                and len(e['args'][0]['params']) == 1 and e['args'][0]['params'][0]['p'] == 'ident':
            r = self.optexpr(e['recv'])
            c = e['args'][0]
            saved = dict(self.env)
            try:
                if r[0] == 'some':
                    self.env[c['params'][0]['name']] = ('N', r[1])
                    return self.optexpr(c['body'])
                v = self.name(c['params'][0]['name'])
                self.env[c['params'][0]['name']] = ('N', v)
                b = self.optexpr(c['body'])
                bt = b[1] if b[0] == 'opt' else '(Some %s)' % b[1]
                return ('opt', '(match %s with Some %s => %s | None => None end)' % (r[1], v, bt))
            finally:
                self.env = saved
        if k == 'mcall' and e['method'] == 'filter' and len(e['args']) == 1 and e['args'][0].get('e') == 'closure' \
                and len(e['args'][0]['params']) == 1 and e['args'][0]['params'][0]['p'] == 'ident':
            r = self.optexpr(e['recv'])
            c = e['args'][0]
            saved = dict(self.env)
            try:
                v = r[1] if r[0] == 'some' else self.name(c['params'][0]['name'])
                self.env[c['params'][0]['name']] = ('N', v)
                g = self.boolean(c['body'])
                if r[0] == 'some':
                    return ('opt', '(if %s then Some %s else None)' % (g, v))
                return ('opt', '(match %s with Some %s => (if %s then Some %s else None) | None => None end)' % (r[1], v, g, v))
            finally:
                self.env = saved
        raise Untranslatable('option expression ' + json.dumps(e)[:80])

    # ---- control ----------------------------------------------------------------------------
    def panics(self, e):
        """for an expression whose value nothing decides on (tokens): the condition under which evaluating it panics"""
        kind = e.get('e')
        if kind == 'if' and e['c'].get('e') != 'let' and e['f'] is not None:
            a, b = self.panics_block(e['t']), self.panics(e['f'])
            if a == b:
                return a
            return '(if %s then %s else %s)' % (self.boolean(e['c']), a, b)
        if kind == 'block':
            return self.panics_block(e['b'])
        if kind == 'macro' and e['name'] == 'panic':
            return 'true'
        if kind == 'macro' and e['name'] == 'quote':
            return 'false'
        if effect_free(e):
            return 'false'
        raise Untranslatable('value with effects: ' + json.dumps(e)[:80])

    def panics_block(self, b):
        st = b['stmts']
        if len(st) != 1 or st[0]['s'] != 'expr' or st[0].get('semi'):
            raise Untranslatable('block in a token-valued expression')
        return self.panics(st[0]['e'])

    def value_k(self, e, k):
        """evaluate e for its value with its control flow; k(value) where value = (type, term) or OPAQUE"""
        kind = e.get('e')
        if kind in ('if', 'block', 'macro'):
            try:
                pan = self.panics(e)
            except Untranslatable:
                pan = None
            if pan is not None:
                return k(OPAQUE) if pan == 'false' else self.rej if pan == 'true' else '(if %s then %s else %s)' % (pan, self.rej, k(OPAQUE))
        if kind == 'if' and e['c'].get('e') != 'let':
            c = self.boolean(e['c'])
            saved = dict(self.env)
            a = self.block_value_k(e['t'], k)
            self.env = dict(saved)
            if e['f'] is None:
                raise Untranslatable('if without else as a value')
            b = self.value_k(e['f'], k)
            self.env = saved
            return '(if %s then %s else %s)' % (c, a, b)
        if kind == 'block':
            return self.block_value_k(e['b'], k)
        if kind == 'macro' and e['name'] == 'panic':
            return self.rej
        if kind == 'tuple':
            vals = []

            def step(i):
                if i == len(e['elems']):
                    return k(('tuple', list(vals)))
                return self.value_k(e['elems'][i], lambda v: (vals.append(v), step(i + 1), vals.pop())[1])
            return step(0)
        if kind == 'match' and e['x'].get('e') == 'path' and self.env.get(e['x']['segs'][0], ('',))[0] in ('opt', 'some'):
            return self.match_opt(e, lambda body: self.value_k(body, k))
        if kind == 'match' and e['x'].get('e') == 'mcall' and e['x']['method'] == 'cmp' and len(e['x']['args']) == 1:
            a = self.num(e['x']['recv'])
            b = self.num(e['x']['args'][0]['x'] if e['x']['args'][0].get('e') == 'ref' else e['x']['args'][0])
            tests = {'Equal': '(%s =? %s)' % (a, b), 'Greater': '(%s <? %s)' % (b, a), 'Less': '(%s <? %s)' % (a, b)}

            def arms(i):
                if i == len(e['arms']):
                    raise Untranslatable('match on cmp without a final arm')
                arm = e['arms'][i]
                p = arm['pat']
                if p['p'] == 'wild':
                    c = 'true'
                elif p['p'] == 'path' and p['segs'][-1] in tests and p['segs'][-2:-1] == ['Ordering']:
                    c = tests[p['segs'][-1]]
                else:
                    raise Untranslatable('pattern on an Ordering')
                if arm['guard'] is not None:
                    c = c if False else '(%s && %s)' % (c, self.boolean(arm['guard'])) if c != 'true' else self.boolean(arm['guard'])
                saved = dict(self.env)
                body = self.value_k(arm['body'], k)
                self.env = saved
                if c == 'true':
                    return body
                return '(if %s then %s else %s)' % (c, body, arms(i + 1))
            return arms(0)
        try:
            v = self.expr(e)
        except Untranslatable:
            if not effect_free(e):
                raise
            v = OPAQUE
        return k(v)

    def block_value_k(self, b, k):
        st = b['stmts']
        if not st or st[-1]['s'] != 'expr' or st[-1].get('semi'):
            # no value: fine if every path through the block leaves the function
            def fell_through():
                raise Untranslatable('block without a value')
            return self.stmts(st, fell_through)
        return self.stmts(st[:-1], lambda: self.value_k(st[-1]['e'], k))

    def match_opt(self, e, on_body):
        var = e['x']['segs'][0]
        t = self.env[var]
        arms = {}
        for a in e['arms']:
            if a['guard'] is not None or a['attrs']:
                raise Untranslatable('match arm with guard')
            p = a['pat']
            if (p['p'] == 'ident' and p['name'] == 'None') or (p['p'] == 'path' and p['segs'] == ['None']):
                arms['None'] = (None, a['body'])
            elif p['p'] == 'tuple_struct' and p['path'] == ['Some'] and len(p['elems']) == 1 and p['elems'][0]['p'] == 'ident':
                arms['Some'] = (p['elems'][0]['name'], a['body'])
            else:
                raise Untranslatable('pattern on an Option')
        if set(arms) != {'None', 'Some'}:
            raise Untranslatable('match on an Option needs Some and None')
        saved = dict(self.env)
        if t[0] == 'some':
            self.bind(arms['Some'][0], ('N', t[1]))
            r = on_body(arms['Some'][1])
            self.env = saved
            return r
        inner = self.name(arms['Some'][0])
        self.bind(arms['Some'][0], ('N', inner))
        s = on_body(arms['Some'][1])
        self.env = dict(saved)
        n = on_body(arms['None'][1])
        self.env = saved
        return '(match %s with Some %s => %s | None => %s end)' % (t[1], inner, s, n)

    def stmts(self, st, k):
        """translate the statements then continue with k() (a thunk producing the rest, evaluated in the then-current env)"""
        if not st:
            return k()
        s, rest = st[0], st[1:]
        try:
            return self.stmt(s, lambda: self.stmts(rest, k))
        except NeedSplit as ns:
            t = self.env[ns.var]
            inner = self.name(ns.var)
            saved = dict(self.env)
            self.env[ns.var] = ('some', inner)
            body = self.stmts(st, k)
            self.env = saved
            # unwrap() of None: the macro panics, the declaration is rejected
            return '(match %s with Some %s => %s | None => %s end)' % (t[1], inner, body, self.rej)

    def stmt(self, s, k):
        if s['s'] == 'let' and isinstance(s.get('init'), dict) and s['init'].get('e') == 'mcall' and \
                s['init']['method'] in ('checked_mul', 'checked_add', 'checked_sub', 'and_then', 'filter'):
            try:
                try:
                    v = self.optexpr(s['init'])
                except NeedSplit:
                    raise
                saved = dict(self.env)
                self.bind(s['name'], v)
                r = k()
                self.env = saved
                return r
            except Untranslatable:
                pass
        if s['s'] == 'let':
            def bind(v):
                saved = dict(self.env)
                if v is OPAQUE:
                    self.bind(s['name'], ('opaque',))
                    r = k()
                else:
                    n = self.name(s['name'])
                    self.bind(s['name'], (v[0], n))
                    r = '(let %s := %s in %s)' % (n, v[1], k())
                self.env = saved
                return r
            return self.value_k(s['init'], bind)
        if s['s'] == 'letpat' and s['pat']['p'] == 'tuple' and all(p['p'] == 'ident' for p in s['pat']['elems']):
            names = [p['name'] for p in s['pat']['elems']]

            def bind(v):
                if v is OPAQUE or v[0] != 'tuple' or len(v[1]) != len(names):
                    raise Untranslatable('tuple binding')
                saved = dict(self.env)
                lets = []
                for n, x in zip(names, v[1]):
                    if x is OPAQUE:
                        self.bind(n, ('opaque',))
                    else:
                        c = self.name(n)
                        lets.append((c, x[1]))
                        self.bind(n, (x[0], c))
                r = k()
                for c, x in reversed(lets):
                    r = '(let %s := %s in %s)' % (c, x, r)
                self.env = saved
                return r
            return self.value_k(s['init'], bind)
        if s['s'] == 'expr':
            e = s['e']
            kind = e.get('e')
            if kind == 'call' and e['f'].get('segs') == ['Ok'] and not s.get('semi'):
                return k()
            if kind == 'call' and e['f'].get('segs') == ['Err'] and not s.get('semi'):
                return self.rej
            if kind == 'return':
                x = e['x']
                if x and x.get('e') == 'call' and x['f'].get('segs') == ['Err']:
                    return self.rej
                if self.whole and x and x.get('e') == 'call' and x['f'].get('segs') == ['Ok']:
                    return 'true'
                raise Untranslatable('return of something other than Err')
            if kind == 'try' and e['x'].get('e') == 'call' and e['x']['f'].get('segs') == ['Err']:
                return self.rej
            if kind == 'macro' and e['name'] == 'panic':
                return self.rej
            if kind == 'macro' and e['name'] == 'assert' and e.get('args') and len(e['args']) == 1:
                return '(if %s then %s else %s)' % (self.boolean(e['args'][0]), k(), self.rej)
            if kind == 'assign' and e['l'].get('e') == 'path' and self.env.get(e['l']['segs'][0], ('',))[0] == 'bool':
                var = e['l']['segs'][0]
                saved = self.env[var]
                self.env[var] = ('bool', self.boolean(e['r']))
                out = k()
                self.env[var] = saved
                return out
            if kind == 'mcall' and e['method'] == 'push' and len(e['args']) == 1 and e['recv'].get('e') == 'path' and \
                    self.env.get(e['recv']['segs'][0], ('',))[0] == 'ranges' and e['args'][0].get('e') == 'struct' and \
                    e['args'][0]['path'] == ['Range'] and sorted(x['name'] for x in e['args'][0]['fields']) == ['end', 'start']:
                var = e['recv']['segs'][0]
                fl = dict((x['name'], self.num(x['e'])) for x in e['args'][0]['fields'])
                saved = self.env[var]
                self.env[var] = ('ranges', '(%s ++ [(%s, %s)])' % (saved[1], fl['start'], fl['end']))
                out = k()
                self.env[var] = saved
                return out
            if kind == 'match' and e['x'].get('e') == 'path' and self.env.get(e['x']['segs'][0], ('',))[0] == 'ap':
                return self.match_ap(e, k)
            if kind == 'assign' and e['l'].get('e') == 'path' and self.env.get(e['l']['segs'][0], ('',))[0] in ('opt', 'some'):
                var = e['l']['segs'][0]
                r = e['r']
                saved = self.env[var]
                if r.get('e') == 'call' and r['f'].get('segs') == ['Some'] and len(r['args']) == 1:
                    self.env[var] = ('some', self.num(r['args'][0]))
                elif r.get('e') == 'path' and r['segs'] == ['None']:
                    self.env[var] = ('opt', 'None')
                else:
                    raise Untranslatable('assignment to ' + var)
                out = k()
                self.env[var] = saved
                return out
            if kind == 'if':
                c = e['c']
                if c.get('e') == 'let':
                    p = c['pat']
                    if p['p'] == 'tuple_struct' and p['path'] == ['Some'] and len(p['elems']) == 1 and p['elems'][0]['p'] == 'ident' \
                            and c['x'].get('e') == 'path' and self.env.get(c['x']['segs'][0], ('',))[0] in ('opt', 'some'):
                        t = self.env[c['x']['segs'][0]]
                        bound = p['elems'][0]['name']
                        saved = dict(self.env)
                        inner = t[1] if t[0] == 'some' else self.name(bound)
                        k = self.scoped(k)
                        self.bind(bound, ('N', inner))
                        a = self.stmts(e['t']['stmts'], k)
                        self.env = dict(saved)
                        if t[0] == 'some':
                            self.env = saved
                            return a
                        b = self.else_branch(e['f'], k)
                        self.env = saved
                        return '(match %s with Some %s => %s | None => %s end)' % (t[1], inner, a, b)
                    raise Untranslatable('if let')
                cond = self.boolean(c)
                saved = dict(self.env)
                k = self.scoped(k)
                a = self.stmts(e['t']['stmts'], k)
                self.env = dict(saved)
                b = self.else_branch(e['f'], k)
                self.env = saved
                return '(if %s then %s else %s)' % (cond, a, b)
            if kind == 'block':
                return self.stmts(e['b']['stmts'], self.scoped(k))
            if kind == 'match' and e['x'].get('e') == 'path' and self.env.get(e['x']['segs'][0], ('',))[0] in ('opt', 'some'):
                k = self.scoped(k)
                simple = len(e['arms']) == 2 and all(a['guard'] is None for a in e['arms']) and \
                    not any(a['pat']['p'] == 'wild' for a in e['arms'])
                if simple:
                    return self.match_opt(e, lambda body: self.stmt({'s': 'expr', 'e': body, 'semi': True}, k))
                return self.match_opt_seq(e, k)
        raise Untranslatable('statement ' + json.dumps(s)[:90])

    def match_opt_seq(self, e, k):
        """match opt { Some(x) if g => A, Some(y) => B, None => C, _ => D }: first matching arm, as a statement"""
        t = self.env[e['x']['segs'][0]]

        def body_of(arm):
            b = arm['body']
            if b.get('e') == 'block':
                return self.stmts(b['b']['stmts'], k)
            return self.stmt({'s': 'expr', 'e': b, 'semi': True}, k)

        def go(arms, is_some, inner):
            # the translation of the remaining arms, knowing whether the scrutinee is Some(inner) or None
            if not arms:
                raise Untranslatable('match on an Option without a final arm')
            arm = arms[0]
            if arm['attrs']:
                raise Untranslatable('attributes on an arm')
            p = arm['pat']
            saved = dict(self.env)
            try:
                if p['p'] == 'wild':
                    applies = True
                elif (p['p'] == 'ident' and p['name'] == 'None') or (p['p'] == 'path' and p['segs'] == ['None']):
                    applies = not is_some
                elif p['p'] == 'tuple_struct' and p['path'] == ['Some'] and len(p['elems']) == 1 and p['elems'][0]['p'] in ('ident', 'wild'):
                    applies = is_some
                    if is_some and p['elems'][0]['p'] == 'ident':
                        self.bind(p['elems'][0]['name'], ('N', inner))
                else:
                    raise Untranslatable('pattern on an Option')
                if not applies:
                    return go(arms[1:], is_some, inner)
                if arm['guard'] is None:
                    return body_of(arm)
                g = self.boolean(arm['guard'])
                a = body_of(arm)
                self.env = dict(saved)
                return '(if %s then %s else %s)' % (g, a, go(arms[1:], is_some, inner))
            finally:
                self.env = saved
        if t[0] == 'some':
            return go(e['arms'], True, t[1])
        inner = self.name('some')
        return '(match %s with Some %s => %s | None => %s end)' % (t[1], inner, go(e['arms'], True, inner), go(e['arms'], False, None))

    def match_ap(self, e, k):
        """match <automaton state> { Ctor(x, _) | Ctor2 => { stmts } .. _ => .. } as a statement"""
        sv = self.env[e['x']['segs'][0]][1]
        apt = ApTr(None, None)
        branches = []
        k = self.scoped(k)
        for a in e['arms']:
            if a['guard'] is not None or a['attrs']:
                raise Untranslatable('guard on a state arm')
            pats = ['_'] if a['pat']['p'] == 'wild' else None
            saved = dict(self.env)
            if pats is None:
                pp = apt.pattern(a['pat'])
                pats = [x[0] for x in pp]
                names = set(tuple(sorted(x[1])) for x in pp)
                if len(names) != 1:
                    raise Untranslatable('or-pattern binding different names')
                for n in pp[0][1]:
                    self.bind(n, ('N', n))
            b = a['body']
            if b.get('e') == 'block':
                body = self.stmts(b['b']['stmts'], k)
            else:
                body = self.stmt({'s': 'expr', 'e': b, 'semi': True}, k)
            self.env = saved
            branches.append('| %s => %s' % (' | '.join(pats), body))
        return '(match %s with %s end)' % (sv, ' '.join(branches))

    def else_branch(self, f, k):
        if f is None:
            return k()
        if f.get('e') == 'block':
            return self.stmts(f['b']['stmts'], k)
        if f.get('e') == 'if':
            return self.stmt({'s': 'expr', 'e': f, 'semi': False}, k)
        raise Untranslatable('else branch')


REGION_UNIT = """From BB Require Import Parse ParseRegion.
Definition first_diff := Eval vm_compute in region_first_diff src_region.
Print first_diff.
Theorem src_agrees : forall W rs sz count stride, src_region W rs sz count stride = region_checks W rs sz count stride.
Proof. region_auto src_region. Qed.
Print Assumptions src_agrees.
"""


FIN_UNIT = """
Definition fin_states : list ap :=
  [Reset; ResetOnlyRange; GotLower 3; GotDot1 3; GotDot2 3; GotEq 3; GotBoth 3 5; GotBoth 5 3; GotBoth 4 4; StrideStarted; StrideEq;
   StrideDone 4; ARead; AWrite; AReadWrite].
Definition fin_accs : list pacc :=
  [pacc0; mkPacc [(0, 2)] (Some 1) false true None; mkPacc [(0, 2); (4, 6)] (Some 2) true false (Some 3); mkPacc [] (Some 1) true true None].
Definition pacc_eqb (x y : pacc) : bool :=
  (if list_eq_dec (fun p q : N * N => ltac:(decide equality; apply N.eq_dec)) (a_ranges x) (a_ranges y) then true else false)
  && beq_opt N.eqb (a_rtoken x) (a_rtoken y) && Bool.eqb (a_get x) (a_get y) && Bool.eqb (a_set x) (a_set y)
  && beq_opt N.eqb (a_stride x) (a_stride y).
Definition first_diff := Eval vm_compute in
  find (fun x => match x with (r, c, s, ia, t, a) =>
                   negb (beq_opt pacc_eqb (src_finished r c s ia t a) (finished r c s ia t a)) end)
       (flat_map (fun r => flat_map (fun c => flat_map (fun s => flat_map (fun ia => flat_map (fun t => map (fun a => (r, c, s, ia, t, a))
                  fin_accs) [1; 2]) [true; false]) fin_states) [true; false]) [true; false]).
Print first_diff.
Theorem src_agrees : forall is_range has_count s in_array token_id a,
  src_finished is_range has_count s in_array token_id a = finished is_range has_count s in_array token_id a.
Proof.
  intros is_range has_count s in_array token_id [rs rt g st sd].
  unfold src_finished, finished; cbn [a_ranges a_rtoken a_get a_set a_stride push].
  destruct s; destruct in_array; destruct is_range; destruct has_count; destruct rt; destruct rs; cbn [negb andb orb];
    repeat match goal with |- context[if ?c then _ else _] => destruct c eqn:? end;
    try reflexivity; exfalso; lia.
Qed.
Print Assumptions src_agrees.
"""


ENUM_UNIT = """
Definition first_diff := Eval vm_compute in
  (find (fun ak => negb (Bool.eqb (src_cfg_check (fst ak) (snd ak)) (enum_cfg_check (fst ak) (snd ak))))
        (list_prod [true; false] [ExTrue; ExFalse; ExConditional]),
   enum_first_diff src_count_checks).
Print first_diff.
Theorem src_agrees :
  (forall a k, src_cfg_check a k = enum_cfg_check a k) /\\
  (forall bits count kind, src_count_checks bits count kind = enum_count_checks bits count kind).
Proof. split; [intros [] []; reflexivity | enum_auto src_count_checks]. Qed.
Print Assumptions src_agrees.
"""


def region_of(parse_field):
    """the statements of parse_field between `let number_of_bits` and the first statement after the bounds checks"""
    st = parse_field['body']['stmts']
    start = [i for i, s in enumerate(st) if s.get('s') == 'let' and s.get('name') == 'number_of_bits']
    if len(start) != 1:
        raise Untranslatable('`let number_of_bits` not found')
    end = None
    for i in range(start[0] + 1, len(st)):
        txt = json.dumps(st[i])
        if 'parse_enumeration' in txt or 'use_regular_int' in txt or 'FieldDefinition' in txt:
            end = i
            break
    if end is None:
        raise Untranslatable('end of the checks not found')
    return st[start[0]:end]


def generate(xl_by_file):
    """-> list of units {label, desc, props, definition, coq (source text) | error}; never raises"""
    mod = xl_by_file.get('bitfield/mod.rs') or {}
    bs = xl_by_file.get('bit_size.rs') or {}
    be = xl_by_file.get('bitenum.rs') or {}
    pa = xl_by_file.get('bitfield/parsing.rs') or {}
    units = []

    def attempt(label, desc, build):
        u = {'label': label, 'desc': desc, 'props': PROPS[label]}
        try:
            u['coq'], u['definition'] = build()
        except (Untranslatable, KeyError, IndexError, TypeError) as ex:
            u['error'] = '%s: %s' % (type(ex).__name__, ex)
        units.append(u)

    def regular_def():
        f = find_fn(mod['items'], 'is_int_size_regular_type')
        tr = Tr({param_names(f)[0]: 'size'}, consts_of(mod['items']), {}, {})
        return 'Definition src_is_regular (size : N) : bool := %s.\n' % tr.block(f['body'])

    def b_regular():
        d = regular_def()
        return n_unit(d, 'src_is_regular', 'bool', 'Bool.eqb', 'beq_bool_ok',
                      '(n =? 0) || is_native n', ['src_is_regular', 'is_native']), d
    attempt('src:is_int_size_regular_type',
            "is_int_size_regular_type(size) = (size is bool's 0 or a native width), every size", b_regular)

    def b_new():
        f = find_fn(mod['items'], 'new', 'BaseDataSize')
        tr = Tr({param_names(f)[0]: 'size'}, consts_of(mod['items']), {}, {})
        d = 'Definition src_base_data_size (size : N) : option (N * N) := %s.\n' % tr.block(f['body'])
        return n_unit(d, 'src_base_data_size', 'option (N * N)', '(beq_opt beq_pair)', '(beq_opt_ok beq_pair beq_pair_ok)',
                      'Some (storage n, n)', ['src_base_data_size', 'storage'], dom='n <=? 128'), d
    attempt('src:BaseDataSize::new',
            'BaseDataSize::new(size) = {internal: storage size, exposed: size}, every size up to 128 (its callers pass a native width or a '
            'width accepted by try_parse_arbitrary_int_type)', b_new)

    def b_guard():
        f = find_fn(mod['items'], 'try_parse_arbitrary_int_type')
        has_contains = lambda n: find_node(n, lambda m: m.get('method') == 'contains') is not None
        node = find_node(f['body'], lambda n: n.get('e') == 'if' and has_contains(n['c']))
        if node is None:
            raise Untranslatable('width test not found')
        tr = Tr({'size': 'size'}, consts_of(mod['items']), {'is_int_size_regular_type': 'src_is_regular'}, {})
        d = regular_def() + 'Definition src_arb_guard (size : N) : bool := %s.\n' % tr.expr(node['c'])
        return n_unit(d, 'src_arb_guard', 'bool', 'Bool.eqb', 'beq_bool_ok',
                      '(1 <=? n) && (n <? 128) && negb (is_native n)', ['src_arb_guard', 'src_is_regular', 'is_native']), d
    attempt('src:try_parse_arbitrary_int_type',
            'the width test of try_parse_arbitrary_int_type = (1 <= n < 128 and not a native width), every size', b_guard)

    def b_base_type():
        f = find_fn(bs['items'], 'base_type', 'Bits')
        tr = Tr({}, {}, {}, {'size': 'size'})
        d = 'Definition src_enum_base_type (size : N) : option N := %s.\n' % tr.block(f['body'])
        return n_unit(d, 'src_enum_base_type', 'option N', '(beq_opt N.eqb)', '(beq_opt_ok N.eqb beq_N_ok)',
                      'if (1 <=? n) && (n <=? 64) then Some (storage_enum n) else None', ['src_enum_base_type', 'storage_enum']), d
    attempt('src:Bits::base_type', 'Bits::base_type = storage_enum for 1..=64 and an error otherwise, every size', b_base_type)

    def b_is_arb():
        f = find_fn(bs['items'], 'is_arbitrary_int', 'Bits')
        tr = Tr({'is_ident': 'true'}, {}, {}, {'size': 'size'})
        # `is_ident` (the storage type was written as a plain identifier) is true for every corpus declaration
        st = [s for s in f['body']['stmts'] if not (s['s'] == 'let' and s['name'] == 'is_ident')]
        d = 'Definition src_is_arbitrary_int (size : N) : bool := %s.\n' % tr.stmts(st, 0)
        return n_unit(d, 'src_is_arbitrary_int', 'bool', 'Bool.eqb', 'beq_bool_ok',
                      'is_arb_enum n', ['src_is_arbitrary_int', 'is_arb_enum'], dom='(1 <=? n) && (n <=? 64)'), d
    attempt('src:Bits::is_arbitrary_int',
            'Bits::is_arbitrary_int (type written as a plain identifier) = not in {8,16,32,64}, every size 1..=64 (it is consulted only '
            'after Bits::base_type succeeded)', b_is_arb)

    def b_matches():
        f = find_fn(be['items'], 'matches', 'Exhaustive')
        tr = Tr({param_names(f)[0]: 'expected'}, {}, {}, {'kind': 'kind'})
        body = tr.block(f['body'])
        g = find_fn(be['items'], 'is_conditional', 'Exhaustive')
        tr2 = Tr({}, {}, {}, {'kind': 'kind'})
        d = ('Definition src_exh_matches (kind : exh_kind) (expected : bool) : bool := %s.\n'
             'Definition src_is_conditional (kind : exh_kind) : bool := %s.\n' % (body, tr2.block(g['body'])))
        return HEADER + d + MATCHES_UNIT, d
    attempt('src:Exhaustive::matches', "Exhaustive::matches and is_conditional = the model's, all kinds and both expectations", b_matches)

    def b_ap():
        defs = ''
        for name, kind, argty in (('take_literal', 'lit', 'N'), ('take_punct', 'punct', 'pc'), ('take_ident', 'ident', 'string')):
            f = find_fn(pa['items'], name, 'ArgumentParser')
            params = [p for p in f['params'] if 'name' in p]
            if len(params) != 1:
                raise Untranslatable('parameters of ' + name)
            tr = ApTr(params[0]['name'], kind)
            defs += 'Definition src_%s (self : ap) (%s : %s) : option ap := %s.\n' % (name, params[0]['name'], argty, tr.function(f))
        return HEADER + 'From BB Require Import Tokens.\n' + defs + AP_UNIT, defs
    def b_region():
        f = find_fn(pa['items'], 'parse_field')
        st = region_of(f)
        tr = RegionTr({'ranges': ('ranges', 'rs'), 'field_type_size_from_data_type': ('opt', 'sz'), 'indexed_count': ('opt', 'count'),
                       'indexed_stride': ('opt', 'stride'), 'base_data_size': ('N', 'W')}, dict(consts_of(mod.get('items', [])), BITCOUNT_BOOL=0))
        body = tr.stmts(st, lambda: 'true')
        d = 'Definition src_region (W : N) (rs : list (N * N)) (sz count stride : option N) : bool :=\n  %s.\n' % body
        return HEADER + 'From BB Require Import ParseRegion.\n' + d + REGION_UNIT, d
    attempt('src:parse_field checks', 'the numeric checks of parse_field (type width against selected bits, bool, stride, array and field '
            'bounds, element count) = the model\'s region_checks, for every base width, range list, type size, count and stride', b_region)

    def b_enum():
        f = find_fn(be['items'], 'check_explicit_conditional')
        env = {'config.exhaustive': ('kind', 'kind'), 'input.variants': ('count', 'count'), 'input.variants.any': ('bool', 'any_cfg'),
               'config.bits.size': ('N', 'bits')}
        tr = RegionTr(env, {}, whole=True)
        d = 'Definition src_cfg_check (any_cfg : bool) (kind : exh_kind) : bool :=\n  %s.\n' % tr.stmts(f['body']['stmts'], lambda: 'true')
        g = find_fn(be['items'], 'check_explicit_exhaustive')
        st = g['body']['stmts']
        end = [i for i, x in enumerate(st) if 'max_discr' in json.dumps(x)]
        if not end or end[0] == 0:
            raise Untranslatable('head of check_explicit_exhaustive not found')
        tr = RegionTr(env, {})
        d += 'Definition src_count_checks (bits count : N) (kind : exh_kind) : bool :=\n  %s.\n' % tr.stmts(st[:end[0]], lambda: 'true')
        return HEADER + 'From BB Require Import EnumRegion.\n' + d + ENUM_UNIT, d
    attempt('src:bitenum count checks', 'check_explicit_conditional and the head of check_explicit_exhaustive (variant count against 2^N, '
            'the exhaustive claim) = the model\'s enum_cfg_check / enum_count_checks, every width, count and kind', b_enum)

    def b_fin():
        f = find_fn(pa['items'], 'parse_field')
        c = find_node(f, lambda n: n.get('s') in ('let', 'letpat') and (n.get('name') == 'finished_argument' or
                                                                       (n.get('pat') or {}).get('name') == 'finished_argument'))
        if c is None or c['init'].get('e') != 'closure':
            raise Untranslatable('closure finished_argument not found')
        cl = c['init']
        pn = []
        for q in cl['params']:
            q = q['pat'] if q['p'] == 'typed' else q
            if q['p'] != 'ident':
                raise Untranslatable('closure parameter')
            pn.append(q['name'])
        if len(pn) != 3:
            raise Untranslatable('closure parameters')
        env = {pn[0]: ('ap', 's'), pn[1]: ('bool', 'in_array'), pn[2]: ('N', 'token_id'),
               'ranges': ('ranges', '(a_ranges a)'), 'ranges_token': ('opt', '(a_rtoken a)'), 'provide_getter': ('bool', '(a_get a)'),
               'provide_setter': ('bool', '(a_set a)'), 'indexed_stride': ('opt', '(a_stride a)'), 'is_range': ('bool', 'is_range'),
               'indexed_count': ('opt', '(if has_count then Some 0 else None)')}
        tr = RegionTr(env, {}, whole=True)
        tr.rej = 'None'

        def fin():
            def o(v):
                return v[1] if v[0] == 'opt' else '(Some %s)' % v[1]
            e = tr.env
            return '(Some (mkPacc %s %s %s %s %s))' % (e['ranges'][1], o(e['ranges_token']), e['provide_getter'][1], e['provide_setter'][1],
                                                      o(e['indexed_stride']))
        body = cl['body']['b']['stmts'] if cl['body'].get('e') == 'block' else None
        if body is None:
            raise Untranslatable('closure body')
        d = ('Definition src_finished (is_range has_count : bool) (s : ap) (in_array : bool) (token_id : N) (a : pacc) : option pacc :=\n'
             '  %s.\n' % tr.stmts(body, fin))
        return HEADER + 'From BB Require Import Tokens.\n' + d + FIN_UNIT, d
    attempt('src:finished_argument', 'the closure finished_argument of parse_field (one range outside a list, bit/bits against single bit / '
            'range, lower <= upper, end exclusive, access flags from r / w / rw, stride only for arrays) = Tokens.finished, every automaton '
            'state, flag, token id and accumulated state', b_fin)

    attempt('src:ArgumentParser::take_*', 'the three transition functions of the attribute-argument automaton (take_literal, take_punct, '
            'take_ident) = the model\'s (Tokens.v), every state and every token', b_ap)
    return units


# ------------------------------------------------------------------------------------------------
# when a unit no longer checks: small declarations that exercise the function at the argument in question,
# with what the documented rules say about them.  Each is (what, lib.rs text, expect_accept).

BOUNDARY = [1, 2, 7, 8, 9, 15, 16, 17, 31, 32, 33, 63, 64, 65, 100, 127, 128]


def _storage(n):
    for s in (8, 16, 32, 64, 128):
        if n <= s:
            return s
    return 128


def _uty(n):
    return 'u%d' % n if n in (8, 16, 32, 64, 128) else 'arbitrary_int::u%d' % n


def _umax(n):
    return '0x%x_u128' % ((1 << n) - 1)


def _uval(n, v):
    return '0x%x_u%d' % (v, n) if n in (8, 16, 32, 64, 128) else 'arbitrary_int::u%d::new(0x%x)' % (n, v)


def probes_for(label, first_diff):
    """-> list of {what, lib, expect_accept}; the argument named by first_diff first, then the boundary widths"""
    ns = []
    m = re.search(r'Some \((\d+),', first_diff or '')
    if m:
        ns.append(int(m.group(1)))
    ns += [n for n in BOUNDARY if n not in ns]
    out = []
    hdr = '#![allow(warnings)]\nuse arbitrary_int::*;\n'
    if label in ('src:is_int_size_regular_type', 'src:try_parse_arbitrary_int_type'):
        for n in ns:
            if not 1 <= n <= 128:
                continue
            attr = '#[bits(0..=%d, rw)]' % (n - 1) if n > 1 else '#[bit(0, rw)]'
            decl = '#[bitbybit::bitfield(u128)]\npub struct P {\n    %s\n    f: %s,\n}\n' % (attr, _uty(n))
            chk = 'const _: () = assert!(P::new_with_raw_value(u128::MAX).f()%s as u128 == %s);\n' % (
                '' if n in (8, 16, 32, 64, 128) else '.value()', _umax(n))
            out.append({'what': 'a field of type u%d over bits 0..=%d of a u128 bitfield is valid and reads all ones from u128::MAX' % (n, n - 1),
                        'lib': hdr + decl + chk, 'expect_accept': True})
    elif label == 'src:BaseDataSize::new':
        for n in ns:
            if not 1 <= n <= 128:
                continue
            decl = '#[bitbybit::bitfield(u%d)]\npub struct P {\n    #[bit(0, rw)]\n    f: bool,\n}\n' % n
            chk = ('const _: () = assert!(core::mem::size_of::<P>() * 8 == %d);\n'
                   'const _: %s = P::new_with_raw_value(%s).raw_value();\n' % (_storage(n), _uty(n), _uval(n, (1 << n) - 1)))
            out.append({'what': 'a bitfield over u%d is valid, occupies %d bits and round-trips the all-ones raw value' % (n, _storage(n)),
                        'lib': hdr + decl + chk, 'expect_accept': True})
    elif label in ('src:Bits::base_type', 'src:Bits::is_arbitrary_int'):
        for n in [0] + ns:
            if n > 127:
                continue
            decl = '#[bitbybit::bitenum(u%d)]\n#[derive(Debug, PartialEq)]\npub enum E {\n    A = 0,\n    B = 1,\n}\n' % n
            ok = 1 <= n <= 64
            chk = ''
            if ok:
                chk = ('const _: %s = E::B.raw_value();\n'
                       'const _: () = assert!(matches!(E::new_with_raw_value(%s), %s));\n' % (
                           _uty(n), '1' if n in (8, 16, 32, 64) else 'arbitrary_int::u%d::new(1)' % n,
                           'E::B' if n == 1 else 'Ok(E::B)'))
                if n == 1:
                    decl = decl.replace('bitenum(u1)', 'bitenum(u1, exhaustive = true)')
            out.append({'what': 'a bitenum over u%d is %s' % (n, 'valid, raw_value() is a u%d and 1 converts to B' % n if ok else 'rejected (1..=64 bits only)'),
                        'lib': hdr + decl + chk, 'expect_accept': ok})
    elif label == 'src:parse_field checks':
        # the grid point reported by Coq: (W, [(start, end); ..], sz, count, stride, model verdict)
        m = re.search(r'Some \((\d+), \[(.*?)\], (None|Some \d+), (None|Some \d+), (None|Some \d+), (true|false)\)', first_diff or '')
        if m:
            W = int(m.group(1))
            rs = [(int(a), int(b)) for a, b in re.findall(r'\((\d+), (\d+)\)', m.group(2))]
            opt = lambda t: None if t == 'None' else int(t.split()[1])
            sz, count, stride, verdict = opt(m.group(3)), opt(m.group(4)), opt(m.group(5)), m.group(6) == 'true'
            if rs and sz is not None and (sz == 0 or 1 <= sz <= 128) and (count is not None or stride is None):
                ty = 'bool' if sz == 0 else 'u%d' % sz
                if count is not None:
                    ty = '[%s; %d]' % (ty, count)
                ent = ['%d..=%d' % (a, b - 1) for a, b in rs]
                if len(rs) == 1 and rs[0][1] - rs[0][0] == 1 and sz == 0:
                    attr = 'bit(%d, rw%s)' % (rs[0][0], ', stride = %d' % stride if stride is not None else '')
                else:
                    attr = 'bits(%s, rw%s)' % (ent[0] if len(rs) == 1 else '[' + ', '.join(ent) + ']',
                                               ', stride = %d' % stride if stride is not None else '')
                decl = '#[bitbybit::bitfield(u%d)]\npub struct P {\n    #[%s]\n    f: %s,\n}\n' % (W, attr, ty)
                out.append({'what': 'the declaration `#[bitfield(u%d)] struct P { #[%s] f: %s }` is %s by the layout rules' % (
                    W, attr, ty, 'valid' if verdict else 'rejected'), 'lib': hdr + decl, 'expect_accept': verdict})
    elif label == 'src:finished_argument':
        for attr, ty, use, ok in (
                ('bits(0..=3, w)', 'u4', 'pub fn t(p: P) -> u4 { p.f() }', False),
                ('bits(0..=3, r)', 'u4', 'pub fn t(p: P) -> P { p.with_f(u4::new(1)) }', False),
                ('bits(0..=3, r)', 'u4', 'pub fn t(mut p: P) { p.set_f(u4::new(1)) }', False),
                ('bits(0..=3)', 'u4', 'pub fn t(p: P) -> u4 { p.f() }', False),
                ('bits(0..=3, r)', 'u4', 'pub fn t(p: P) -> u4 { p.f() }', True),
                ('bits(0..=3, w)', 'u4', 'pub fn t(mut p: P) -> P { p.set_f(u4::new(1)); p.with_f(u4::new(2)) }', True),
                ('bits(0..=3, rw)', 'u4', 'pub fn t(p: P) -> u4 { p.with_f(u4::new(2)).f() }', True),
                ('bits(w, 0..=3)', 'u4', 'pub fn t(p: P) -> u4 { p.f() }', False),
                ('bits(stride = 8, 0..=3, rw)', '[u4; 2]', 'const _: () = assert!(P::new_with_raw_value(0x0300).f(1).value() == 3);', True),
                ('bits(0..=3, rw, stride = 8)', '[u4; 2]', 'const _: () = assert!(P::new_with_raw_value(0x0300).f(1).value() == 3);', True),
                ('bits(0..=3, rw)', '[u4; 2]', 'const _: () = assert!(P::new_with_raw_value(0x0030).f(1).value() == 3);', True),
                ('bits(4..=2, rw)', 'u4', '', False), ('bit(0..=3, rw)', 'u4', '', False), ('bits(3, rw)', 'bool', '', False),
                ('bit(3, rw)', 'bool', 'const _: () = assert!(P::new_with_raw_value(8).f());', True),
                ('bits(3..=3, rw)', 'u1', 'const _: () = assert!(P::new_with_raw_value(8).f().value() == 1);', True),
                ('bits(0..=3, 4..=7, rw)', 'u8', '', False), ('bits([0..=3], [4..=7], rw)', 'u8', '', False),
                ('bits([4..=7, 0..=3], rw)', 'u8', 'const _: () = assert!(P::new_with_raw_value(0x00a5).f() == 0x5a);', True),
                ('bits(0..=3, rw, stride = 4)', 'u4', '', False)):
            decl = '#[bitbybit::bitfield(u16)]\npub struct P {\n    #[%s]\n    f: %s,\n}\n%s\n' % (attr, ty, use)
            out.append({'what': 'a field declared #[%s] f: %s%s %s' % (attr, ty, ' used as `%s`' % use if use else '',
                                                                      'compiles' if ok else 'is rejected'),
                        'lib': hdr + decl, 'expect_accept': ok})
    elif label == 'src:ArgumentParser::take_*':
        for attr, ty, ok in (('bits(0..=3, rw)', 'u4', True), ('bit(0, r)', 'bool', True), ('bit(1, w)', 'bool', True),
                             ('bit(2)', 'bool', True), ('bits(0..=3, rw, stride = 4)', '[u4; 2]', True),
                             ('bits(0..=3, rw, stride: 4)', '[u4; 2]', True), ('bits(0..=3, stride = 4, rw)', '[u4; 2]', True),
                             ('bits([0..=1, 4..=5], rw)', 'u4', True), ('bits(0..3, rw)', 'u4', False), ('bits(0..=3, x)', 'u4', False),
                             ('bits(0..=3, rw rw)', 'u4', False), ('bits(0..=3, rw, stride 4)', '[u4; 2]', False),
                             ('bits(0..=3, rw, stride = = 4)', '[u4; 2]', False), ('bits(0..=3 4, rw)', 'u4', False),
                             ('bits(0.=3, rw)', 'u4', False), ('bits(= 0..=3, rw)', 'u4', False), ('bits(rw 0..=3)', 'u4', False)):
            decl = '#[bitbybit::bitfield(u16)]\npub struct P {\n    #[%s]\n    f: %s,\n}\n' % (attr, ty)
            out.append({'what': 'a field declared #[%s] f: %s is %s' % (attr, ty, 'valid' if ok else 'rejected'),
                        'lib': hdr + decl, 'expect_accept': ok})
    elif label == 'src:Exhaustive::matches':
        for kind, kw in (('ExTrue', 'true'), ('ExFalse', 'false'), ('ExConditional', 'conditional')):
            for full in (True, False):
                vs = 'A = 0,\n    B = 1,\n' if full else 'A = 0,\n'
                decl = '#[bitbybit::bitenum(u1, exhaustive = %s)]\npub enum E {\n    %s}\n' % (kw, vs)
                ok = (kind == 'ExConditional') or ((kind == 'ExTrue') == full)
                out.append({'what': 'a 1-bit enum with %s declared exhaustive = %s is %s' % (
                    'both values' if full else 'one value', kw, 'valid' if ok else 'rejected'),
                            'lib': hdr + decl, 'expect_accept': ok})
    return out
