(** * Surface.v — everything the macro emits around the accessor bodies: the struct item, the
      associated constants, the API surface (names, [pub], [const], docs, signatures), the
      [Default]/[Debug] impls, and the builder type-state chain (C06, C13–C15, C17–C19).

    [expected_*] is a model of what [bitfield/mod.rs] and [codegen.rs] emit for a declaration,
    written as data.  On every run the translator turns the *real* expansion of every corpus
    declaration into [extras]; [surface_obligations] compares the two inside Coq.  Theorems
    about the model ([C17_surface_exact], [C15_const_surface], ...) then speak about the real
    expansion of every sampled declaration. *)
From BB Require Import Bits Expr Spec Validate Enum Prog History Builder.
From Coq Require Import String DecimalString Ascii.
Open Scope string_scope.
Open Scope N_scope.

Definition nstr (n : N) : string := NilZero.string_of_uint (N.to_uint n).
Definition uname (n : N) : string := "u" ++ nstr n.

(** ** types as the macro prints them *)

Definition getter_ty (t : fty) : string :=
  match t with
  | FBool => "bool"
  | FU n => uname n
  | FI n => "i" ++ nstr n
  | FCustom name n opt => if opt then "Result<" ++ name ++ "," ++ uname (storage n) ++ ">" else name
  end.

Definition setter_ty (t : fty) : string :=
  match t with
  | FBool => "bool"
  | FU n => uname n
  | FI n => "i" ++ nstr n
  | FCustom name _ _ => name
  end.

(** ** function signatures *)

Record sig := mkSig {
  s_name : string; s_pub : bool; s_const : bool; s_doc : bool;
  s_self : string; s_params : list (string * string); s_ret : string
}.

Definition sig_of (f : fn_item) : sig :=
  mkSig (fn_name f) (fn_pub f) (fn_const f) (fn_doc f) (fn_self f) (fn_params f) (fn_ret f).

Definition pair_eqb (a b : string * string) : bool :=
  String.eqb (fst a) (fst b) && String.eqb (snd a) (snd b).

Definition sig_eqb (a b : sig) : bool :=
  String.eqb (s_name a) (s_name b) && Bool.eqb (s_pub a) (s_pub b) && Bool.eqb (s_const a) (s_const b)
  && Bool.eqb (s_doc a) (s_doc b) && String.eqb (s_self a) (s_self b)
  && list_eqb pair_eqb (s_params a) (s_params b) && String.eqb (s_ret a) (s_ret b).

Definition idx_param (f : field) : list (string * string) :=
  if is_array f then [("index", "usize")] else [].

Definition field_sigs (f : field) : list sig :=
  (if f_get f
   then [mkSig (f_name f) true true (f_doc f) "&" (idx_param f) (getter_ty (f_ty f))]
   else [])
  ++
  (if f_set f
   then [mkSig (with_name f) true true (f_doc f) "&" (idx_param f ++ [("field_value", setter_ty (f_ty f))]) "Self";
         mkSig (set_name f) true false (f_doc f) "&mut" (idx_param f ++ [("field_value", setter_ty (f_ty f))]) ""]
   else []).

Definition partial_name (d : decl) : string := "Partial" ++ d_name d.

Definition offered (d : decl) : bool := match builder_offered d with Some _ => true | None => false end.

Definition base_sigs (d : decl) : list sig :=
  (if has_default d then [mkSig "new" true true true "" [] "Self"] else [])
  ++ [mkSig "raw_value" true true true "&" [] (uname (d_W d));
      mkSig "new_with_raw_value" true true true "" [("value", uname (d_W d))] (d_name d)]
  ++ (if offered d then [mkSig "builder" true true true "" [] (partial_name d ++ "<0>")] else []).

Definition expected_sigs (d : decl) : list sig := base_sigs d ++ flat_map field_sigs (d_fields d).

(** ** associated constants *)

Inductive dval := DVLit (n : N) | DVIdent (s : string).

Inductive cinit :=
| CIZero (arb : option N)               (* Self::new_with_raw_value(0)  |  Self::new_with_raw_value(uW::new(0)) *)
| CIDefRaw (arb : option N) (v : dval)  (* <v>  |  uW::new(<v>) *)
| CIDefault                             (* Self::new_with_raw_value(Self::DEFAULT_RAW_VALUE) *)
| CIOther.

Record cst := mkCst { c_name : string; c_pub : bool; c_doc : bool; c_ty : string; c_init : cinit }.

Definition optN_eqb (a b : option N) : bool :=
  match a, b with Some x, Some y => x =? y | None, None => true | _, _ => false end.

Definition dval_eqb (a b : dval) : bool :=
  match a, b with
  | DVLit x, DVLit y => x =? y
  | DVIdent x, DVIdent y => String.eqb x y
  | _, _ => false
  end.

Definition cinit_eqb (a b : cinit) : bool :=
  match a, b with
  | CIZero x, CIZero y => optN_eqb x y
  | CIDefRaw x v, CIDefRaw y w => optN_eqb x y && dval_eqb v w
  | CIDefault, CIDefault => true
  | _, _ => false
  end.

Definition cst_eqb (a b : cst) : bool :=
  String.eqb (c_name a) (c_name b) && Bool.eqb (c_pub a) (c_pub b) && Bool.eqb (c_doc a) (c_doc b)
  && String.eqb (c_ty a) (c_ty b) && cinit_eqb (c_init a) (c_init b).

Definition arb_of (W : N) : option N := if is_native W then None else Some W.

Definition dval_of (df : default_form) : dval :=
  match df with DLit n => DVLit n | DConst name _ => DVIdent name end.

Definition default_value (df : default_form) : N :=
  match df with DLit n => n | DConst _ n => n end.

Definition expected_consts (d : decl) : list cst :=
  mkCst "ZERO" true true "Self" (CIZero (arb_of (d_W d)))
  :: match d_default d with
     | None => []
     | Some df =>
         [mkCst "DEFAULT_RAW_VALUE" false false (uname (d_W d)) (CIDefRaw (arb_of (d_W d)) (dval_of df));
          mkCst "DEFAULT" true true "Self" CIDefault]
     end.

(** ** shapes of the small non-accessor bodies *)

Inductive shape :=
| ShSelfDefault                               (* Self::DEFAULT *)
| ShBuilderDefault                            (* Partial(S::DEFAULT) *)
| ShBuilderZero (arb : option N)              (* Partial(S::new_with_raw_value(0))  |  const ZERO: uW = uW::new(0); Partial(S::new_with_raw_value(ZERO)) *)
| ShStep (calls : list (string * option N))   (* Partial(self.0.with_f(value))  |  Partial(self.0.with_f(0, value[0])...with_f(K-1, value[K-1])) *)
| ShBuild                                     (* self.0 *)
| ShDebug (name : string) (fields : list (string * string))
                                              (* f.debug_struct(stringify!(name)).field(stringify!(l), &self.g())....finish() *)
| ShOther.

Definition call_eqb (a b : string * option N) : bool :=
  String.eqb (fst a) (fst b) && optN_eqb (snd a) (snd b).

Definition shape_eqb (a b : shape) : bool :=
  match a, b with
  | ShSelfDefault, ShSelfDefault | ShBuilderDefault, ShBuilderDefault | ShBuild, ShBuild => true
  | ShBuilderZero x, ShBuilderZero y => optN_eqb x y
  | ShStep x, ShStep y => list_eqb call_eqb x y
  | ShDebug n x, ShDebug m y => String.eqb n m && list_eqb pair_eqb x y
  | _, _ => false
  end.

(** one [impl Partial<Name><in> { fn .. }] block *)
Record xstep := mkXStep { xs_in : N; xs_sig : sig; xs_out : option N; xs_shape : shape }.

Record extras := mkExtras {
  x_derive_copy_clone : bool;
  x_repr_c : bool;
  x_struct_doc : bool;
  x_consts : list cst;
  x_shapes : list (string * shape);            (* bodies of `new` and `builder` *)
  x_default_impl : option shape;               (* impl Default for S { fn default() -> Self { .. } } *)
  x_debug_impl : option shape;                 (* impl ::core::fmt::Debug for S { fn fmt(&self, f: &mut ::core::fmt::Formatter<'_>) -> ::core::fmt::Result { .. } } *)
  x_partial_struct : option (N * bool);        (* pub struct Partial<Name><const MASK: u{st}>(Name);  (st, has doc) *)
  x_steps : list xstep;
  x_other_items : list string;                 (* anything else at item level *)
  x_has_unsafe : bool;
  x_path_roots : list string
}.

Fixpoint lookup_shape (name : string) (l : list (string * shape)) : shape :=
  match l with
  | [] => ShOther
  | (n, s) :: l' => if String.eqb n name then s else lookup_shape name l'
  end.

(** ** the builder, as emitted *)

Definition step_calls (f : field) : list (string * option N) :=
  match f_count f with
  | None => [(with_name f, None)]
  | Some k => map (fun i => (with_name f, Some (N.of_nat i))) (seq 0 (N.to_nat k))
  end.

Definition step_arg_ty (f : field) : string :=
  match f_count f with
  | None => setter_ty (f_ty f)
  | Some k => "[" ++ setter_ty (f_ty f) ++ ";" ++ nstr k ++ "usize]"
  end.

Definition expected_step (s : bstep) : xstep :=
  let f := bs_field s in
  mkXStep (bs_in s)
          (mkSig (with_name f) true true (f_doc f) "&" [("value", step_arg_ty f)] "")
          (Some (bs_out s)) (ShStep (step_calls f)).

Definition expected_build (d : decl) (fin : N) : xstep :=
  mkXStep fin (mkSig "build" true true true "&" [] (d_name d)) None ShBuild.

Definition expected_steps (d : decl) : list xstep :=
  match builder_offered d with
  | Some steps => (map expected_step steps ++ [expected_build d (final_mask steps)])%list
  | None => []
  end.

Definition xstep_eqb (a b : xstep) : bool :=
  (xs_in a =? xs_in b) && sig_eqb (xs_sig a) (xs_sig b) && optN_eqb (xs_out a) (xs_out b)
  && shape_eqb (xs_shape a) (xs_shape b).

Definition expected_builder_init (d : decl) : shape :=
  if has_default d then ShBuilderDefault else ShBuilderZero (arb_of (d_W d)).

(** ** names the generated code may refer to (C18) *)

Definition is_prefix (p s : string) : bool := String.prefix p s.

Definition custom_names (d : decl) : list string :=
  flat_map (fun f => match f_ty f with FCustom name _ _ => [name] | _ => [] end) (d_fields d).

Definition default_idents (d : decl) : list string :=
  match d_default d with Some (DConst name _) => [name] | _ => [] end.

(** [::core], [arbitrary_int], language items, the prelude names the templates use, names the
    user supplied (the struct, its base type, field types, the default constant), and the
    templates' own locals *)
Definition allowed_root (d : decl) (r : string) : bool :=
  existsb (String.eqb r)
    (["::core"; "arbitrary_int"; "self"; "Self"; "bool"; "usize";
      "u8"; "u16"; "u32"; "u64"; "u128"; "i8"; "i16"; "i32"; "i64"; "i128";
      "Result"; "Ok"; "Err"; "Default"; "assert!"; "debug_assert!"; "unreachable!"; "stringify!";
      "index"; "field_value"; "value"; "effective_index"; "temp"; "extracted_bits"; "MASK"; "CLEAR_MASK";
      "ZERO"; "f"; d_name d; partial_name d; uname (d_W d)]
     ++ custom_names d ++ default_idents d
     ++ map (fun f => getter_ty (f_ty f)) (d_fields d)
     ++ map (fun f => setter_ty (f_ty f)) (d_fields d))%list.

(** ** obligations *)

Definition all_readable_scalar (d : decl) : bool :=
  forallb (fun f => f_get f && negb (is_array f)) (d_fields d).

Definition surface_obligations (d : decl) (p : program) (x : extras) : list (string * bool) :=
  [("struct", x_derive_copy_clone x && x_repr_c x && Bool.eqb (x_struct_doc x) (d_doc d));
   ("sigs", list_eqb sig_eqb (map sig_of (p_fns p)) (expected_sigs d));
   ("consts", list_eqb cst_eqb (x_consts x) (expected_consts d));
   ("new", if has_default d then shape_eqb (lookup_shape "new" (x_shapes x)) ShSelfDefault else true);
   ("default_impl", match x_default_impl x with
                    | Some s => has_default d && shape_eqb s ShSelfDefault
                    | None => negb (has_default d)
                    end);
   ("debug_impl", match x_debug_impl x with
                  | Some s => d_debug d
                              && shape_eqb s (ShDebug (d_name d) (map (fun f => (f_name f, f_name f)) (d_fields d)))
                  | None => negb (d_debug d)
                  end);
   ("builder_init", if offered d then shape_eqb (lookup_shape "builder" (x_shapes x)) (expected_builder_init d) else true);
   ("builder_struct", match x_partial_struct x with
                      | Some (st, doc) => offered d && (st =? storage (d_W d)) && doc
                      | None => negb (offered d)
                      end);
   ("builder_chain", list_eqb xstep_eqb (x_steps x) (expected_steps d));
   ("no_other_items", match x_other_items x with [] => true | _ => false end);
   ("no_unsafe", negb (x_has_unsafe x));
   ("paths", forallb (allowed_root d) (x_path_roots x))].

(** ** C17: access specifiers decide the API surface *)

Theorem C17_field_surface_exact f :
  map s_name (field_sigs f) =
  ((if f_get f then [f_name f] else []) ++ (if f_set f then [with_name f; set_name f] else []))%list.
Proof. unfold field_sigs. destruct (f_get f), (f_set f); reflexivity. Qed.

Theorem C17_surface_exact d :
  map s_name (expected_sigs d) =
  (map s_name (base_sigs d) ++
   flat_map (fun f => (if f_get f then [f_name f] else []) ++
                      (if f_set f then [with_name f; set_name f] else [])) (d_fields d))%list.
Proof.
  unfold expected_sigs. rewrite map_app. f_equal.
  induction (d_fields d) as [|f fs IH]; [reflexivity|].
  cbn [flat_map]. rewrite map_app, IH, C17_field_surface_exact. reflexivity.
Qed.

(** the only generated methods taking [&mut self] are the [set_] of writable fields; the only
    ones that return a new bitfield are [with_] of writable fields and the constructors *)
Theorem C17_mutators_are_writable_fields d s :
  In s (expected_sigs d) -> s_self s = "&mut" ->
  exists f, In f (d_fields d) /\ f_set f = true /\ s_name s = set_name f.
Proof.
  unfold expected_sigs. rewrite in_app_iff. intros [Hb|Hf] Hs.
  - unfold base_sigs in Hb. rewrite !in_app_iff in Hb.
    destruct Hb as [Hb|[Hb|Hb]].
    + destruct (has_default d); [|destruct Hb]. destruct Hb as [<-|[]]. discriminate.
    + destruct Hb as [<-|[<-|[]]]; discriminate.
    + destruct (offered d); [|destruct Hb]. destruct Hb as [<-|[]]. discriminate.
  - apply in_flat_map in Hf. destruct Hf as (f & Hin & Hf). exists f. split; [exact Hin|].
    unfold field_sigs in Hf. rewrite in_app_iff in Hf. destruct Hf as [Hf|Hf].
    + destruct (f_get f); [|destruct Hf]. destruct Hf as [<-|[]]. discriminate.
    + destruct (f_set f); [|destruct Hf]. destruct Hf as [<-|[<-|[]]]; [discriminate|auto].
Qed.

(** writing through any other field leaves a field's bits alone unless the two overlap *)
Theorem C17_other_writers_do_not_touch f i g j v x :
  (forall k, covers (elem_ranges f i) k = true -> covers (elem_ranges g j) k = false) ->
  spec_get f i (spec_set g j v x) = spec_get f i x.
Proof.
  intros H. unfold spec_get, spec_set. apply gather_ext. intros k C. apply scatter_frame. now apply H.
Qed.

(** ** C15: everything but [set_] is [const] *)

Theorem C15_const_surface d s :
  In s (expected_sigs d) -> s_const s = false ->
  exists f, In f (d_fields d) /\ f_set f = true /\ s_name s = set_name f.
Proof.
  unfold expected_sigs. rewrite in_app_iff. intros [Hb|Hf] Hs.
  - unfold base_sigs in Hb. rewrite !in_app_iff in Hb.
    destruct Hb as [Hb|[Hb|Hb]].
    + destruct (has_default d); [|destruct Hb]. destruct Hb as [<-|[]]. discriminate.
    + destruct Hb as [<-|[<-|[]]]; discriminate.
    + destruct (offered d); [|destruct Hb]. destruct Hb as [<-|[]]. discriminate.
  - apply in_flat_map in Hf. destruct Hf as (f & Hin & Hf). exists f. split; [exact Hin|].
    unfold field_sigs in Hf. rewrite in_app_iff in Hf. destruct Hf as [Hf|Hf].
    + destruct (f_get f); [|destruct Hf]. destruct Hf as [<-|[]]. discriminate.
    + destruct (f_set f); [|destruct Hf]. destruct Hf as [<-|[<-|[]]]; [discriminate|auto].
Qed.

Theorem C15_builder_steps_const d st :
  In st (expected_steps d) -> s_const (xs_sig st) = true /\ s_pub (xs_sig st) = true.
Proof.
  unfold expected_steps. destruct (builder_offered d) as [steps|]; [|intros []].
  rewrite in_app_iff. intros [H|[<-|[]]]; [|split; reflexivity].
  apply in_map_iff in H. destruct H as (s & <- & _). split; reflexivity.
Qed.

(** ** C18: documentation — every public item the model emits carries a doc attribute when the
    user documented the struct and its fields *)

Theorem C18_docs d s :
  (forall f, In f (d_fields d) -> f_doc f = true) ->
  In s (expected_sigs d) -> s_pub s = true -> s_doc s = true.
Proof.
  intros Hd. unfold expected_sigs. rewrite in_app_iff. intros [Hb|Hf] _.
  - unfold base_sigs in Hb. rewrite !in_app_iff in Hb.
    destruct Hb as [Hb|[Hb|Hb]].
    + destruct (has_default d); [|destruct Hb]. now destruct Hb as [<-|[]].
    + now destruct Hb as [<-|[<-|[]]].
    + destruct (offered d); [|destruct Hb]. now destruct Hb as [<-|[]].
  - apply in_flat_map in Hf. destruct Hf as (f & Hin & Hf). specialize (Hd f Hin).
    unfold field_sigs in Hf. rewrite in_app_iff in Hf. destruct Hf as [Hf|Hf].
    + destruct (f_get f); [|destruct Hf]. now destruct Hf as [<-|[]].
    + destruct (f_set f); [|destruct Hf]. now destruct Hf as [<-|[<-|[]]].
Qed.

Theorem C18_docs_builder d st :
  (forall f, In f (d_fields d) -> f_doc f = true) ->
  In st (expected_steps d) -> s_doc (xs_sig st) = true.
Proof.
  intros Hd. unfold expected_steps. destruct (builder_offered d) as [steps|] eqn:E; [|intros []].
  rewrite in_app_iff. intros [H|[<-|[]]]; [|reflexivity].
  apply in_map_iff in H. destruct H as (s & <- & Hs). cbn. apply Hd.
  (* every step's field is a field of the declaration *)
  unfold builder_offered in E. destruct (chain (d_fields d) 0) as [st'|] eqn:Ec; [|discriminate].
  destruct (has_default d || complete (d_W d) (final_mask st')); [|discriminate]. injection E as <-.
  clear Hd. revert Ec Hs. generalize 0. generalize st'. clear st'.
  induction (d_fields d) as [|f fs IH]; cbn [chain]; intros st' r Ec Hs.
  - injection Ec as <-. destruct Hs.
  - destruct (f_set f).
    + destruct (field_mask f) as [fm|]; [|discriminate]. destruct (N.land r fm =? 0); [|discriminate].
      destruct (chain fs (N.lor r fm)) as [st2|] eqn:E2; [|discriminate]. cbn in Ec. injection Ec as <-.
      destruct Hs as [<-|Hs]; [now left|]. right. now apply (IH st2 (N.lor r fm)).
    + right. now apply (IH st' r).
Qed.

(** ** C13: the builder is the chain of [with_] calls from the default *)

(** the calls one step performs, on the inner bitfield, given the step's argument
    (one value per element; a singleton for a scalar field) *)
Definition step_hops (s : bstep) (vs : list N) : list hop :=
  map (fun iv => mkH HWith (bs_field s) (N.of_nat (fst iv)) (snd iv))
      (combine (seq 0 (N.to_nat (count (bs_field s)))) vs).

Fixpoint builder_hops (steps : list bstep) (args : list (list N)) : list hop :=
  match steps, args with
  | s :: steps', vs :: args' => (step_hops s vs ++ builder_hops steps' args')%list
  | _, _ => []
  end.

(** [builder().with_a(x)....build()] on the real bodies: exactly the abstract register written
    field by field starting from the default (or zero), in both profiles, without panic *)
Theorem C13_builder_is_with_chain c d p steps args init :
  setters_ok d p -> Forall (hop_ok d) (builder_hops steps args) -> init < 2 ^ d_W d ->
  real_run c d p init (builder_hops steps args)
  = Ok (run (map hop_wop (builder_hops steps args)) init).
Proof. intros S H Hi. now destruct (real_history c d p _ init S H Hi). Qed.

(** everything one run discharges for one declaration *)
Definition all_obligations_of (d : decl) (p : program) (x : extras) : list (string * bool) :=
  (obligations d p ++ map (fun ob => (("surface:" ++ fst ob)%string, snd ob)) (surface_obligations d p x))%list.

Lemma all_obligations_setters_ok d p x :
  forallb snd (all_obligations_of d p x) = true -> setters_ok d p.
Proof.
  unfold all_obligations_of. rewrite forallb_app. intros H. apply andb_prop in H.
  apply obligations_setters_ok. tauto.
Qed.

(** ** C13 per program: what the translated builder steps *do*

    A step body of shape [ShStep calls] is [Partial(self.0.m1(a1).m2(a2)...)]: it calls the listed methods on the
    inner bitfield, in order, with [value] (scalar) or [value[i]] (array).  [shape_hops] turns that into operations of
    History.v by looking the method names up among the declaration's [with_] names.  When the run's obligation
    [builder_chain] holds, these are exactly [builder_hops] of the model chain — so the real builder is the fold of
    the real [with_] bodies (theorem [C13_builder_is_with_chain]) and, through the setter obligations, of [spec_set]. *)

Fixpoint field_by_with_name (name : string) (fs : list field) : option field :=
  match fs with
  | [] => None
  | f :: fs' => if f_set f && String.eqb (with_name f) name then Some f else field_by_with_name name fs'
  end.

Fixpoint calls_hops (d : decl) (calls : list (string * option N)) (vs : list N) : option (list hop) :=
  match calls, vs with
  | [], [] => Some []
  | (name, idx) :: calls', v :: vs' =>
      match field_by_with_name name (d_fields d), calls_hops d calls' vs' with
      | Some f, Some hs => Some (mkH HWith f (match idx with Some i => i | None => 0 end) v :: hs)
      | _, _ => None
      end
  | _, _ => None
  end.

Definition shape_hops (d : decl) (sh : shape) (vs : list N) : option (list hop) :=
  match sh with ShStep calls => calls_hops d calls vs | _ => None end.

(** distinct writable fields have distinct [with_] names (otherwise rustc rejects the duplicate method) *)
Definition with_names_distinct (d : decl) : Prop :=
  NoDup (map with_name (filter f_set (d_fields d))).

Lemma field_by_with_name_found fs f :
  NoDup (map with_name (filter f_set fs)) -> In f fs -> f_set f = true ->
  field_by_with_name (with_name f) fs = Some f.
Proof.
  induction fs as [|g fs IH]; intros ND Hin Hs; [destruct Hin|]. cbn [field_by_with_name filter map] in *.
  destruct Hin as [->|Hin].
  - now rewrite Hs, String.eqb_refl.
  - destruct (f_set g) eqn:Eg; cbn [andb].
    + cbn [map] in ND. apply NoDup_cons_iff in ND. destruct ND as [Hn ND].
      destruct (String.eqb_spec (with_name g) (with_name f)) as [E|_]; [|now apply IH].
      exfalso. apply Hn. rewrite E. apply in_map. apply filter_In. auto.
    + now apply IH.
Qed.

Lemma step_calls_hops d f vs :
  with_names_distinct d -> In f (d_fields d) -> f_set f = true ->
  List.length vs = N.to_nat (count f) ->
  calls_hops d (step_calls f) vs
  = Some (map (fun iv => mkH HWith f (N.of_nat (fst iv)) (snd iv)) (combine (seq 0 (N.to_nat (count f))) vs)).
Proof.
  intros ND Hin Hs Hlen. unfold step_calls, count in *. destruct (f_count f) as [k|].
  - (* array: calls (with_f, Some i) for i = 0 .. k-1 *)
    generalize dependent vs. generalize 0%nat as st. induction (N.to_nat k) as [|m IH]; intros st vs Hlen.
    + destruct vs; [reflexivity|discriminate].
    + destruct vs as [|v vs]; [discriminate|]. cbn [seq map calls_hops combine fst snd].
      rewrite (field_by_with_name_found _ f ND Hin Hs). rewrite (IH (S st) vs) by (cbn in Hlen; lia). reflexivity.
  - destruct vs as [|v [|v' vs]]; try discriminate. cbn [calls_hops seq combine map fst snd N.to_nat Pos.to_nat Pos.iter_op].
    rewrite (field_by_with_name_found _ f ND Hin Hs). reflexivity.
Qed.

(** the step the model expects for field [f] performs exactly [step_hops] *)
Theorem expected_step_semantics d s vs :
  with_names_distinct d -> In (bs_field s) (d_fields d) -> f_set (bs_field s) = true ->
  List.length vs = N.to_nat (count (bs_field s)) ->
  shape_hops d (xs_shape (expected_step s)) vs = Some (step_hops s vs).
Proof. intros ND Hin Hs Hl. cbn [expected_step xs_shape shape_hops]. now apply step_calls_hops. Qed.

(** ** C06: what the associated constants evaluate to

    [cinit_value] is the model of const evaluation for the four initialiser shapes; [uN::new(v)] fails (a compile
    error in const context) when [v] does not fit.  With the constants the model expects, [ZERO] is 0 and
    [DEFAULT] — hence [new()] and [Default::default()], whose bodies are [Self::DEFAULT] — carry exactly the
    declared value, including bits no field covers. *)
Definition dval_value (d : decl) (v : dval) : option N :=
  match v with
  | DVLit n => Some n
  | DVIdent s => match d_default d with Some (DConst name n) => if String.eqb s name then Some n else None | _ => None end
  end.

Definition arb_new (arb : option N) (W : N) (v : N) : option N :=
  match arb with
  | None => if v <? 2 ^ W then Some v else None          (* a literal / constant of the native type *)
  | Some n => if (n =? W) && (v <? 2 ^ n) then Some v else None   (* uN::new(v) asserts v <= MAX *)
  end.

Definition cinit_value (d : decl) (c : cinit) : option N :=
  match c with
  | CIZero arb => arb_new arb (d_W d) 0
  | CIDefRaw arb v => match dval_value d v with Some n => arb_new arb (d_W d) n | None => None end
  | CIDefault =>
      match d_default d with
      | Some df => arb_new (arb_of (d_W d)) (d_W d) (default_value df)
      | None => None
      end
  | CIOther => None
  end.

Lemma arb_new_ok W v : v < 2 ^ W -> arb_new (arb_of W) W v = Some v.
Proof.
  intros Hv. unfold arb_new, arb_of. destruct (is_native W).
  - destruct (N.ltb_spec v (2 ^ W)); [reflexivity|lia].
  - rewrite N.eqb_refl. destruct (N.ltb_spec v (2 ^ W)); [reflexivity|lia].
Qed.

Theorem C06_constants_carry_the_declared_value d :
  (match d_default d with Some df => default_value df < 2 ^ d_W d | None => True end) ->
  forall c, In c (expected_consts d) ->
  cinit_value d (c_init c) =
  Some (if String.eqb (c_name c) "ZERO" then 0
        else match d_default d with Some df => default_value df | None => 0 end).
Proof.
  intros Hv c Hc. unfold expected_consts in Hc. destruct Hc as [<-|Hc].
  - cbn [c_init c_name cinit_value String.eqb Ascii.eqb Bool.eqb]. apply arb_new_ok. apply pow2_pos.
  - destruct (d_default d) as [df|] eqn:Ed; [|destruct Hc].
    destruct Hc as [<-|[<-|[]]]; cbn [c_init c_name cinit_value String.eqb Ascii.eqb Bool.eqb].
    + unfold dval_value, dval_of. rewrite Ed. destruct df as [n|name n]; cbn [default_value] in *.
      * now apply arb_new_ok.
      * rewrite String.eqb_refl. now apply arb_new_ok.
    + rewrite Ed. now apply arb_new_ok.
Qed.
