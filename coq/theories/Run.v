(** * Run.v — executing operation sequences on a translated program and on the specification.

    Used by the behavioural correspondence: the same case files are run (1) by the compiled
    real code in the dev and release profiles, (2) by [eval] on the translated expansion in
    checked and unchecked mode, (3) by the abstract register of Spec.v.  All three must agree.
    This validates what the reflective proofs trust: the hand-written semantics ([Expr.v]) and
    the translator. It is differential testing, not a proof. *)
From BB Require Import Bits Expr Sym Spec Validate Prog.
Open Scope N_scope.

Inductive op :=
| OpGet (f : string) (i : N)
| OpWith (f : string) (i v : N)
| OpSet (f : string) (i v : N)
| OpBuild (args : list N)       (* builder().with_..(..)....build(): one value per element of every writable field, in order *)
| OpRaw
| OpStore.                      (* the storage integer itself, not raw_value(): reveals state above bit N-1 of an arbitrary-int base *)

(** outputs: a bit pattern, or -1 (panic), -2 (stuck: outside the fragment), -3 (no such accessor) *)
Definition zpanic : Z := (-1)%Z.
Definition zstuck : Z := (-2)%Z.
Definition zmissing : Z := (-3)%Z.

Fixpoint encode (v : value) : Z :=
  match v with
  | VInt _ x => Z.of_N x
  | VBool b => if b then 1%Z else 0%Z
  | VCustom _ r => encode r
  end.

Definition out_of (r : res value) : Z :=
  match r with Ok v => encode v | Panic => zpanic | Stuck => zstuck end.

(** the writes a complete builder chain performs *)
Fixpoint plan (fs : list field) (args : list N) : list (field * N * N) :=
  match fs with
  | [] => []
  | f :: fs' =>
      if f_set f then
        let k := N.to_nat (count f) in
        (map (fun iv => (f, N.of_nat (fst iv), snd iv)) (combine (seq 0 k) (firstn k args))
         ++ plan fs' (skipn k args))%list
      else plan fs' args
  end.

Definition init_value (d : decl) : N :=
  match d_default d with Some (DLit n) | Some (DConst _ n) => n | None => 0 end.

Fixpoint find_field (name : string) (l : list field) : option field :=
  match l with
  | [] => None
  | f :: l' => if String.eqb (f_name f) name then Some f else find_field name l'
  end.

Section Exec.
Variable checked : bool.
Variable d : decl.
Variable p : program.

Let W := d_W d.

Definition body_expr (b : body) : option expr :=
  match b with BValue e | BStruct e | BSet e => Some e | BOther _ => None end.

Definition call (name : string) (raw i : N) (arg : value) : res value :=
  match find_fn name (p_fns p) with
  | Some fn => match body_expr (fn_body fn) with
               | Some e => eval checked (mkEnv (p_storage p) raw i arg []) e
               | None => Stuck
               end
  | None => Stuck
  end.

Definition do_raw (raw : N) : Z := out_of (call "raw_value"%string raw 0 (VBool false)).

(** one step: new state and output *)
Definition step (raw : N) (o : op) : N * Z :=
  match o with
  | OpRaw => (raw, do_raw raw)
  | OpStore => (raw, Z.of_N raw)
  | OpGet fname i =>
      (raw, out_of (call fname raw i (VBool false)))
  | OpWith fname i v =>
      match find_field fname (d_fields d) with
      | Some f =>
          match call (with_name f) raw i (present (f_ty f) v) with
          | Ok (VInt _ raw') => (raw', do_raw raw')
          | Ok _ => (raw, zstuck)
          | Panic => (raw, zpanic)
          | Stuck => (raw, zstuck)
          end
      | None => (raw, zmissing)
      end
  | OpBuild args =>
      let go := fix go (pl : list (field * N * N)) (x : N) : res N :=
        match pl with
        | [] => Ok x
        | (f, i, v) :: pl' =>
            match call (with_name f) x i (present (f_ty f) v) with
            | Ok (VInt _ x') => go pl' x'
            | Ok _ => Stuck
            | Panic => Panic
            | Stuck => Stuck
            end
        end in
      match go (plan (d_fields d) args) (init_value d) with
      | Ok raw' => (raw', do_raw raw')
      | Panic => (raw, zpanic)
      | Stuck => (raw, zstuck)
      end
  | OpSet fname i v =>
      match find_field fname (d_fields d) with
      | Some f =>
          match call (set_name f) raw i (present (f_ty f) v) with
          | Ok (VInt _ raw') => (raw', do_raw raw')
          | Ok _ => (raw, zstuck)
          | Panic => (raw, zpanic)
          | Stuck => (raw, zstuck)
          end
      | None => (raw, zmissing)
      end
  end.

Fixpoint run_ops (raw : N) (ops : list op) : list Z :=
  match ops with
  | [] => []
  | o :: ops' => let '(raw', z) := step raw o in z :: run_ops raw' ops'
  end.

(** a scenario starts with [new_with_raw_value(r0)] *)
Definition run_scenario (r0 : N) (ops : list op) : list Z :=
  match call "new_with_raw_value"%string 0 0 (VInt (base_ty W) r0) with
  | Ok (VInt _ raw) => run_ops raw ops
  | _ => [zstuck]
  end.
End Exec.

(** the same on the abstract register *)
Section SpecExec.
Variable d : decl.

Definition spec_step (x : N) (o : op) : N * Z :=
  match o with
  | OpRaw | OpStore => (x, Z.of_N x)
  | OpGet fname i =>
      match find_field fname (d_fields d) with
      | Some f => if i <? count f then (x, Z.of_N (spec_get f i x)) else (x, zpanic)
      | None => (x, zmissing)
      end
  | OpWith fname i v | OpSet fname i v =>
      match find_field fname (d_fields d) with
      | Some f => if i <? count f then let x' := spec_set f i v x in (x', Z.of_N x') else (x, zpanic)
      | None => (x, zmissing)
      end
  | OpBuild args =>
      let x' := fold_left (fun y '(f, i, v) => spec_set f i v y) (plan (d_fields d) args) (init_value d) in
      (x', Z.of_N x')
  end.

Fixpoint spec_run (x : N) (ops : list op) : list Z :=
  match ops with
  | [] => []
  | o :: ops' => let '(x', z) := spec_step x o in z :: spec_run x' ops'
  end.
End SpecExec.

(** three runs side by side: checked, unchecked, specification *)
Definition run3 (d : decl) (p : program) (r0 : N) (ops : list op) : list Z * list Z * list Z :=
  (run_scenario true d p r0 ops, run_scenario false d p r0 ops, spec_run d r0 ops).
