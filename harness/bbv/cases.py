"""Inputs, operation sequences and histories for the behavioural correspondence (seeded)."""
import random
from .decls import *

USIZE_MAX = (1 << 64) - 1


def enum_valid_values(ed):
    """discriminants of variants that exist after cfg-stripping"""
    return [v['discr'] for v in ed['variants'] if v.get('cfg') != 'any']


def raws_for(rng, W, field=None, k_random=2):
    m = (1 << W) - 1
    aa = int('AA' * 16, 16) & m
    out = [0, m, aa, m ^ aa]
    for _ in range(k_random):
        out.append(rng.getrandbits(W))
    if field is not None:
        for i in range(min(fcount(field), 2)):
            for lo, n in elem_ranges(field, i):
                for b in (lo - 1, lo, lo + n - 1, lo + n):
                    if 0 <= b < W:
                        out.append(1 << b)
                        out.append(m ^ (1 << b))
    seen = []
    for x in out:
        if x not in seen:
            seen.append(x)
    return seen


def values_for(rng, f, by_name, k_random=2):
    t = f['ty']
    n = ty_width(t)
    m = (1 << n) - 1
    if t['k'] == 'custom' and by_name.get(t['name'], {}).get('kind') == 'enum':
        vals = enum_valid_values(by_name[t['name']])
        rng2 = list(vals)
        rng.shuffle(rng2)
        return rng2[:5]
    out = [0, 1 & m, m, 1 << (n - 1), m >> 1]
    for _ in range(k_random):
        out.append(rng.getrandbits(n))
    seen = []
    for x in out:
        if x not in seen:
            seen.append(x)
    return seen


def indices_for(rng, f):
    K = fcount(f)
    if K <= 6:
        return list(range(K))
    return sorted(set([0, 1, K - 1, K - 2] + [rng.randrange(K) for _ in range(3)]))


def oob_indices(f):
    K = fcount(f)
    out = [K, K + 1, 2 * K, USIZE_MAX]
    s = fstride(f)
    if s >= 2:
        # an index whose product with the stride wraps around 2^64 to a small number
        out.append(-(-(1 << 64) // s))
        out.append(1 << 63)
    return out


def writable_ok(f):
    """writes through a range list that names a bit twice are outside every guarantee (C04)"""
    return 'w' in f['acc'] and nodup(ranges(f))


def gen_cases(d, by_name, rng, tier, has_builder=False):
    """-> list of scenarios (r0, [op]); op = ('G',f,i) | ('W',f,i,v) | ('S',f,i,v) | ('R',) | ('B',args) | ('I',)"""
    scen = gen_cases_(d, by_name, rng, tier, has_builder)
    if d['base'] not in NATIVE:
        # an arbitrary-int base is stored in a wider integer: after writing, look at the storage itself (state above bit N-1
        # is invisible to raw_value() and to every getter)
        scen = [(r0, ops + [('I',)]) if any(o[0] in 'WSB' for o in ops) else (r0, ops) for r0, ops in scen]
    return scen


def gen_cases_(d, by_name, rng, tier, has_builder=False):
    W = d['base']
    scen = []
    quick = tier == 'quick'
    if d.get('light'):
        # many-field declarations whose point is the per-accessor proof obligation: a thin behavioural sample
        m = (1 << W) - 1
        for f in d['fields']:
            lo, n = ranges(f)[0]
            fm = ((1 << n) - 1) << lo
            if 'r' in f['acc']:
                scen.append((fm, [('G', f['name'], 0)]))
                scen.append((m ^ fm, [('G', f['name'], 0)]))
            if 'w' in f['acc']:
                vals = values_for(rng, f, by_name)      # for an enum-typed field: discriminants that exist
                v_lo, v_hi = (0, (1 << n) - 1) if f['ty']['k'] != 'custom' else (min(vals), max(vals))
                scen.append((m, [('W', f['name'], 0, v_lo), ('R',)]))
                scen.append((0, [('S', f['name'], 0, v_hi), ('R',)]))
        return scen
    exhaustive_get = W <= (5 if quick else 7)
    exhaustive_set = W <= (3 if quick else 4)
    for f in d['fields']:
        is_arr = f.get('count') is not None
        idxs = indices_for(rng, f)
        if 'r' in f['acc']:
            raws = list(range(1 << W)) if exhaustive_get else raws_for(rng, W, f)
            for r in raws:
                scen.append((r, [('G', f['name'], i) for i in idxs]))
            if is_arr:
                scen.append((rng.getrandbits(W), [('G', f['name'], i) for i in oob_indices(f)]))
        if writable_ok(f):
            vals = values_for(rng, f, by_name)
            if exhaustive_set and not (f['ty']['k'] == 'custom'):
                vals = list(range(1 << ty_width(f['ty'])))
            raws = list(range(1 << W)) if exhaustive_set else raws_for(rng, W, f, k_random=1)[:(6 if quick else 24)]
            for r in raws:
                ops = []
                for i in idxs:
                    for v in vals:
                        # with_ does not change the receiver: each op starts from the same state, so use one scenario per op
                        ops.append(('W', f['name'], i, v))
                # every W in one scenario would chain; keep chains short but also test from a fixed state:
                for o in ops:
                    tail = [('G', f['name'], o[2])] if 'r' in f['acc'] else []
                    scen.append((r, [o] + tail))
                for o in ops[:len(ops) if exhaustive_set else 4]:
                    scen.append((r, [('S',) + o[1:]]))
            if is_arr:
                v0 = vals[0]
                scen.append((rng.getrandbits(W), [(k, f['name'], i, v0) for i in oob_indices(f) for k in ('W', 'S')] + [('R',)]))
    # histories
    writable = [f for f in d['fields'] if writable_ok(f)]
    readable = [f for f in d['fields'] if 'r' in f['acc']]
    # builder chains (only offered when no bit is writable twice, so every writable field is duplicate-free)
    if has_builder:
        for _ in range(4 if quick else 20):
            args = []
            for f in d['fields']:
                if 'w' in f['acc']:
                    vals = values_for(rng, f, by_name, k_random=3)
                    args += [rng.choice(vals) for _ in range(fcount(f))]
            ops = [('B', args)]
            for f in readable:
                for i in indices_for(rng, f):
                    ops.append(('G', f['name'], i))
            ops.append(('R',))
            scen.append((rng.getrandbits(W), ops))
    if writable:
        nh = 3 if quick else 4
        for _ in range(nh):
            L = rng.choice([4, 16, 64]) if quick else rng.choice([16, 64, 256, 512])
            ops = []
            for _ in range(L):
                c = rng.random()
                if c < 0.65:
                    f = rng.choice(writable)
                    vals = values_for(rng, f, by_name, k_random=4)
                    ops.append((rng.choice('WS'), f['name'], rng.randrange(fcount(f)), rng.choice(vals)))
                elif c < 0.9 and readable:
                    f = rng.choice(readable)
                    ops.append(('G', f['name'], rng.randrange(fcount(f))))
                else:
                    ops.append(('R',))
            for f in readable:
                ops.append(('G', f['name'], rng.randrange(fcount(f))))
            ops.append(('R',))
            scen.append((rng.getrandbits(W), ops))
    return scen


def coq_op(o):
    if o[0] == 'G':
        return '(OpGet %s %d)' % (cstr(o[1]), o[2])
    if o[0] == 'W':
        return '(OpWith %s %d %d)' % (cstr(o[1]), o[2], o[3])
    if o[0] == 'S':
        return '(OpSet %s %d %d)' % (cstr(o[1]), o[2], o[3])
    if o[0] == 'B':
        return '(OpBuild [%s])' % '; '.join(str(x) for x in o[1])
    if o[0] == 'I':
        return 'OpStore'
    return 'OpRaw'


def gen_field_cases(d, f, kind, by_name, rng, n_random=300):
    """directed search inputs for one accessor (kind in get/with/set) of field f"""
    W = d['base']
    n = ty_width(f['ty'])
    idxs = list(range(min(fcount(f), 16)))
    scen = []
    if kind == 'get':
        raws = list(range(1 << W)) if W <= 12 else raws_for(rng, W, f, k_random=n_random)
        for r in raws:
            scen.append((r, [('G', f['name'], i) for i in idxs]))
    else:
        opk = 'W' if kind == 'with' else 'S'
        is_enum = f['ty']['k'] == 'custom' and by_name.get(f['ty']['name'], {}).get('kind') == 'enum'
        if W + n <= 14 and not is_enum:
            raws = list(range(1 << W))
            vals = list(range(1 << n))
        else:
            raws = raws_for(rng, W, f, k_random=20)
            vals = values_for(rng, f, by_name, k_random=8)
        for r in raws:
            for i in idxs:
                for v in vals:
                    tail = [('G', f['name'], i)] if 'r' in f['acc'] else []
                    scen.append((r, [(opk, f['name'], i, v)] + tail))
        # two writes in a row, then every observation: state that one write hides and the next reveals
        m = (1 << n) - 1
        if not is_enum:
            pairs = [(m, 0), (m, 1), (m >> 1, 1 << (n - 1)), (int('AA' * 16, 16) & m, int('55' * 16, 16) & m)]
        else:
            pairs = [(a, b) for a in vals[:3] for b in vals[:3] if a != b]
        for r in raws[:6]:
            for i in idxs[:4]:
                for v1, v2 in pairs:
                    ops = [(opk, f['name'], i, v1), (opk, f['name'], i, v2)]
                    ops += [('G', g['name'], j) for g in d['fields'] if 'r' in g['acc'] for j in range(min(fcount(g), 3))]
                    ops.append(('R',))
                    scen.append((r, ops))
    if d['base'] not in NATIVE:
        scen = [(r0, ops + [('I',)]) if any(o[0] in 'WS' for o in ops) else (r0, ops) for r0, ops in scen]
    return scen
