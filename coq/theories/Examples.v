(** * Examples.v — the hypotheses of the property theorems are satisfiable: concrete, non-trivial
      declarations (README-style layouts) meet them, and the theorems' conclusions are exercised
      on them by computation.  These are tests of the statements, not proofs of the properties. *)
From BB Require Import Bits Expr Sym Spec Validate Parse Enum Prog History Builder Surface DebugFmt Gen GenCorrect.
From Coq Require Import String.
Open Scope string_scope.
Open Scope N_scope.

(** a u24 register: a bool, a signed byte, an interleaved array of non-contiguous u2, a 3-bit enum field *)
Definition ex_fields : list field :=
  [mkField "enable" FBool false false [RSingle 0] None None true true true;
   mkField "gain" (FI 8) true false [RRange 1 8] None None true true false;
   mkField "lane" (FU 2) true true [RSingle 9; RSingle 13] (Some 3) (Some 1) true true false;
   mkField "mode" (FCustom "Mode" 3 true) true false [RRange 16 18] None None true true false;
   mkField "top" (FU 5) true false [RRange 19 23] None None true false false].
Definition ex_decl : decl := mkDecl "Reg" 24 (Some (DLit 4660)) false ex_fields true.

Example ex_valid : valid_decl ex_decl = true /\ accept_decl ex_decl = true.
Proof. split; vm_compute; reflexivity. Qed.

Example ex_fields_distinct_bits : forallb (fun f => nodup_bits (ranges f)) ex_fields = true.
Proof. vm_compute. reflexivity. Qed.

(** the builder is offered (default declared, no bit writable twice), with a strictly growing mask chain *)
Example ex_builder : exists steps, builder_offered ex_decl = Some steps /\ List.length steps = 4%nat.
Proof. eexists. split; vm_compute; reflexivity. Qed.

(** the model's getter of the interleaved array, element 2, on a concrete raw value *)
Example ex_getter :
  eval true (mk_env 24 0xABCDEF 2 (VBool false)) (gen_getter 32 (nth 2 ex_fields (hd (mkField "" FBool false false [] None None false false false) ex_fields)))
  = Ok (VInt (TAU 8 2) (spec_get (nth 2 ex_fields (hd (mkField "" FBool false false [] None None false false false) ex_fields)) 2 0xABCDEF)).
Proof. vm_compute. reflexivity. Qed.

(** a history of writes to the interleaved elements (bits 9/13, 10/14, 11/15) *)
Example ex_history :
  let lane := nth 2 ex_fields (hd (mkField "" FBool false false [] None None false false false) ex_fields) in
  let ops := [mkW lane 0 3; mkW lane 1 0; mkW lane 2 2] in
  run ops 0 = 41472.
Proof. vm_compute. reflexivity. Qed.

(** a bitenum: three variants over two bits, non-exhaustive *)
Definition ex_enum : enum_decl :=
  mkEnum "Mode" 2 None [mkVariant "Idle" (DLitN 0) false true; mkVariant "Run" (DLitN 1) false true;
                        mkVariant "Halt" (DLitN 3) false true].
Example ex_enum_ok : valid_enum ex_enum = true /\ enum_accept ex_enum = true
                     /\ enum_new ex_enum 3 = NOk "Halt" /\ enum_new ex_enum 2 = NErr 2.
Proof. repeat split; vm_compute; reflexivity. Qed.

(** rule-invalid declarations are rejected by the model of the macro: the defects D1, D2, D4 of the
    unchanged tree stay fixed *)
Example ex_D1_rejected :
  accept_decl (mkDecl "D" 32 None false [mkField "x" FBool false false [RSingle 40] None None true true false] false) = false.
Proof. vm_compute. reflexivity. Qed.
Example ex_D2_rejected :
  accept_decl (mkDecl "E" 24 None false [mkField "hi" (FU 8) true false [RRange 24 31] None None true true false] false) = false.
Proof. vm_compute. reflexivity. Qed.
Example ex_D4_rejected :
  accept_decl (mkDecl "R" 32 None false [mkField "x" (FU 2) true true [RRange 0 2; RRange 5 3] None None false true false] false) = false.
Proof. vm_compute. reflexivity. Qed.
(** D5: a write-only field whose custom type (7-bit raw value) is wider than the 6 bits it selects *)
Example ex_D5_rejected :
  accept_decl (mkDecl "S" 16 None false [mkField "x" (FCustom "E" 7 false) true false [RRange 0 5] None None false true false;
                                         mkField "rest" (FU 10) true false [RRange 6 15] None None true true false] false) = false.
Proof. vm_compute. reflexivity. Qed.
(** D3: a range list naming a bit twice gets no builder *)
Example ex_D3_no_builder :
  builder_offered (mkDecl "S" 8 (Some (DLit 0)) false [mkField "a" (FU 8) true true [RRange 0 3; RRange 2 5] None None true true false] false) = None.
Proof. vm_compute. reflexivity. Qed.

(** the debug text of the model *)
Example ex_debug :
  debug_compact [("Mode", TyEnum ex_enum)]
    (mkDecl "R" 8 None true [mkField "on" FBool false false [RSingle 0] None None true true false;
                             mkField "m" (FCustom "Mode" 2 true) true false [RRange 1 2] None None true true false;
                             mkField "t" (FI 8) true false [RRange 0 7] None None true false false] false) 0x85
  = "R { on: true, m: Err(2), t: -123 }".
Proof. vm_compute. reflexivity. Qed.
