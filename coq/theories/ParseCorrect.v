From BB Require Import Bits Spec Parse.
(** * ParseCorrect.v — the model of the macro's accept/reject decision ([Parse.accept_field])
    coincides with the documented layout rule ([Spec.valid_field]) on every declaration. *)
Open Scope N_scope.

(** what [parse_entry] pushes for an entry it accepts: [start .. stop) with [stop] exclusive *)
Definition conv (e : rentry) : N * N :=
  match e with RSingle n => (n, n + 1) | RRange lo hi => (lo, hi + 1) end.

Lemma conv_entry_range e :
  entry_ok e = true -> conv e = (let (lo, n) := entry_range e in (lo, lo + n)).
Proof.
  destruct e as [n|lo hi]; cbn [entry_ok conv entry_range]; intros H; [reflexivity|].
  f_equal. lia.
Qed.

(** ** [parse_entries] *)

(** inside a bracketed list every entry form is allowed; only [lo <= hi] is checked *)
Lemma parse_entries_list kw es :
  parse_entries true kw es = if forallb entry_ok es then Some (map conv es) else None.
Proof.
  induction es as [|e es IH]; cbn [parse_entries forallb map]; [reflexivity|].
  rewrite IH. destruct e as [n|lo hi]; cbn [parse_entry entry_ok conv negb andb].
  - rewrite andb_false_r. destruct (forallb entry_ok es); reflexivity.
  - destruct (N.ltb_spec hi lo); destruct (N.leb_spec lo hi); try lia; cbn [andb].
    + reflexivity.
    + destruct (forallb entry_ok es); reflexivity.
Qed.

(** general characterisation (the hint's form): success means every entry parses, and the
    result is the list of [(lo, lo + n)] *)
Lemma parse_entries_Some il kw es rs :
  parse_entries il kw es = Some rs ->
  Forall (fun e => parse_entry il kw e <> PReject) es /\ rs = map conv es.
Proof.
  revert rs. induction es as [|e es IH]; cbn [parse_entries map]; intros rs H.
  - inversion H. split; [constructor|reflexivity].
  - destruct (parse_entry il kw e) as [a b|] eqn:Pe; [|discriminate].
    destruct (parse_entries il kw es) as [l|]; [|discriminate].
    inversion H; subst rs. destruct (IH l eq_refl) as [Hf ->]. split.
    + constructor; [congruence|exact Hf].
    + f_equal. destruct e as [n|lo hi]; cbn [parse_entry conv] in *.
      * destruct (kw && negb il); congruence.
      * destruct (negb il && negb kw); [discriminate|].
        destruct (hi <? lo); congruence.
Qed.

(** the attribute-argument stage of [accept_field] against [attr_shape_ok] + [entry_ok] *)
Lemma parse_shape f :
  f_entries f <> [] ->
  (if (if f_list f then true else match f_entries f with [_] => true | _ => false end)
   then parse_entries (f_list f) (f_bits_kw f) (f_entries f) else None)
  = if attr_shape_ok f && forallb entry_ok (f_entries f)
    then Some (map conv (f_entries f)) else None.
Proof.
  intros Hne. unfold attr_shape_ok. destruct (f_list f).
  - rewrite parse_entries_list. destruct (f_entries f) as [|e l]; [congruence|]. reflexivity.
  - destruct (f_entries f) as [|e [|e' l]]; [congruence| |].
    + destruct e as [n|lo hi], (f_bits_kw f);
        cbn [parse_entries parse_entry negb andb forallb entry_ok map conv]; try reflexivity.
      destruct (N.ltb_spec hi lo); destruct (N.leb_spec lo hi); try lia; reflexivity.
    + destruct e, (f_bits_kw f); reflexivity.
Qed.

Lemma attr_shape_nonempty f : attr_shape_ok f = true -> f_entries f <> [].
Proof.
  unfold attr_shape_ok. destruct (f_list f), (f_entries f); congruence.
Qed.

(** outside a list there is exactly one entry *)
Lemma attr_shape_single f :
  attr_shape_ok f = true -> f_list f = false -> List.length (f_entries f) = 1%nat.
Proof.
  unfold attr_shape_ok. intros H Hl. rewrite Hl in H.
  destruct (f_entries f) as [|e [|e' l]]; [discriminate|reflexivity|].
  destruct e, (f_bits_kw f); discriminate.
Qed.

(** ** the two folds *)

Lemma nbits_acc es : forallb entry_ok es = true -> forall a,
  fold_left (fun a r => a + snd r - fst r) (map conv es) a = a + total (map entry_range es).
Proof.
  induction es as [|e es IH]; cbn [forallb map fold_left]; intros H a.
  - cbn [total]. lia.
  - apply andb_prop in H. destruct H as [He H]. rewrite (IH H).
    destruct e as [n|lo hi]; cbn [conv entry_range fst snd entry_ok total] in *; lia.
Qed.

Lemma nbits_eq es : forallb entry_ok es = true ->
  fold_left (fun a r => a + snd r - fst r) (map conv es) 0 = total (map entry_range es).
Proof. intros H. rewrite (nbits_acc es H). apply N.add_0_l. Qed.

Lemma highest_eq es : forallb entry_ok es = true ->
  fold_right (fun r m => N.max (snd r) m) 0 (map conv es) = max_end (map entry_range es).
Proof.
  unfold max_end.
  induction es as [|e es IH]; cbn [forallb map fold_right]; intros H; [reflexivity|].
  apply andb_prop in H. destruct H as [He H]. rewrite (IH H).
  destruct e as [n|lo hi]; cbn [conv entry_range snd entry_ok] in *; lia.
Qed.

(** ** the decision *)

Ltac split_ifs :=
  repeat match goal with
  | |- context [if ?c then _ else _] =>
      lazymatch c with
      | context [if _ then _ else _] => fail
      | _ => destruct c eqn:?
      end
  end.

Theorem accept_field_iff_valid : forall W f, accept_field W f = valid_field W f.
Proof.
  intros W f. destruct (f_entries f) as [|e0 l0] eqn:Hes.
  - (* no entry at all *)
    unfold accept_field, valid_field, attr_shape_ok. rewrite Hes.
    destruct (f_list f); cbn [parse_entries andb]; reflexivity.
  - assert (Hne : f_entries f <> []) by (rewrite Hes; discriminate). clear Hes.
    unfold accept_field. rewrite (parse_shape f Hne). unfold valid_field.
    destruct (attr_shape_ok f) eqn:E1; [|reflexivity].
    destruct (forallb entry_ok (f_entries f)) eqn:E2; [|reflexivity].
    cbv beta iota zeta delta [andb].
    destruct (map conv (f_entries f)) as [|p l] eqn:Hm.
    { apply map_eq_nil in Hm. contradiction. }
    cbv beta iota. rewrite <- Hm. clear Hm p l.
    rewrite (nbits_eq _ E2), (highest_eq _ E2).
    unfold count, stride, ranges. rewrite !map_length.
    set (n := total (map entry_range (f_entries f))).
    set (m := max_end (map entry_range (f_entries f))).
    set (L := (List.length (f_entries f) =? 1)%nat).
    assert (HL : f_list f = false -> L = true).
    { intros Hl. unfold L. now rewrite (attr_shape_single f E1 Hl). }
    clearbody n m L. clear E1 E2 Hne.
    destruct (f_ty f) as [|b|b|nm b o], (f_count f) as [k|], (f_stride f) as [s|], (f_list f), L;
      try (specialize (HL eq_refl); discriminate HL);
      cbn [type_size ty_ok ty_width andb orb negb]; unfold is_native;
      split_ifs; cbn [andb orb negb] in *; try reflexivity; lia.
Qed.

Lemma forallb_ext' {A} (p q : A -> bool) l :
  (forall x, p x = q x) -> forallb p l = forallb q l.
Proof.
  intros H. induction l as [|x l IH]; cbn [forallb]; [reflexivity|]. now rewrite H, IH.
Qed.

Theorem accept_decl_iff_valid : forall d, accept_decl d = valid_decl d.
Proof.
  intros d. unfold accept_decl, valid_decl. f_equal. f_equal. f_equal.
  apply forallb_ext'. intros x. apply accept_field_iff_valid.
Qed.

Print Assumptions accept_field_iff_valid.
Print Assumptions accept_decl_iff_valid.
