//! xlate: parse dumped Rust macro expansions with `syn` and print a generic
//! JSON syntax tree, one JSON object per input file (JSON Lines).
//!
//! The JSON shape is documented in README.md.  Guiding rule: a node is only
//! emitted in structured form when that form loses nothing; any construct that
//! the schema cannot represent faithfully (expression attributes, `where`
//! clauses, `let mut`, qualified paths, loops, closures, ...) becomes an
//! `"other"` node carrying its token text.  Nothing is dropped silently.

use std::collections::HashMap;
use std::io::Write;
use std::path::PathBuf;
use std::sync::atomic::{AtomicUsize, Ordering};
use std::sync::mpsc;

use proc_macro2::{Delimiter, TokenStream, TokenTree};
use quote::ToTokens;
use syn::punctuated::Punctuated;
use syn::{
    Arm, Attribute, Block, Expr, Field, Fields, FnArg, GenericParam, Generics, ImplItem,
    ImplItemConst, ImplItemFn, Item, ItemEnum, ItemImpl, ItemStruct, Lit, Local, Macro, Member,
    Pat, Path, ReturnType, Stmt, Token, Type, Visibility,
};

const USAGE: &str = "usage: xlate <file.rs>... | xlate --list <listfile> [<file.rs>...]";
/// Worker stack size.  syn's parser, our converter and the AST destructors are
/// all recursive, so give them plenty of (virtual) room.
const STACK_BYTES: usize = 256 << 20;
/// Files whose delimiters nest deeper than this are rejected (`ok: false`)
/// instead of risking a stack overflow, which could not be caught.
const MAX_NESTING: usize = 1000;
/// Python's `json.loads` (the consumer) fails with RecursionError on documents
/// nested deeper than roughly 1000 levels, so a file whose JSON tree would nest
/// deeper than this is reported as `ok: false` instead.
const MAX_JSON_DEPTH: usize = 500;

// ---------------------------------------------------------------- JSON ----

enum J {
    Null,
    Bool(bool),
    Str(String),
    Arr(Vec<J>),
    Obj(Vec<(&'static str, J)>),
}

impl From<&str> for J {
    fn from(s: &str) -> J {
        J::Str(s.to_string())
    }
}
impl From<String> for J {
    fn from(s: String) -> J {
        J::Str(s)
    }
}
impl From<bool> for J {
    fn from(b: bool) -> J {
        J::Bool(b)
    }
}
impl From<Vec<J>> for J {
    fn from(v: Vec<J>) -> J {
        J::Arr(v)
    }
}
impl<T: Into<J>> From<Option<T>> for J {
    fn from(o: Option<T>) -> J {
        o.map_or(J::Null, Into::into)
    }
}

/// `obj! {"key": value, ...}` builds a JSON object; values are anything `Into<J>`.
macro_rules! obj {
    ($($k:literal : $v:expr),* $(,)?) => { J::Obj(vec![$(($k, J::from($v))),*]) };
}

fn write_json_str(s: &str, out: &mut String) {
    out.push('"');
    for c in s.chars() {
        match c {
            '"' => out.push_str("\\\""),
            '\\' => out.push_str("\\\\"),
            '\n' => out.push_str("\\n"),
            '\r' => out.push_str("\\r"),
            '\t' => out.push_str("\\t"),
            c if (c as u32) < 0x20 || c == '\u{7f}' || c == '\u{2028}' || c == '\u{2029}' => {
                out.push_str(&format!("\\u{:04x}", c as u32))
            }
            c => out.push(c),
        }
    }
    out.push('"');
}

impl J {
    /// Nesting depth of containers (a scalar is 0, `[]` and `{}` are 1).
    fn depth(&self) -> usize {
        match self {
            J::Arr(v) => 1 + v.iter().map(J::depth).max().unwrap_or(0),
            J::Obj(v) => 1 + v.iter().map(|(_, x)| x.depth()).max().unwrap_or(0),
            _ => 0,
        }
    }

    fn write(&self, out: &mut String) {
        match self {
            J::Null => out.push_str("null"),
            J::Bool(b) => out.push_str(if *b { "true" } else { "false" }),
            J::Str(s) => write_json_str(s, out),
            J::Arr(v) => {
                out.push('[');
                for (i, x) in v.iter().enumerate() {
                    if i > 0 {
                        out.push(',');
                    }
                    x.write(out);
                }
                out.push(']');
            }
            J::Obj(v) => {
                out.push('{');
                for (i, (k, x)) in v.iter().enumerate() {
                    if i > 0 {
                        out.push(',');
                    }
                    write_json_str(k, out);
                    out.push(':');
                    x.write(out);
                }
                out.push('}');
            }
        }
    }
}

fn arr<T>(items: impl IntoIterator<Item = T>, f: impl Fn(T) -> J) -> J {
    J::Arr(items.into_iter().map(f).collect())
}

// ---------------------------------------------------------- token text ----

/// Token text with single spaces between tokens.  Outside of a proc-macro
/// proc_macro2 uses its own printer, which is already normalised that way and
/// never touches the inside of string literals.
fn spaced(t: &impl ToTokens) -> String {
    t.to_token_stream().to_string()
}

/// Token text with no whitespace at all, and with every turbofish `::` (a `::`
/// directly followed by `<`) dropped, so `UInt :: < u8, 1usize >` and
/// `UInt < u8, 1usize >` both give `UInt<u8,1usize>`.
fn compact(t: &impl ToTokens) -> String {
    let mut out = String::new();
    compact_into(t.to_token_stream(), &mut out);
    out
}

fn compact_into(ts: TokenStream, out: &mut String) {
    let is =
        |t: Option<&TokenTree>, c: char| matches!(t, Some(TokenTree::Punct(p)) if p.as_char() == c);
    let toks: Vec<TokenTree> = ts.into_iter().collect();
    let mut i = 0;
    while i < toks.len() {
        if is(toks.get(i), ':') && is(toks.get(i + 1), ':') && is(toks.get(i + 2), '<') {
            i += 2; // skip the turbofish `::`, keep the `<`
        }
        match &toks[i] {
            TokenTree::Group(g) => {
                let (open, close) = match g.delimiter() {
                    Delimiter::Parenthesis => ("(", ")"),
                    Delimiter::Brace => ("{", "}"),
                    Delimiter::Bracket => ("[", "]"),
                    Delimiter::None => ("", ""),
                };
                out.push_str(open);
                compact_into(g.stream(), out);
                out.push_str(close);
            }
            TokenTree::Punct(p) => out.push(p.as_char()),
            other => out.push_str(&other.to_string()),
        }
        i += 1;
    }
}

/// (does the identifier `unsafe` occur anywhere, maximum delimiter nesting depth).
/// Iterative, so it is safe on arbitrarily deep input.
fn scan_tokens(ts: &TokenStream) -> (bool, usize) {
    let mut stack = vec![ts.clone().into_iter()];
    let (mut has_unsafe, mut depth) = (false, 0);
    while let Some(top) = stack.last_mut() {
        match top.next() {
            None => {
                stack.pop();
            }
            Some(TokenTree::Group(g)) => {
                stack.push(g.stream().into_iter());
                depth = depth.max(stack.len() - 1);
            }
            Some(TokenTree::Ident(id)) => has_unsafe |= id == "unsafe",
            Some(_) => {}
        }
    }
    (has_unsafe, depth)
}

// ------------------------------------------------------- small pieces -----

fn attr(a: &Attribute) -> J {
    obj! {"path": compact(a.path()), "tokens": spaced(&a.meta)}
}

fn attrs(v: &[Attribute]) -> J {
    arr(v, attr)
}

fn ty(t: &Type) -> J {
    J::Str(compact(t))
}

fn vis(v: &Visibility) -> J {
    J::Str(compact(v))
}

/// Path segments, each `ident` + compacted generic arguments.  With
/// `mark_leading`, a leading `::` is recorded as an empty first segment (used
/// where the schema has no separate `leading_colon` key).
fn segs(p: &Path, mark_leading: bool) -> J {
    let mut v = Vec::new();
    if mark_leading && p.leading_colon.is_some() {
        v.push(J::from(""));
    }
    v.extend(p.segments.iter().map(|s| J::Str(compact(s))));
    J::Arr(v)
}

fn member(m: &Member) -> String {
    match m {
        Member::Named(id) => id.to_string(),
        Member::Unnamed(ix) => ix.index.to_string(),
    }
}

fn no_generics(g: &Generics) -> bool {
    g.params.is_empty() && g.where_clause.is_none()
}

/// `name` of a plain identifier pattern: no attributes, `ref`, `mut` or `@`.
fn plain_ident(p: &Pat) -> Option<String> {
    match p {
        Pat::Ident(i)
            if i.attrs.is_empty()
                && i.by_ref.is_none()
                && i.mutability.is_none()
                && i.subpat.is_none() =>
        {
            Some(i.ident.to_string())
        }
        _ => None,
    }
}

// ------------------------------------------------------------ literals ----

fn lit(l: &Lit) -> J {
    match l {
        Lit::Int(i) => {
            // syn folds the sign of a negative literal *pattern* into the literal.
            let digits = i.base10_digits();
            let (neg, digits) = match digits.strip_prefix('-') {
                Some(rest) => (true, rest),
                None => (false, digits),
            };
            let v = obj! {"e": "lit", "kind": "int", "value": digits, "suffix": i.suffix()};
            if neg {
                obj! {"e": "un", "op": "-", "x": v}
            } else {
                v
            }
        }
        Lit::Bool(b) => obj! {"e": "lit", "kind": "bool", "value": b.value},
        Lit::Str(s) if s.suffix().is_empty() => {
            obj! {"e": "lit", "kind": "str", "value": s.value()}
        }
        _ => obj! {"e": "lit", "kind": "other", "tokens": spaced(l)},
    }
}

// --------------------------------------------------------- expressions ----

fn exprs<'a>(it: impl IntoIterator<Item = &'a Expr>) -> J {
    arr(it, expr)
}

fn expr(e: &Expr) -> J {
    let other = || obj! {"e": "other", "tokens": spaced(e)};
    match e {
        // Parentheses carry no information beyond the tree shape: drop them.
        Expr::Paren(x) if x.attrs.is_empty() => expr(&x.expr),
        Expr::Group(x) if x.attrs.is_empty() => expr(&x.expr),
        Expr::Lit(x) if x.attrs.is_empty() => lit(&x.lit),
        Expr::Path(x) if x.attrs.is_empty() && x.qself.is_none() => obj! {
            "e": "path", "segs": segs(&x.path, false), "leading_colon": x.path.leading_colon.is_some()
        },
        Expr::Binary(x) if x.attrs.is_empty() => obj! {
            "e": "bin", "op": compact(&x.op), "l": expr(&x.left), "r": expr(&x.right)
        },
        Expr::Unary(x) if x.attrs.is_empty() => {
            obj! {"e": "un", "op": compact(&x.op), "x": expr(&x.expr)}
        }
        Expr::Reference(x) if x.attrs.is_empty() => {
            obj! {"e": "ref", "mut": x.mutability.is_some(), "x": expr(&x.expr)}
        }
        Expr::Cast(x) if x.attrs.is_empty() => {
            obj! {"e": "cast", "x": expr(&x.expr), "ty": ty(&x.ty)}
        }
        Expr::Call(x) if x.attrs.is_empty() => {
            obj! {"e": "call", "f": expr(&x.func), "args": exprs(&x.args)}
        }
        Expr::MethodCall(x) if x.attrs.is_empty() => obj! {
            "e": "mcall", "recv": expr(&x.receiver), "method": x.method.to_string(),
            "turbofish": x.turbofish.as_ref().map(compact).unwrap_or_default(),
            "args": exprs(&x.args)
        },
        Expr::Field(x) if x.attrs.is_empty() => {
            obj! {"e": "field", "x": expr(&x.base), "member": member(&x.member)}
        }
        Expr::Index(x) if x.attrs.is_empty() => {
            obj! {"e": "index", "x": expr(&x.expr), "i": expr(&x.index)}
        }
        Expr::If(x) if x.attrs.is_empty() => obj! {
            "e": "if", "c": expr(&x.cond), "t": block(&x.then_branch),
            "f": x.else_branch.as_ref().map(|(_, e)| expr(e))
        },
        Expr::Block(x) if x.attrs.is_empty() && x.label.is_none() => {
            obj! {"e": "block", "b": block(&x.block)}
        }
        Expr::Unsafe(x) if x.attrs.is_empty() => {
            obj! {"e": "block", "b": block(&x.block), "unsafe": true}
        }
        Expr::Const(x) if x.attrs.is_empty() => {
            obj! {"e": "block", "b": block(&x.block), "const": true}
        }
        Expr::Struct(x)
            if x.attrs.is_empty()
                && x.qself.is_none()
                && x.fields.iter().all(|f| f.attrs.is_empty())
                && (x.dot2_token.is_none() || x.rest.is_some()) =>
        {
            obj! {
                "e": "struct", "path": segs(&x.path, true),
                "fields": arr(&x.fields, |f| obj! {"name": member(&f.member), "e": expr(&f.expr)}),
                "rest": x.rest.as_deref().map(expr)
            }
        }
        Expr::Match(x) if x.attrs.is_empty() => {
            obj! {"e": "match", "x": expr(&x.expr), "arms": arr(&x.arms, arm)}
        }
        Expr::Assign(x) if x.attrs.is_empty() => {
            obj! {"e": "assign", "l": expr(&x.left), "r": expr(&x.right)}
        }
        Expr::Macro(x) if x.attrs.is_empty() => mac(&x.mac),
        Expr::Return(x) if x.attrs.is_empty() => {
            obj! {"e": "return", "x": x.expr.as_deref().map(expr)}
        }
        Expr::Tuple(x) if x.attrs.is_empty() => obj! {"e": "tuple", "elems": exprs(&x.elems)},
        Expr::Array(x) if x.attrs.is_empty() => obj! {"e": "array", "elems": exprs(&x.elems)},
        Expr::Try(x) if x.attrs.is_empty() => obj! {"e": "try", "x": expr(&x.expr)},
        Expr::Let(x) if x.attrs.is_empty() => obj! {"e": "let", "pat": pat(&x.pat), "x": expr(&x.expr)},
        Expr::Closure(x)
            if x.attrs.is_empty()
                && x.lifetimes.is_none()
                && x.constness.is_none()
                && x.movability.is_none()
                && x.asyncness.is_none() =>
        {
            let ret = match &x.output {
                syn::ReturnType::Default => None,
                syn::ReturnType::Type(_, t) => Some(ty(t)),
            };
            obj! {"e": "closure", "move": x.capture.is_some(), "params": arr(&x.inputs, pat), "ret": ret, "body": expr(&x.body)}
        }
        Expr::ForLoop(x) if x.attrs.is_empty() && x.label.is_none() => {
            obj! {"e": "for", "pat": pat(&x.pat), "iter": expr(&x.expr), "body": block(&x.body)}
        }
        _ => other(),
    }
}

fn arm(a: &Arm) -> J {
    obj! {
        "attrs": attrs(&a.attrs), "pat": pat(&a.pat),
        "guard": a.guard.as_ref().map(|(_, g)| expr(g)), "body": expr(&a.body)
    }
}

fn mac(m: &Macro) -> J {
    let args = m
        .parse_body_with(Punctuated::<Expr, Token![,]>::parse_terminated)
        .ok()
        .map(|p| exprs(&p));
    let name = m.path.segments.last().map(|s| s.ident.to_string());
    obj! {
        "e": "macro", "name": name.unwrap_or_default(), "path": segs(&m.path, true),
        "tokens": m.tokens.to_string(), "args": args
    }
}

// ------------------------------------------------------------ patterns ----

fn pat(p: &Pat) -> J {
    match p {
        Pat::Paren(x) if x.attrs.is_empty() => pat(&x.pat),
        Pat::Lit(x) if x.attrs.is_empty() => obj! {"p": "lit", "e": lit(&x.lit)},
        Pat::Ident(x) if x.attrs.is_empty() && x.subpat.is_none() => obj! {
            "p": "ident", "name": x.ident.to_string(),
            "by_ref": x.by_ref.is_some(), "mut": x.mutability.is_some()
        },
        Pat::Wild(x) if x.attrs.is_empty() => obj! {"p": "wild"},
        Pat::Path(x) if x.attrs.is_empty() && x.qself.is_none() => {
            obj! {"p": "path", "segs": segs(&x.path, true)}
        }
        Pat::TupleStruct(x) if x.attrs.is_empty() && x.qself.is_none() => {
            obj! {"p": "tuple_struct", "path": segs(&x.path, true), "elems": arr(&x.elems, pat)}
        }
        Pat::Or(x) if x.attrs.is_empty() => obj! {"p": "or", "cases": arr(&x.cases, pat)},
        Pat::Tuple(x) if x.attrs.is_empty() => obj! {"p": "tuple", "elems": arr(&x.elems, pat)},
        Pat::Type(x) if x.attrs.is_empty() => obj! {"p": "typed", "pat": pat(&x.pat), "ty": ty(&x.ty)},
        Pat::Ident(x) if x.attrs.is_empty() && x.subpat.is_some() => obj! {
            "p": "bind", "name": x.ident.to_string(), "sub": pat(&x.subpat.as_ref().unwrap().1)
        },
        Pat::Range(_) => obj! {"p": "range", "tokens": spaced(p)},
        _ => obj! {"p": "other", "tokens": spaced(p)},
    }
}

// ---------------------------------------------------------- statements ----

fn block(b: &Block) -> J {
    obj! {"stmts": arr(&b.stmts, stmt)}
}

fn stmt(s: &Stmt) -> J {
    let other = || obj! {"s": "other", "tokens": spaced(s)};
    match s {
        Stmt::Local(l) => local(l).or_else(|| local_pat(l)).unwrap_or_else(other),
        Stmt::Item(Item::Const(c))
            if c.attrs.is_empty()
                && matches!(c.vis, Visibility::Inherited)
                && no_generics(&c.generics) =>
        {
            obj! {"s": "const", "name": c.ident.to_string(), "ty": ty(&c.ty), "init": expr(&c.expr)}
        }
        Stmt::Expr(e, semi) => obj! {"s": "expr", "e": expr(e), "semi": semi.is_some()},
        Stmt::Macro(m) if m.attrs.is_empty() => {
            obj! {"s": "expr", "e": mac(&m.mac), "semi": m.semi_token.is_some()}
        }
        _ => other(),
    }
}

/// `let x = e;`, `let x: T = e;`, `let x;` -- anything else (attributes, `mut`,
/// destructuring, `let ... else`) is not representable.
fn local(l: &Local) -> Option<J> {
    if !l.attrs.is_empty() {
        return None;
    }
    let (name, t) = match &l.pat {
        Pat::Type(pt) if pt.attrs.is_empty() => (plain_ident(&pt.pat)?, Some(ty(&pt.ty))),
        p => (plain_ident(p)?, None),
    };
    let init = match &l.init {
        Some(i) if i.diverge.is_some() => return None,
        Some(i) => Some(expr(&i.expr)),
        None => None,
    };
    Some(obj! {"s": "let", "name": name, "ty": t, "init": init})
}

/// `let <pattern> = e;` with a tuple pattern or `mut` binding (read by the source-slice translator only; the
/// expansions of the macro never contain one).
fn local_pat(l: &Local) -> Option<J> {
    if !l.attrs.is_empty() {
        return None;
    }
    let (p, t) = match &l.pat {
        Pat::Type(pt) if pt.attrs.is_empty() => (pat(&pt.pat), Some(ty(&pt.ty))),
        p => (pat(p), None),
    };
    let init = match &l.init {
        Some(i) if i.diverge.is_some() => return None,
        Some(i) => Some(expr(&i.expr)),
        None => None,
    };
    Some(obj! {"s": "letpat", "pat": p, "ty": t, "init": init})
}

// --------------------------------------------------------------- items ----

fn item(it: &Item) -> J {
    let structured = match it {
        Item::Struct(s) => item_struct(s),
        Item::Enum(e) => item_enum(e),
        Item::Impl(i) => item_impl(i),
        Item::Fn(f) => item_fn(f),
        _ => None,
    };
    structured.unwrap_or_else(|| obj! {"kind": "other", "tokens": spaced(it)})
}

/// a free function (used when the macro's own source is read): same shape as an impl fn
fn item_fn(f: &syn::ItemFn) -> Option<J> {
    let sig = &f.sig;
    if sig.abi.is_some() || sig.variadic.is_some() || sig.generics.where_clause.is_some() {
        return None;
    }
    let ret = match &sig.output {
        ReturnType::Default => J::Null,
        ReturnType::Type(_, t) => ty(t),
    };
    Some(obj! {
        "kind": "fn", "name": sig.ident.to_string(), "attrs": attrs(&f.attrs), "vis": vis(&f.vis),
        "const": sig.constness.is_some(), "unsafe": sig.unsafety.is_some(),
        "async": sig.asyncness.is_some(), "generics": compact(&sig.generics),
        "params": arr(&sig.inputs, param), "ret": ret, "body": block(&f.block)
    })
}

fn generic_param(p: &GenericParam) -> J {
    match p {
        GenericParam::Const(c) if c.attrs.is_empty() && c.default.is_none() => {
            obj! {"const": c.ident.to_string(), "ty": ty(&c.ty)}
        }
        _ => obj! {"other": spaced(p)},
    }
}

fn field(f: &Field) -> Option<J> {
    if !f.attrs.is_empty() {
        return None;
    }
    let name = f.ident.as_ref().map(|i| i.to_string());
    Some(obj! {"name": name, "vis": vis(&f.vis), "ty": ty(&f.ty)})
}

fn item_struct(s: &ItemStruct) -> Option<J> {
    if s.generics.where_clause.is_some() {
        return None;
    }
    let (tuple, fields) = match &s.fields {
        Fields::Named(f) => (
            false,
            f.named.iter().map(field).collect::<Option<Vec<J>>>()?,
        ),
        Fields::Unnamed(f) => (
            true,
            f.unnamed.iter().map(field).collect::<Option<Vec<J>>>()?,
        ),
        Fields::Unit => (false, Vec::new()),
    };
    Some(obj! {
        "kind": "struct", "name": s.ident.to_string(), "attrs": attrs(&s.attrs), "vis": vis(&s.vis),
        "generics": arr(&s.generics.params, generic_param), "tuple": tuple, "fields": fields
    })
}

fn item_enum(e: &ItemEnum) -> Option<J> {
    if !no_generics(&e.generics) || e.variants.iter().any(|v| !matches!(v.fields, Fields::Unit)) {
        return None;
    }
    let variant = |v: &syn::Variant| {
        obj! {
            "name": v.ident.to_string(), "attrs": attrs(&v.attrs),
            "discr": v.discriminant.as_ref().map(|(_, d)| expr(d))
        }
    };
    Some(obj! {
        "kind": "enum", "name": e.ident.to_string(), "attrs": attrs(&e.attrs), "vis": vis(&e.vis),
        "variants": arr(&e.variants, variant)
    })
}

fn item_impl(i: &ItemImpl) -> Option<J> {
    // The schema has no slot for impl-level attributes, `unsafe impl`,
    // `default impl`, negative impls or where clauses.
    if !i.attrs.is_empty()
        || i.defaultness.is_some()
        || i.unsafety.is_some()
        || i.generics.where_clause.is_some()
    {
        return None;
    }
    let trait_ = match &i.trait_ {
        None => J::Null,
        Some((None, path, _)) => J::Str(compact(path)),
        Some((Some(_), _, _)) => return None,
    };
    Some(obj! {
        "kind": "impl", "self_ty": ty(&i.self_ty), "trait": trait_,
        "generics": compact(&i.generics), "items": arr(&i.items, impl_item)
    })
}

fn impl_item(it: &ImplItem) -> J {
    let structured = match it {
        ImplItem::Const(c) => impl_const(c),
        ImplItem::Fn(f) => impl_fn(f),
        _ => None,
    };
    structured.unwrap_or_else(|| obj! {"kind": "other", "tokens": spaced(it)})
}

fn impl_const(c: &ImplItemConst) -> Option<J> {
    if c.defaultness.is_some() || !no_generics(&c.generics) {
        return None;
    }
    Some(obj! {
        "kind": "const", "name": c.ident.to_string(), "attrs": attrs(&c.attrs), "vis": vis(&c.vis),
        "ty": ty(&c.ty), "expr": expr(&c.expr)
    })
}

fn impl_fn(f: &ImplItemFn) -> Option<J> {
    let sig = &f.sig;
    if f.defaultness.is_some()
        || sig.abi.is_some()
        || sig.variadic.is_some()
        || sig.generics.where_clause.is_some()
    {
        return None;
    }
    let ret = match &sig.output {
        ReturnType::Default => J::Null,
        ReturnType::Type(_, t) => ty(t),
    };
    Some(obj! {
        "kind": "fn", "name": sig.ident.to_string(), "attrs": attrs(&f.attrs), "vis": vis(&f.vis),
        "const": sig.constness.is_some(), "unsafe": sig.unsafety.is_some(),
        "async": sig.asyncness.is_some(), "generics": compact(&sig.generics),
        "params": arr(&sig.inputs, param), "ret": ret, "body": block(&f.block)
    })
}

fn param(a: &FnArg) -> J {
    let other = || obj! {"other": spaced(a)};
    match a {
        FnArg::Receiver(r) if r.attrs.is_empty() && r.colon_token.is_none() => {
            match (&r.reference, r.mutability.is_some()) {
                (Some((_, None)), false) => obj! {"self": "&"},
                (Some((_, None)), true) => obj! {"self": "&mut"},
                (None, false) => obj! {"self": "value"},
                _ => other(), // `mut self`, `&'a self`
            }
        }
        FnArg::Typed(t) if t.attrs.is_empty() => match plain_ident(&t.pat) {
            Some(name) => obj! {"name": name, "ty": ty(&t.ty)},
            None => other(),
        },
        _ => other(),
    }
}

// --------------------------------------------------------------- files ----

fn translate(path: &std::path::Path) -> J {
    let file = path.to_string_lossy().into_owned();
    let fail = |msg: String| obj! {"file": file.clone(), "ok": false, "error": msg};
    let bytes = match std::fs::read(path) {
        Ok(b) => b,
        Err(e) => return fail(format!("cannot read file: {e}")),
    };
    let text = match String::from_utf8(bytes) {
        Ok(t) => t,
        Err(e) => return fail(format!("file is not valid UTF-8: {e}")),
    };
    let text = text.strip_prefix('\u{feff}').unwrap_or(&text);
    let tokens: TokenStream = match text.parse() {
        Ok(ts) => ts,
        Err(e) => return fail(format!("{e}")),
    };
    let (has_unsafe, depth) = scan_tokens(&tokens);
    if depth > MAX_NESTING {
        return fail(format!(
            "delimiters nested {depth} deep (limit {MAX_NESTING}); not parsed"
        ));
    }
    match syn::parse2::<syn::File>(tokens) {
        Err(e) => fail(e.to_string()),
        Ok(f) => {
            // File-level inner attributes (`#![...]`) have no slot of their own.
            let mut items: Vec<J> = f
                .attrs
                .iter()
                .map(|a| obj! {"kind": "other", "tokens": spaced(a)})
                .collect();
            items.extend(f.items.iter().map(item));
            let items = J::Arr(items);
            let json_depth = items.depth() + 1;
            if json_depth > MAX_JSON_DEPTH {
                return fail(format!(
                    "syntax tree nests {json_depth} levels deep as JSON (limit {MAX_JSON_DEPTH}); not emitted"
                ));
            }
            obj! {"file": file.clone(), "ok": true, "has_unsafe": has_unsafe, "items": items}
        }
    }
}

/// One output line (with trailing newline) for one input file.  A panic
/// anywhere below -- there should be none -- is turned into an `ok: false` line.
fn render(path: &std::path::Path) -> String {
    let result = std::panic::catch_unwind(|| {
        let mut line = String::new();
        translate(path).write(&mut line);
        line
    });
    let mut line = result.unwrap_or_else(|p| {
        let msg = p
            .downcast_ref::<String>()
            .cloned()
            .or_else(|| p.downcast_ref::<&str>().map(|s| s.to_string()))
            .unwrap_or_default();
        let mut line = String::new();
        let file = path.to_string_lossy().into_owned();
        obj! {"file": file, "ok": false, "error": format!("internal error (panic): {msg}")}
            .write(&mut line);
        line
    });
    line.push('\n');
    line
}

fn parse_args() -> Result<Vec<PathBuf>, String> {
    let mut files = Vec::new();
    let mut args = std::env::args_os().skip(1);
    let mut options = true;
    while let Some(a) = args.next() {
        let s = a.to_string_lossy();
        if options && s == "--list" {
            let list = args.next().ok_or("--list needs a file argument")?;
            let bytes = std::fs::read(&list)
                .map_err(|e| format!("cannot read list file {}: {e}", list.to_string_lossy()))?;
            let text = String::from_utf8_lossy(&bytes);
            files.extend(
                text.lines()
                    .map(|l| l.trim_end_matches('\r'))
                    .filter(|l| !l.is_empty())
                    .map(PathBuf::from),
            );
        } else if options && s == "--" {
            options = false;
        } else if options && (s == "-h" || s == "--help") {
            println!("{USAGE}");
            std::process::exit(0);
        } else if options && s.starts_with("--") {
            return Err(format!("unknown option {s}"));
        } else {
            files.push(PathBuf::from(a));
        }
    }
    Ok(files)
}

fn main() {
    let files = match parse_args() {
        Ok(f) if !f.is_empty() => f,
        Ok(_) => {
            eprintln!("{USAGE}");
            std::process::exit(2);
        }
        Err(msg) => {
            eprintln!("xlate: {msg}\n{USAGE}");
            std::process::exit(2);
        }
    };
    let workers = std::thread::available_parallelism()
        .map_or(1, |n| n.get())
        .min(files.len());
    let next = AtomicUsize::new(0);
    let (tx, rx) = mpsc::channel::<(usize, String)>();

    // Workers pull file indices from a shared counter; the main thread puts the
    // finished lines back into input order and streams them to stdout.
    std::thread::scope(|scope| {
        for _ in 0..workers {
            let (tx, next, files) = (tx.clone(), &next, &files);
            let worker = move || loop {
                let i = next.fetch_add(1, Ordering::Relaxed);
                if i >= files.len() || tx.send((i, render(&files[i]))).is_err() {
                    break;
                }
            };
            let spawned = std::thread::Builder::new()
                .stack_size(STACK_BYTES)
                .spawn_scoped(scope, worker);
            if let Err(e) = spawned {
                eprintln!("xlate: cannot start worker thread: {e}");
                std::process::exit(1);
            }
        }
        drop(tx);

        let mut out = std::io::BufWriter::with_capacity(1 << 20, std::io::stdout().lock());
        let mut pending: HashMap<usize, String> = HashMap::new();
        let mut want = 0;
        for (i, line) in rx {
            pending.insert(i, line);
            while let Some(line) = pending.remove(&want) {
                if out.write_all(line.as_bytes()).is_err() {
                    std::process::exit(1); // stdout closed (e.g. `| head`)
                }
                want += 1;
            }
        }
        if out.flush().is_err() {
            std::process::exit(1);
        }
    });
}
