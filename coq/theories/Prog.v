(** * Prog.v — the shape of a translated expansion, and the list of obligations a run
      discharges for one declaration.

    [program] is what the translator produces from the *real* output of the macro for one
    [#[bitfield]] declaration; [decl] (Spec.v) is what the corpus generator wrote.
    [obligations d p] pairs every accessor the declaration calls for with its checker from
    [Validate.v].  Each entry is a label and a boolean computed by [vm_compute]. *)
From BB Require Import Bits Expr Sym Spec Validate.
From Coq Require Import Ascii.
Open Scope N_scope.
Open Scope string_scope.

Inductive body :=
| BValue (e : expr)         (* the function returns [e] *)
| BStruct (e : expr)        (* the function returns [Self { raw_value: e }] *)
| BSet (e : expr)           (* the function does [self.raw_value = e;] *)
| BOther (what : string).

Record fn_item := mkFn {
  fn_name : string;
  fn_pub : bool;
  fn_const : bool;
  fn_doc : bool;
  fn_self : string;                       (* "", "&", "&mut", "value" *)
  fn_params : list (string * string);     (* name, type as written *)
  fn_ret : string;                        (* "" for none *)
  fn_body : body
}.

Record program := mkProgram {
  p_name : string;
  p_storage : N;                          (* width of the struct's only field, raw_value: u{S} *)
  p_fns : list fn_item
}.

Fixpoint find_fn (name : string) (l : list fn_item) : option fn_item :=
  match l with
  | [] => None
  | f :: l' => if String.eqb (fn_name f) name then Some f else find_fn name l'
  end.

(** [with_]/[set_] drop a leading [r#] from the field name *)
Definition strip_raw (s : string) : string :=
  match s with
  | String c1 (String c2 rest) =>
      if (Ascii.eqb c1 "r"%char && Ascii.eqb c2 "#"%char)%bool then rest else s
  | _ => s
  end.

Definition with_name (f : field) : string := "with_" ++ strip_raw (f_name f).
Definition set_name (f : field) : string := "set_" ++ strip_raw (f_name f).

Definition is_array (f : field) : bool := match f_count f with Some _ => true | None => false end.

Definition assert_ok (f : field) (e : expr) : bool :=
  if is_array f then check_assert (count f) e else true.

Definition ob_getter (W : N) (fns : list fn_item) (f : field) : bool :=
  match find_fn (f_name f) fns with
  | Some fn => match fn_body fn with
               | BValue e => check_getter W f e && assert_ok f e
               | _ => false
               end
  | None => false
  end.

Definition ob_with (W : N) (fns : list fn_item) (f : field) : bool :=
  match find_fn (with_name f) fns with
  | Some fn => match fn_body fn with
               | BStruct e => check_setter W f e && assert_ok f e
               | _ => false
               end
  | None => false
  end.

Definition ob_set (W : N) (fns : list fn_item) (f : field) : bool :=
  match find_fn (set_name f) fns with
  | Some fn => match fn_body fn with
               | BSet e => check_setter W f e && assert_ok f e
               | _ => false
               end
  | None => false
  end.

Definition absent (name : string) (fns : list fn_item) : bool :=
  match find_fn name fns with None => true | Some _ => false end.

(** A range list that names a bit twice is accepted by the macro on purpose but is outside every
    guarantee about writes (C04: "lists that name the same bit twice are outside this
    guarantee"): its setters are not held to the scatter specification. *)
Definition dup_bits (f : field) : bool := negb (nodup_bits (ranges f)).

Definition field_obligations (W : N) (fns : list fn_item) (f : field) : list (string * bool) :=
  (if f_get f then [("get:" ++ f_name f, ob_getter W fns f)]
   else [("noget:" ++ f_name f, absent (f_name f) fns)])
  ++
  (if f_set f then
     if dup_bits f then [("dupbits:" ++ f_name f, true); ("dupbits:" ++ f_name f, true)]
     else [("with:" ++ f_name f, ob_with W fns f); ("set:" ++ f_name f, ob_set W fns f)]
   else [("nowith:" ++ f_name f, absent (with_name f) fns); ("noset:" ++ f_name f, absent (set_name f) fns)]).

Definition ob_raw_value (W : N) (fns : list fn_item) : bool :=
  match find_fn "raw_value" fns with
  | Some fn => match fn_body fn with BValue e => check_raw_value W e | _ => false end
  | None => false
  end.

Definition ob_new_raw (W : N) (fns : list fn_item) : bool :=
  match find_fn "new_with_raw_value" fns with
  | Some fn => match fn_body fn with BStruct e => check_new_raw W e | _ => false end
  | None => false
  end.

Definition obligations (d : decl) (p : program) : list (string * bool) :=
  [("storage", N.eqb (p_storage p) (storage (d_W d)));
   ("raw_value", ob_raw_value (d_W d) (p_fns p));
   ("new_with_raw_value", ob_new_raw (d_W d) (p_fns p))]
  ++ flat_map (field_obligations (d_W d) (p_fns p)) (d_fields d).

Definition failing (obs : list (string * bool)) : list string :=
  map fst (filter (fun ob => negb (snd ob)) obs).
