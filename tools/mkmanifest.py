#!/usr/bin/env python3
"""Regenerates /verif/MANIFEST.json from the table below (keeps it valid at all times)."""
import json, os
V = os.path.dirname(os.path.dirname(os.path.abspath(__file__)))
props = [json.loads(l) for l in open(os.path.join(V, 'properties.jsonl'))]

NOTE_COMMON = ('Trusted: Coq 8.16.1 kernel + vm_compute (no native_compute, no axioms); hand-written semantics of the emitted '
               'Rust fragment and of arbitrary-int 1.3.0 (Expr.v), validated by differential execution; the syn-based translator '
               'and the dump hook; corpus printers; rustc/cargo. The statement about the code is: for every corpus declaration '
               '(regenerated and re-expanded by the real macro on every run) and ALL inputs; declarations outside the corpus are '
               'covered by the parametric theorems over the hand-written generator model (Gen.v/GenCorrect.v, Parse.v, Enum.v, '
               'Builder.v, Surface.v) as far as that model mirrors the code: it is compared with the real expansion on every run '
               '(semantic obligations, verdicts, surface equality; term-for-term agreement of Gen.v is reported: 100% on the '
               'unchanged tree); the arithmetic and table look-up functions of the macro (type widths, storage classes, the numeric '
               'checks and the argument closure of parse_field, the attribute automaton, the bitenum count checks) are in addition '
               'translated from bitbybit/src on every run and PROVED equal to the model for every argument (DESIGN 3.7). Axioms: none (Print Assumptions closed for every property theorem; coqchk -o: Axioms <none>).')

CLAIMED = {
    'C01': ('Reflective proof: the real getter body of every corpus declaration is translated to a Coq term and checked by a verified '
            'symbolic bit evaluator against the abstract register (Spec.v) for all raw values, both profiles (theorems C01_getter_exact, '
            'C01_bit_weights, C01_outside_bits_irrelevant); plus C01_generator_model_every_getter: the model of codegen.rs (identical, '
            'term for term, to the real expansion on the corpus) is correct for ALL layouts, raw values and indices.', '4 C01'),
    'C02': ('Reflective proof of both emitted setter bodies (with_ and set_ separately) against Spec.v scatter for all raw values and '
            'arguments; read-back and frame are theorems of Spec.v (C02_setter_exact, C02_readback, C02_frame); plus '
            'C02_generator_model_every_setter for ALL layouts over the generator model.', '4 C02'),
    'C03': ('Reflective proof for every in-range index of every corpus array field (getter, with_, set_), plus the syntactic index-assert '
            'obligation whose theorem C03_oob_panics covers every index >= K.', '4 C03'),
    'C04': ('Reflective proof for range-list fields: expected bit provenance is the permutation given by Spec.v (nth_pos / find_pos); '
            'gather/scatter round-trip and frame proved by induction over the list.', '4 C04'),
    'C05': ('Reflective proof for signed fields: a sign-extending widening would put the sign bit above the field in the symbolic result '
            'and fail the obligation; casts are modelled with explicit sign extension.', '4 C05'),
    'C06': ('Reflective proof of raw_value()/new_with_raw_value() for all raw values (C06_raw_value_exact, C06_new_with_raw_value_exact), '
            'C06_storage_minimal, and kernel-checked shape obligations for the struct item, ZERO, DEFAULT_RAW_VALUE, DEFAULT, new() and '
            'impl Default against the model of Surface.v; size/alignment/Copy and the constants\' values are observed on the compiled code.', '4 C06'),
    'C07': ('Theorems about the model of the generated match (exact, Err(x), mutually inverse, pigeonhole totality) plus the per-enum '
            'obligation that the real expansion (arms, default arm, types, constructor, reader) is the model\'s; conversions are also run '
            'on every raw value for N <= 8.', '4 C07'),
    'C08': ('Reflective proof for custom-typed fields through the uninterpreted conversion boundary ECustomNew/ECustomRaw: exactly the field '
            'bits reach T::new_with_raw_value and exactly T::raw_value() is scattered.', '4 C08'),
    'C09': ('C09_accept_iff_valid: the model of parse_field (Parse.v) accepts exactly the documented rule valid_decl (Spec.v), for all '
            'declarations; tied to the code by comparing rustc\'s verdict, the model and the rule on a valid stream and a one-violation-per-'
            'declaration invalid stream (both directions), every run; the numeric checks of parse_field, its argument closure, the '
            'attribute automaton and the type-width functions are translated from the source each run and proved equal to the model '
            'for every input (accept_field_region, src_agrees).', '4 C09'),
    'C10': ('C10_enum_accept_iff_valid, C10_exhaustive_claims_are_sound (pigeonhole), C10_no_variant_is_unrepresentable over the model of '
            'bitenum.rs; verdict correspondence in both directions on an enumerated boundary corpus; per-enum obligations on the real match; '
            'the count / exhaustive-claim checks and Exhaustive::matches are translated from the source each run and proved equal to the '
            'model (enum_accept_region).', '4 C10'),
    'C11': ('Invariant by induction over arbitrary histories on the REAL bodies: C12_real_code_any_history (no panic, state = abstract '
            'register, state < 2^N) and C11_rewrap_is_identity_on_reachable_states; the per-run kernel-checked obligations are the '
            'hypotheses (C12_run_obligations_give_setters_ok).', '4 C11'),
    'C12': ('C12_last_write_wins by induction over the operation list (any length), with the characterisation of the last covering write, '
            'commutation of disjoint writes, getters observing the state, coherent aliasing of overlapping fields; lifted to the real '
            'bodies by C12_real_code_any_history.', '4 C12'),
    'C13': ('C13_builder_is_the_with_chain_from_the_default on the real with_ bodies, read-back and default-preservation theorems; the '
            'real builder()/step/build bodies are shape-checked in the kernel against the model of make_builder; builder chains are run.', '4 C13'),
    'C14': ('C14_overlap_test_is_exact (running-mask test = no bit named twice, by induction), C14_offered_iff_sound, '
            'C14_only_the_complete_chain_reaches_build (type-state automaton) over the model of make_builder; the real mask chain of every '
            'corpus declaration must equal the model\'s (kernel-checked); programs that must not compile are compiled.', '4 C14'),
    'C15': ('PARTIAL: C15_everything_but_set_is_const / C15_builder_steps_are_const over the surface model, kernel-checked equality of the '
            'real signatures (const flags) with the model; the const evaluator itself is observed: every operation is evaluated in const '
            'items and compared with the run-time result.', '4 C15'),
    'C16': ('A successful symbolic evaluation is a certificate of totality and profile independence (C16_seval_total_profile_independent: '
            'eval in checked mode = unchecked mode = Ok), discharged for every accessor of every corpus declaration; dev and release '
            'binaries are compared.', '4 C16'),
    'C17': ('C17_whole_api_surface / C17_field_api_is_exactly_what_the_specifier_says over the surface model and kernel-checked equality '
            'of the COMPLETE real method list with it; absent methods are also probed by programs that must fail to compile (E0599).', '4 C17'),
    'C18': ('PARTIAL: kernel-checked obligations on the real token stream (no `unsafe` token, path roots within core/arbitrary_int/user '
            'names, doc attributes as C18_public_items_are_documented requires); "compiles under the regime" is observed on '
            '#![no_std], #![deny(missing_docs)], #![forbid(unsafe_code)] crates.', '4 C18'),
    'C19': ('C19_every_field_by_name_in_order, C19_text_is_a_function_of_the_getters over the model; the real fmt body is shape-checked in '
            'the kernel; the rendered text ({:?} and {:#?}) is compared with DebugFmt.v on the compiled code.', '4 C19'),
}
TECHS = {
    'C07': 'Rocq/Coq proof over a model of the generated match (Enum.v) + per-enum reflective shape obligation + exhaustive differential run',
    'C09': 'Rocq/Coq proof: model of parse_field = documented rule (accept_decl_iff_valid); verdict correspondence with rustc',
    'C10': 'Rocq/Coq proof: model of bitenum validation = rule, pigeonhole totality; verdict correspondence with rustc',
    'C11': 'Rocq/Coq proof: invariant by induction over operation histories on the translated real bodies (History.v)',
    'C12': 'Rocq/Coq proof: induction over operation histories (last-write-wins) lifted to the translated real bodies',
    'C13': 'Rocq/Coq proof: builder = fold of with_ over the real bodies; kernel-checked shape equality with the model of make_builder',
    'C14': 'Rocq/Coq proof: running-mask overlap test = NoDupBits by induction; type-state automaton uniqueness; compile-fail probes',
    'C15': 'Rocq/Coq proof over the surface model + kernel-checked signature equality; const evaluation observed (partial)',
    'C17': 'Rocq/Coq proof over the surface model + kernel-checked equality of the complete real method list; compile-fail probes',
    'C18': 'Rocq/Coq kernel-checked token/path/doc obligations on the real expansion; crate regimes observed (partial)',
    'C19': 'Rocq/Coq proof over the debug-tree model + kernel-checked fmt shape; rendered text compared with the model of core::fmt',
}
TECH = 'Rocq/Coq proof: verified symbolic evaluator (seval_sound) applied reflectively to the translated real expansion; Spec.v theorems'

checks = []
for p in props:
    pid = p['id']
    if pid in CLAIMED:
        text, ref = CLAIMED[pid]
        checks.append({
            'property_id': pid,
            'quick_cmd': './check %s --tier quick' % pid,
            'thorough_cmd': './check %s --tier thorough' % pid,
            'evidence_file': 'evidence/%s.json' % pid,
            'replay_cmd_template': './check replay {path}',
            'engine': 'bbv',
            'level_claimed': {'category': 'proof', 'text': text, 'design_ref': 'DESIGN.md section ' + ref},
            'level_note': NOTE_COMMON,
            'technique': TECHS.get(pid, TECH),
        })
m = {
    'version': 1,
    'setup_cmd': './check setup',
    'hooks': {
        'guard': 'cargo feature verif_hooks (crate bitbybit)',
        'enable': 'corpus crate depends on bitbybit = { path = "/repo/bitbybit", features = ["verif_hooks"] }; BITBYBIT_VERIF_DUMP_DIR=<dir> selects the dump directory',
        'baseline_off_cmd': 'cd /repo && (cargo nextest run --workspace --no-fail-fast --offline || cargo test --workspace --no-fail-fast --offline)',
        'source_commits': ['8106812'],
        'add_only': True,
    },
    'engines': [{'name': 'bbv', 'path': 'check', 'serves_properties': sorted(CLAIMED),
                 'kind_free_text': 'Coq 8.16 development (coq/theories) + syn translator (harness/xlate) + Python driver (harness/bbv)'}],
    'checks': checks,
    'notes': ('Genuine defects of the unchanged tree were repaired by minimal unguarded commits in /repo whose messages start with "fix:" '
              '(3601d6d, 210890d, 3d0e16d, 6d84f06, f1e1d2e, fe86bfd); each is recorded as a "fixed:" line in /verif/known-findings.txt with the '
              'failing declaration; there is no open "known:" finding, so no check prints KNOWN-FINDING. The hook commit is 8106812 (cargo '
              'feature verif_hooks, off by default). Seeded changes used to test the checks are under /verif/seeded (never applied to /repo). '
              'Design, trusted base and the per-property argument: /verif/DESIGN.md.'),
    'not_applicable': [{'property_id': p['id'], 'reason': 'check not built yet (work in progress; see DESIGN.md section 12)'}
                       for p in props if p['id'] not in CLAIMED],
}
json.dump(m, open(os.path.join(V, 'MANIFEST.json'), 'w'), indent=1)
print('claimed', sorted(CLAIMED))
