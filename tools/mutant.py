#!/usr/bin/env python3
"""Confirm a candidate seeded change and run checks against it.

  tools/mutant.py confirm <worktree> <patch> <demo-dir> <seed-id> <property> [--needs "..."]
      in the scratch worktree: clean tree -> demo passes; apply patch -> 128 tests pass, demo fails;
      then copies patch + demo to /verif/seeded/<seed-id>/ with meta.json; leaves the worktree clean.
  tools/mutant.py run <worktree> <seed-id> <Cxx> [<Cxx> ...]
      applies /verif/seeded/<seed-id>/patch.diff in the scratch worktree, runs the given checks with
      VERIF_REPO=<worktree>, reverts the worktree, records the outcome in meta.json ("checks").
The scratch worktree is a `git worktree` of /repo outside /repo and /verif; nothing is applied to /repo.
"""
import json, os, re, shutil, subprocess, sys, time

V = os.path.dirname(os.path.dirname(os.path.abspath(__file__)))
ENV = dict(os.environ, CARGO_NET_OFFLINE='true')


def sh(cmd, cwd=None, timeout=3600, env=None):
    p = subprocess.run(cmd, cwd=cwd, shell=isinstance(cmd, str), stdout=subprocess.PIPE, stderr=subprocess.STDOUT, text=True,
                       timeout=timeout, env=env or ENV)
    return p.returncode, p.stdout


def clean(wt):
    sh(['git', '-C', wt, 'checkout', '--', '.'])
    rc, out = sh(['git', '-C', wt, 'status', '--short'])
    return out.strip() == ''


def run_tests(wt):
    rc, out = sh('cargo test --workspace --no-fail-fast --offline 2>&1', cwd=wt)
    passed = sum(int(m.group(1)) for m in re.finditer(r'test result: \w+\. (\d+) passed', out))
    failed = sum(int(m.group(1)) for m in re.finditer(r'test result: \w+\. \d+ passed; (\d+) failed', out))
    return rc, passed, failed, out[-1500:]


DEMO_ARGS = ''


def run_demo(demo):
    """-> (rc, tail). `cargo run` if the crate has a binary, else `cargo test`"""
    has_bin = os.path.exists(os.path.join(demo, 'src', 'main.rs')) or os.path.isdir(os.path.join(demo, 'src', 'bin'))
    cmd = ('cargo run --offline %s 2>&1' if has_bin else 'cargo test --offline %s 2>&1') % DEMO_ARGS
    for sub in [demo] + [os.path.join(demo, x) for x in os.listdir(demo) if os.path.isdir(os.path.join(demo, x))]:
        shutil.rmtree(os.path.join(sub, 'target'), ignore_errors=True)
    rc, out = sh(cmd, cwd=demo)
    return cmd, rc, out[-1500:]


def confirm(wt, patch, demo, sid, prop, needs):
    assert clean(wt), 'worktree not clean'
    res = {'seed_id': sid, 'property': prop, 'needs': needs, 'worktree': wt, 'ran': []}
    cmd, rc0, out0 = run_demo(demo)
    res['ran'].append({'tree': 'clean', 'cmd': 'cd demo && ' + cmd, 'exit': rc0})
    rc, out = sh(['git', '-C', wt, 'apply', os.path.abspath(patch)])
    assert rc == 0, 'patch does not apply: ' + out
    try:
        trc, passed, failed, tail = run_tests(wt)
        res['ran'].append({'tree': 'mutant', 'cmd': 'cargo test --workspace --no-fail-fast --offline', 'exit': trc,
                           'passed': passed, 'failed': failed})
        cmd, rc1, out1 = run_demo(demo)
        res['ran'].append({'tree': 'mutant', 'cmd': 'cd demo && ' + cmd, 'exit': rc1, 'tail': out1[-600:]})
    finally:
        assert clean(wt)
    ok = rc0 == 0 and rc1 != 0 and trc == 0 and passed == 128 and failed == 0
    res['confirmed'] = ok
    print(json.dumps({k: res[k] for k in ('seed_id', 'confirmed')}), 'clean demo rc=%d, mutant demo rc=%d, tests %d/%d rc=%d' % (
        rc0, rc1, passed, passed + failed, trc))
    if not ok:
        print(out0[-800:], '\n----\n', out1[-800:], '\n----\n', tail[-800:])
        return 1
    dst = os.path.join(V, 'seeded', sid)
    shutil.rmtree(dst, ignore_errors=True)
    os.makedirs(dst)
    shutil.copy(patch, os.path.join(dst, 'patch.diff'))
    shutil.copytree(demo, os.path.join(dst, 'demo'), ignore=shutil.ignore_patterns('target'))
    notes = patch.replace('patch', 'notes').replace('.diff', '.md')
    if os.path.exists(notes):
        shutil.copy(notes, os.path.join(dst, 'notes.md'))
    res.pop('worktree')
    res['demo_note'] = ('the demo crate depends on bitbybit by the absolute path of the scratch worktree it was written in (%s); '
                        'to re-run it, point that path at a checkout with patch.diff applied' % wt)
    json.dump(res, open(os.path.join(dst, 'meta.json'), 'w'), indent=1)
    return 0


def run(wt, sid, pids):
    dst = os.path.join(V, 'seeded', sid)
    meta = json.load(open(os.path.join(dst, 'meta.json')))
    assert clean(wt), 'worktree not clean'
    rc, out = sh(['git', '-C', wt, 'apply', os.path.join(dst, 'patch.diff')])
    assert rc == 0, out
    results = meta.get('checks', {})
    try:
        env = dict(ENV, VERIF_REPO=wt)
        for pid in pids:
            t0 = time.time()
            rc, out = sh([os.path.join(V, 'check'), pid, '--tier', 'quick'], cwd=V, env=env, timeout=7200)
            viol = [l for l in out.splitlines() if l.startswith('VIOLATION')]
            results[pid] = {'exit': rc, 'violations': len(viol), 'first': viol[0] if viol else None,
                            'wall_s': round(time.time() - t0, 1)}
            tail = '' if rc in (0, 1) else out[-1500:]
            print(sid, pid, 'exit', rc, viol[0] if viol else '', tail)
    finally:
        assert clean(wt)
    meta['checks'] = results
    meta['caught_by'] = sorted(p for p, r in results.items() if r['exit'] == 1)
    json.dump(meta, open(os.path.join(dst, 'meta.json'), 'w'), indent=1)
    return 0


if __name__ == '__main__':
    a = sys.argv[1:]
    if a[0] == 'confirm':
        needs = ''
        if '--demo-args' in a:
            k = a.index('--demo-args')
            DEMO_ARGS = a[k + 1]
            del a[k:k + 2]
        if '--needs' in a:
            k = a.index('--needs')
            needs = a[k + 1]
            del a[k:k + 2]
        sys.exit(confirm(a[1], a[2], a[3], a[4], a[5], needs))
    if a[0] == 'run':
        sys.exit(run(a[1], a[2], a[3:]))
    print(__doc__)
    sys.exit(2)
