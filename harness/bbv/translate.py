"""xlate JSON (generic syntax tree of a real macro expansion) -> Coq terms of BB.Expr / BB.Program.

This is the translator half of the tie between the model and the code: it is purely syntactic
(no type inference, no rewriting); anything it does not recognise becomes EUnsupported, which makes
the corresponding obligation fail, never pass."""
import re

NATIVE = (8, 16, 32, 64, 128)


def storage(n):
    for s in NATIVE:
        if n <= s:
            return s
    return 128


def cstr(s):
    return '"' + s.replace('"', '""') + '"'


def ity(name):
    """Rust integer type name -> Coq ity term or None"""
    m = re.fullmatch(r'u(\d+)', name)
    if m and int(m.group(1)) in NATIVE:
        return '(TU %d)' % int(m.group(1))
    m = re.fullmatch(r'i(\d+)', name)
    if m and int(m.group(1)) in NATIVE:
        return '(TI %d)' % int(m.group(1))
    if name == 'usize':
        return 'TUsize'
    return None


def arb_type(seg):
    """'u5' -> (storage, n) ; 'UInt<u8,5usize>' -> (8, 5); else None"""
    m = re.fullmatch(r'u(\d+)', seg)
    if m:
        n = int(m.group(1))
        if 1 <= n <= 127 and n not in NATIVE:
            return (storage(n), n)
        return None
    m = re.fullmatch(r'UInt<u(\d+),(\d+)(usize)?>', seg)
    if m:
        return (int(m.group(1)), int(m.group(2)))
    return None


BINOPS = {'<<': 'OShl', '>>': 'OShr', '&': 'OAnd', '|': 'OOr', '^': 'OXor', '+': 'OAdd', '-': 'OSub',
          '*': 'OMul', '<': 'OLt', '!=': 'ONe', '==': 'OEq'}


class Ctx:
    def __init__(self, params, struct_names):
        self.params = params          # set of parameter names
        self.locals = set()
        self.struct_names = struct_names  # names that mean "this struct" (Self, S)


def unsupported(node):
    import json
    return '(EUnsupported %s)' % cstr(json.dumps(node, sort_keys=True)[:200])


def is_self_raw(e):
    return e.get('e') == 'field' and e.get('member') == 'raw_value' and \
        e['x'].get('e') == 'path' and e['x']['segs'] == ['self']


def tr_expr(e, cx):
    k = e.get('e')
    if k == 'lit':
        if e['kind'] == 'int':
            suf = e['suffix']
            t = 'TLit' if suf == '' else ity(suf)
            if t is None:
                return unsupported(e)
            return '(ELit %s %s)' % (t, e['value'])
        if e['kind'] == 'bool':
            return '(EBool %s)' % ('true' if e['value'] else 'false')
        return unsupported(e)
    if k == 'field':
        if is_self_raw(e):
            return 'ERaw'
        return unsupported(e)
    if k == 'path':
        segs = e['segs']
        if len(segs) == 2 and not e.get('leading_colon') and segs[1] in ('MAX', 'MIN') and ity(segs[0]) and segs[0] != 'usize':
            # u8::MAX, i16::MIN, ...: associated constants of the primitive integers
            w = int(segs[0][1:])
            if segs[0][0] == 'u':
                val = (1 << w) - 1 if segs[1] == 'MAX' else 0
            else:
                val = (1 << (w - 1)) - 1 if segs[1] == 'MAX' else (1 << (w - 1))
            return '(ELit %s %d)' % (ity(segs[0]), val)
        if len(segs) == 1 and not e.get('leading_colon'):
            x = segs[0]
            if x in cx.locals:
                return '(EVar %s)' % cstr(x)
            if x == 'index' and x in cx.params:
                return 'EIdx'
            if x in ('field_value', 'value') and x in cx.params:
                return 'EArg'
        return unsupported(e)
    if k == 'bin':
        op = BINOPS.get(e['op'])
        if op is None:
            return unsupported(e)
        return '(EBin %s %s %s)' % (op, tr_expr(e['l'], cx), tr_expr(e['r'], cx))
    if k == 'un':
        if e['op'] == '!':
            return '(ENot %s)' % tr_expr(e['x'], cx)
        return unsupported(e)
    if k == 'cast':
        t = ity(e['ty'])
        if t is None:
            return unsupported(e)
        return '(ECast %s %s)' % (tr_expr(e['x'], cx), t)
    if k == 'if':
        if e['f'] is None:
            return unsupported(e)
        return '(EIf %s %s %s)' % (tr_expr(e['c'], cx), tr_block(e['t'], cx), tr_expr(e['f'], cx))
    if k == 'block':
        if e.get('unsafe') or e.get('const'):
            return unsupported(e)
        return tr_block(e['b'], cx)
    if k == 'call':
        f = e['f']
        if f.get('e') == 'path' and len(e['args']) == 1 and f['segs'][:2] == ['core', 'convert'] and len(f['segs']) == 3 \
                and re.fullmatch(r'identity(<[\w:]+>)?', f['segs'][2]):
            # ::core::convert::identity::<T>(x) is x; the type argument is a static check (rustc's), not behaviour
            return tr_expr(e['args'][0], cx)
        if f.get('e') == 'path' and not f.get('leading_colon'):
            segs = f['segs']
            last = segs[-1]
            m = re.fullmatch(r'extract_u(\d+)', last)
            if m and len(segs) >= 2 and len(e['args']) == 2:
                at = arb_type(segs[-2])
                pre = segs[:-2]
                if at and pre in ([], ['arbitrary_int']) and re.fullmatch(r'u\d+', segs[-2]):
                    return '(EExtract %d %d %s %s)' % (int(m.group(1)), at[1], tr_expr(e['args'][0], cx),
                                                       tr_expr(e['args'][1], cx))
                return unsupported(e)
            if last == 'new' and len(segs) >= 2 and len(e['args']) == 1:
                at = arb_type(segs[-2])
                if at and segs[:-2] in ([], ['arbitrary_int']):
                    return '(EUNew %d %d %s)' % (at[0], at[1], tr_expr(e['args'][0], cx))
                return unsupported(e)
            if last == 'new_with_raw_value' and len(segs) >= 2 and len(e['args']) == 1:
                ty = '::'.join(segs[:-1])
                if ty not in cx.struct_names:
                    return '(ECustomNew %s %s)' % (cstr(ty), tr_expr(e['args'][0], cx))
        return unsupported(e)
    if k == 'mcall':
        wrap = {'wrapping_shl': 'OShl', 'wrapping_shr': 'OShr', 'wrapping_add': 'OAdd', 'wrapping_sub': 'OSub', 'wrapping_mul': 'OMul'}
        if e['method'] in wrap and len(e['args']) == 1 and e['turbofish'] == '':
            return '(EWrapBin %s %s %s)' % (wrap[e['method']], tr_expr(e['recv'], cx), tr_expr(e['args'][0], cx))
        if e['args'] == [] and e['turbofish'] == '':
            if e['method'] == 'value':
                return '(EUValue %s)' % tr_expr(e['recv'], cx)
            if e['method'] == 'raw_value':
                return '(ECustomRaw %s)' % tr_expr(e['recv'], cx)
        return unsupported(e)
    return unsupported(e)


def tr_block(b, cx, final=None):
    """fold a block into nested ELet / EAssert; `final(e)` translates the last expression"""
    stmts = b['stmts']
    if not stmts:
        return unsupported(b)
    saved = set(cx.locals)
    try:
        return _fold(stmts, 0, cx, final)
    finally:
        cx.locals = saved


def _fold(stmts, i, cx, final):
    s = stmts[i]
    last = i == len(stmts) - 1
    if s['s'] in ('let', 'const'):
        if last or s.get('init') is None:
            return unsupported(s)
        init = tr_expr(s['init'], cx)
        # `const X: T = e` / `let x: T = e`: the annotation is checked by rustc; the model is dynamically typed,
        # except that an unsuffixed integer literal takes the annotated type (as rustc infers it)
        ini = s['init']
        if s.get('ty') and ity(s['ty']) and ini.get('e') == 'lit' and ini.get('kind') == 'int' and ini.get('suffix') == '':
            init = '(ELit %s %s)' % (ity(s['ty']), ini['value'])
        elif s.get('ty') and ity(s['ty']) and ini.get('e') == 'un' and ini.get('op') == '!' and ini['x'].get('e') == 'lit' \
                and ini['x'].get('kind') == 'int' and ini['x'].get('suffix') == '':
            init = '(ENot (ELit %s %s))' % (ity(s['ty']), ini['x']['value'])
        cx.locals.add(s['name'])
        body = _fold(stmts, i + 1, cx, final)
        return '(ELet %s %s %s)' % (cstr(s['name']), init, body)
    if s['s'] == 'expr':
        e = s['e']
        if e.get('e') == 'macro' and e['name'] == 'assert' and e['path'] == ['assert'] and e.get('args') \
                and len(e['args']) == 1 and s['semi'] and not last:
            c = tr_expr(e['args'][0], cx)
            return '(EAssert %s %s)' % (c, _fold(stmts, i + 1, cx, final))
        if e.get('e') == 'macro' and e['name'] == 'debug_assert' and e['path'] == ['debug_assert'] and e.get('args') \
                and len(e['args']) == 1 and s['semi'] and not last:
            c = tr_expr(e['args'][0], cx)
            return '(EDebugAssert %s %s)' % (c, _fold(stmts, i + 1, cx, final))
        if last:
            if final is not None:
                return final(s, cx)
            if s['semi']:
                return unsupported(s)
            return tr_expr(e, cx)
    return unsupported(s)


def tr_fn_body(fn, struct_name):
    """-> Coq `body` term: BValue e | BStruct e | BSet e"""
    params = set(p['name'] for p in fn['params'] if 'name' in p)
    cx = Ctx(params, {'Self', struct_name})
    kind = {}

    def final(s, cx):
        e = s['e']
        if e.get('e') == 'struct' and e['path'] in (['Self'], [struct_name]) and e['rest'] is None \
                and len(e['fields']) == 1 and e['fields'][0]['name'] == 'raw_value' and not s['semi']:
            kind['k'] = 'BStruct'
            return tr_expr(e['fields'][0]['e'], cx)
        if e.get('e') == 'assign' and is_self_raw(e['l']) and s['semi']:
            kind['k'] = 'BSet'
            return tr_expr(e['r'], cx)
        if s['semi']:
            kind['k'] = 'BValue'
            return unsupported(s)
        kind['k'] = 'BValue'
        return tr_expr(e, cx)

    body = tr_block(fn['body'], cx, final)
    return '(%s %s)' % (kind.get('k', 'BValue'), body)


# ---- bitenum expansions ----------------------------------------------------------------------------

def enum_ty(t):
    """type string -> Coq term of type option (N*N) * N, or None"""
    m = re.fullmatch(r'arbitrary_int::UInt<u(\d+),(\d+)(usize)?>', t or '')
    if m:
        return '(Some (%s, %s), 0)' % (m.group(1), m.group(2))
    m = re.fullmatch(r'u(\d+)', t or '')
    if m:
        return '(None, %s)' % m.group(1)
    return None


def int_lit(e):
    if e and e.get('e') == 'lit' and e.get('kind') == 'int' and e.get('suffix') == '':
        return int(e['value'])
    return None


def coq_enum_prog(name, xj):
    bad = '(mkEnumProg %s false [] false None 0 (None, 0) false (None, 0) None false [] DefOther true [] false)' % cstr(name)
    if not xj.get('ok'):
        return bad
    enum = None
    fns = {}
    for it in xj['items']:
        if it['kind'] == 'enum' and it['name'] == name:
            enum = it
        if it['kind'] == 'impl' and it['self_ty'] == name and it['trait'] is None:
            for fi in it['items']:
                if fi['kind'] == 'fn':
                    fns[fi['name']] = fi
    if enum is None:
        return bad
    derive = any(a['path'] == 'derive' and re.sub(r'\s', '', a['tokens']) == 'derive(Copy,Clone)' for a in enum['attrs'])
    vs = []
    for v in enum['variants']:
        n = int_lit(v.get('discr'))
        cfg = any(a['path'] == 'cfg' for a in v['attrs'])
        vs.append('(%s, %s, %s)' % (cstr(v['name']), 'None' if n is None else '(Some %d)' % n, 'true' if cfg else 'false'))
    # raw_value
    raw_ok, ctor, cast, raw_ret = False, 'None', 0, '(None, 0)'
    f = fns.get('raw_value')
    if f and f['vis'] == 'pub' and f['const'] and not f['unsafe'] and f['params'] == [{'self': 'value'}] \
            and len(f['body']['stmts']) == 1 and f['body']['stmts'][0]['s'] == 'expr' and not f['body']['stmts'][0]['semi']:
        e = f['body']['stmts'][0]['e']
        rt = enum_ty(f['ret'])
        inner = e
        if e.get('e') == 'call' and e['f'].get('e') == 'path' and len(e['args']) == 1 and e['f']['segs'][-1] == 'new' \
                and e['f']['segs'][:-2] == ['arbitrary_int'] and not e['f'].get('leading_colon'):
            at = arb_type(e['f']['segs'][-2])
            if at and e['f']['segs'][-2].startswith('UInt<'):
                ctor = '(Some (%d, %d))' % at
                inner = e['args'][0]
        if inner.get('e') == 'cast' and inner['x'].get('e') == 'path' and inner['x']['segs'] == ['self']:
            m = re.fullmatch(r'u(\d+)', inner['ty'])
            if m and rt:
                cast = int(m.group(1))
                raw_ret = rt
                raw_ok = True
    # new_with_raw_value
    new_ok, new_param, ret_result, reader, arms, default = False, '(None, 0)', 'None', False, [], 'DefOther'
    f = fns.get('new_with_raw_value')
    st = f['body']['stmts'] if f else []
    # `let raw = value.value(); match raw { .. }`: a local that names the scrutinee is the scrutinee
    alias = {}
    while len(st) > 1 and st[0]['s'] == 'let' and st[0].get('ty') is None and st[0].get('init') is not None:
        alias[st[0]['name']] = st[0]['init']
        st = st[1:]

    def resolve(x):
        seen = 0
        while x.get('e') == 'path' and len(x['segs']) == 1 and x['segs'][0] in alias and seen < 4:
            x = alias[x['segs'][0]]
            seen += 1
        return x
    if f and f['vis'] == 'pub' and f['const'] and not f['unsafe'] and len(f['params']) == 1 and f['params'][0].get('name') == 'value' \
            and len(st) == 1 and st[0]['s'] == 'expr' and not st[0]['semi']:
        e = st[0]['e']
        pt = enum_ty(f['params'][0]['ty'])
        ret = f['ret'] or ''
        m = re.fullmatch(r'Result<Self,u(\d+)>', ret)
        wraps = None
        if m:
            ret_result = '(Some %s)' % m.group(1)
            wraps = True
        elif ret == 'Self':
            wraps = False
        if e.get('e') == 'match' and pt and wraps is not None:
            scrut = e['x']
            x = resolve(e['x'])
            okx = False
            if x.get('e') == 'path' and x['segs'] == ['value']:
                reader, okx = False, True
            elif x.get('e') == 'mcall' and x['method'] == 'value' and x['args'] == [] and x['recv'].get('e') == 'path' \
                    and x['recv']['segs'] == ['value']:
                reader, okx = True, True
            good = okx
            for k, arm in enumerate(e['arms']):
                last = k == len(e['arms']) - 1
                pat = arm['pat']
                if arm['guard'] is not None:
                    good = False
                    break
                if pat['p'] == 'lit' and int_lit(pat['e']) is not None and not last:
                    cfg = any(a['path'] == 'cfg' for a in arm['attrs'])
                    if any(a['path'] != 'cfg' for a in arm['attrs']):
                        good = False
                    b = arm['body']
                    wrapped = False
                    if b.get('e') == 'call' and b['f'].get('e') == 'path' and b['f']['segs'] == ['Ok'] and len(b['args']) == 1:
                        wrapped = True
                        b = b['args'][0]
                    if b.get('e') == 'path' and len(b['segs']) == 2 and b['segs'][0] == 'Self':
                        arms.append('(%d, %s, %s, %s)' % (int_lit(pat['e']), cstr(b['segs'][1]), 'true' if wrapped else 'false',
                                                          'true' if cfg else 'false'))
                    else:
                        good = False
                elif last and not arm['attrs']:
                    b = arm['body']
                    is_err = b.get('e') == 'call' and b['f'].get('e') == 'path' and b['f']['segs'] == ['Err'] and len(b['args']) == 1
                    if pat['p'] == 'ident' and is_err and b['args'][0].get('e') == 'path' and b['args'][0]['segs'] == [pat['name']]:
                        default = 'DefErr'          # `name => Err(name)`: the binding is the scrutinee
                    elif pat['p'] == 'wild' and is_err and (b['args'][0] == scrut or resolve(b['args'][0]) == x):
                        default = 'DefErr'          # `_ => Err(<the scrutinee again>)`
                    elif pat['p'] == 'wild' and b.get('e') == 'macro' and b['path'] == ['unreachable'] and b['tokens'].strip() == '':
                        default = 'DefUnreachable'
                    else:
                        good = False
                else:
                    good = False
            if good:
                new_ok = True
                new_param = pt
    b = lambda x: 'true' if x else 'false'
    roots = set()
    collect_roots([it for it in xj['items'] if it['kind'] != 'enum'], roots)
    bound = set()
    bound_names(xj['items'], bound)
    roots -= bound
    docs = all(f in fns and has_doc_attr(fns[f]['attrs']) for f in ('raw_value', 'new_with_raw_value'))
    return '(mkEnumProg %s %s [%s] %s %s %d %s %s %s %s %s [%s] %s %s [%s] %s)' % (
        cstr(name), b(derive), '; '.join(vs), b(raw_ok), ctor, cast, raw_ret, b(new_ok), new_param, ret_result, b(reader),
        '; '.join(arms), default, b(xj.get('has_unsafe')), '; '.join(cstr(r) for r in sorted(roots)), b(docs))


# ---- everything around the accessor bodies: struct item, constants, trait impls, builder ------------

def _is_path(e, segs):
    return isinstance(e, dict) and e.get('e') == 'path' and e.get('segs') == segs and not e.get('leading_colon')


def _lit_int(e, suffix=None):
    """value of an integer literal expression (any suffix unless one is required), else None"""
    if isinstance(e, dict) and e.get('e') == 'lit' and e.get('kind') == 'int':
        if suffix is None or e.get('suffix') == suffix:
            return int(e['value'])
    return None


def _single_expr(block):
    st = block['stmts']
    if len(st) == 1 and st[0]['s'] == 'expr' and not st[0]['semi']:
        return st[0]['e']
    return None


def _call(e, segs, nargs):
    if isinstance(e, dict) and e.get('e') == 'call' and _is_path(e['f'], segs) and len(e['args']) == nargs:
        return e['args']
    return None


def _arb(seg):
    m = re.fullmatch(r'u(\d+)', seg or '')
    return int(m.group(1)) if m else None


def coq_optN(x):
    return 'None' if x is None else '(Some %d)' % x


def cinit_of(c, name):
    e = c['expr']
    a = _call(e, ['Self', 'new_with_raw_value'], 1)
    if a is not None:
        if _lit_int(a[0], '') == 0:
            return '(CIZero None)'
        if _is_path(a[0], ['Self', 'DEFAULT_RAW_VALUE']):
            return 'CIDefault'
        if a[0].get('e') == 'call' and a[0]['f'].get('e') == 'path' and len(a[0]['f']['segs']) == 2 \
                and a[0]['f']['segs'][1] == 'new' and not a[0]['f'].get('leading_colon') and len(a[0]['args']) == 1 \
                and _arb(a[0]['f']['segs'][0]) is not None and _lit_int(a[0]['args'][0], '') == 0:
            return '(CIZero (Some %d))' % _arb(a[0]['f']['segs'][0])
        return 'CIOther'

    def dv(x):
        # the user's default literal is pasted as written: it may carry the suffix of the storage type (rustc rejects any other)
        v = _lit_int(x, '')
        if v is None and isinstance(x, dict) and re.fullmatch(r'u(8|16|32|64|128)', x.get('suffix') or ''):
            v = _lit_int(x)
        if v is not None:
            return '(DVLit %d)' % v
        if x.get('e') == 'path' and len(x['segs']) == 1 and not x.get('leading_colon'):
            return '(DVIdent %s)' % cstr(x['segs'][0])
        return None
    if dv(e) is not None:
        return '(CIDefRaw None %s)' % dv(e)
    if e.get('e') == 'call' and e['f'].get('e') == 'path' and len(e['f']['segs']) == 2 and e['f']['segs'][1] == 'new' \
            and not e['f'].get('leading_colon') and len(e['args']) == 1 and _arb(e['f']['segs'][0]) is not None \
            and dv(e['args'][0]) is not None:
        return '(CIDefRaw (Some %d) %s)' % (_arb(e['f']['segs'][0]), dv(e['args'][0]))
    return 'CIOther'


def shape_new(fn):
    e = _single_expr(fn['body'])
    return 'ShSelfDefault' if e is not None and _is_path(e, ['Self', 'DEFAULT']) else 'ShOther'


def shape_builder(fn, name):
    partial = 'Partial' + name
    st = fn['body']['stmts']
    if len(st) == 1:
        e = _single_expr(fn['body'])
        a = _call(e, [partial], 1)
        if a is not None:
            if _is_path(a[0], [name, 'DEFAULT']):
                return 'ShBuilderDefault'
            b = _call(a[0], [name, 'new_with_raw_value'], 1)
            if b is not None and _lit_int(b[0], '') == 0:
                return '(ShBuilderZero None)'
    if len(st) == 2 and st[0]['s'] == 'const' and st[0]['name'] == 'ZERO' and st[1]['s'] == 'expr' and not st[1]['semi']:
        w = _arb(st[0]['ty'])
        init = st[0]['init']
        if w is not None and init.get('e') == 'call' and _is_path(init['f'], [st[0]['ty'], 'new']) and len(init['args']) == 1 \
                and _lit_int(init['args'][0], '') == 0:
            a = _call(st[1]['e'], [partial], 1)
            if a is not None:
                b = _call(a[0], [name, 'new_with_raw_value'], 1)
                if b is not None and _is_path(b[0], ['ZERO']):
                    return '(ShBuilderZero (Some %d))' % w
    return 'ShOther'


def shape_step(fn, name):
    partial = 'Partial' + name
    e = _single_expr(fn['body'])
    if e is None:
        return 'ShOther'
    if e.get('e') == 'field' and e.get('member') == '0' and _is_path(e['x'], ['self']):
        return 'ShBuild'
    a = _call(e, [partial], 1)
    if a is None:
        return 'ShOther'
    calls = []
    cur = a[0]
    while isinstance(cur, dict) and cur.get('e') == 'mcall':
        if cur['turbofish'] != '':
            return 'ShOther'
        args = cur['args']
        if len(args) == 1 and _is_path(args[0], ['value']):
            calls.append((cur['method'], None))
        elif len(args) == 2 and _lit_int(args[0], 'usize') is not None and args[1].get('e') == 'index' \
                and _is_path(args[1]['x'], ['value']) and _lit_int(args[1]['i'], 'usize') == _lit_int(args[0], 'usize'):
            calls.append((cur['method'], _lit_int(args[0], 'usize')))
        else:
            return 'ShOther'
        cur = cur['recv']
    if not (isinstance(cur, dict) and cur.get('e') == 'field' and cur.get('member') == '0' and _is_path(cur['x'], ['self'])):
        return 'ShOther'
    calls.reverse()
    return '(ShStep [%s])' % '; '.join('(%s, %s)' % (cstr(m), coq_optN(i)) for m, i in calls)


def _label(e):
    """the text of a `stringify!(x)` or of a string literal"""
    if isinstance(e, dict) and e.get('e') == 'macro' and e.get('path') == ['stringify']:
        return e['tokens'].strip().replace(' ', '')
    if isinstance(e, dict) and e.get('e') == 'lit' and e.get('kind') == 'str':
        return e['value']
    return None


def shape_debug(fn):
    ok_sig = fn['params'] == [{'self': '&'}, {'name': 'f', 'ty': '&mut::core::fmt::Formatter<\'_>'}] and fn['ret'] == '::core::fmt::Result' \
        and not fn['const'] and not fn['unsafe'] and fn['generics'] == ''
    e = _single_expr(fn['body'])
    if not ok_sig or e is None or e.get('e') != 'mcall' or e['method'] != 'finish' or e['args'] != [] or e['turbofish'] != '':
        return 'ShOther'
    fields = []
    cur = e['recv']
    while isinstance(cur, dict) and cur.get('e') == 'mcall' and cur['method'] == 'field':
        a = cur['args']
        if len(a) != 2 or cur['turbofish'] != '' or _label(a[0]) is None:
            return 'ShOther'
        r = a[1]
        if not (r.get('e') == 'ref' and not r['mut'] and r['x'].get('e') == 'mcall' and r['x']['args'] == [] and
                r['x']['turbofish'] == '' and _is_path(r['x']['recv'], ['self'])):
            return 'ShOther'
        fields.append((_label(a[0]), r['x']['method']))
        cur = cur['recv']
    if not (isinstance(cur, dict) and cur.get('e') == 'mcall' and cur['method'] == 'debug_struct' and _is_path(cur['recv'], ['f'])
            and len(cur['args']) == 1 and _label(cur['args'][0]) is not None):
        return 'ShOther'
    fields.reverse()
    return '(ShDebug %s [%s])' % (cstr(_label(cur['args'][0])),
                                  '; '.join('(%s, %s)' % (cstr(a), cstr(b)) for a, b in fields))


_PATH_RE = re.compile(r"(?<![A-Za-z0-9_'])(::)?([A-Za-z_][A-Za-z0-9_#]*)((?:::[A-Za-z_][A-Za-z0-9_#]*)*)")
_KEYWORDS = {'mut', 'const', 'dyn', 'as', 'fn', 'impl', 'for', 'let', 'if', 'else', 'match', 'pub', 'struct', 'enum', 'ref',
             'return', 'true', 'false', 'unsafe', 'where', 'in', 'static', 'r'}


def type_roots(t, out):
    t = t.replace('&mut', '& ')
    for m in _PATH_RE.finditer(t):
        if m.group(2) in _KEYWORDS:
            continue
        out.add(('::' if m.group(1) else '') + m.group(2))


def token_roots(tokens, out):
    """roots of the path-like token runs in a spaced token string (used for `other` nodes)"""
    t = re.sub(r'\s*::\s*', '::', tokens)
    t = re.sub(r'"(?:[^"\\]|\\.)*"', '""', t)
    for m in _PATH_RE.finditer(t):
        if m.group(2) in _KEYWORDS:
            continue
        # a method or field name after `.` is not a path root
        if m.start() > 0 and t[:m.start()].rstrip().endswith('.'):
            continue
        out.add(('::' if m.group(1) else '') + m.group(2))


def collect_roots(node, out):
    if isinstance(node, list):
        for x in node:
            collect_roots(x, out)
        return
    if not isinstance(node, dict):
        return
    k = node.get('e')
    if k == 'path':
        seg0 = re.sub(r'<.*', '', node['segs'][0])
        out.add(('::' if node.get('leading_colon') else '') + seg0)
        for s in node['segs']:
            if '<' in s:
                type_roots(s[s.index('<'):], out)
    elif k == 'struct':
        p = node['path']
        out.add('::' + p[1] if p and p[0] == '' and len(p) > 1 else (p[0] if p else '?'))
    elif k == 'macro':
        p = node['path']
        if len(p) == 1:
            out.add(p[0] + '!')
        else:
            out.add('::' + p[1] if p[0] == '' else p[0])
        if node['name'] == 'stringify' and len(p) == 1:
            return             # the argument is turned into a string literal, not evaluated
        if node.get('args') is None:
            token_roots(node.get('tokens', ''), out)
    elif k == 'cast':
        type_roots(node['ty'], out)
    elif k == 'mcall' and node.get('turbofish'):
        type_roots(node['turbofish'], out)
    elif k == 'other' or node.get('s') == 'other' or node.get('kind') == 'other' or node.get('p') in ('other', 'range'):
        token_roots(node.get('tokens', ''), out)
    if 'p' in node and node.get('p') in ('path', 'tuple_struct'):
        p = node.get('segs') or node.get('path') or ['?']
        out.add(p[0])
    for key in ('ty', 'ret', 'self_ty', 'trait'):
        v = node.get(key)
        if isinstance(v, str):
            type_roots(v, out)
    if 'other' in node and isinstance(node['other'], str):
        token_roots(node['other'], out)
    for key, v in node.items():
        if key == 'attrs':
            continue           # attributes are doc / inline / derive / cfg / repr / deprecated: checked separately
        if isinstance(v, (dict, list)):
            collect_roots(v, out)


def bound_names(node, out):
    """names introduced inside the expansion itself: let / block-const bindings, fn parameters, binding patterns"""
    if isinstance(node, list):
        for x in node:
            bound_names(x, out)
    elif isinstance(node, dict):
        if node.get('s') in ('let', 'const') and isinstance(node.get('name'), str):
            out.add(node['name'])
        if node.get('kind') == 'fn':
            for p in node.get('params', []):
                if 'name' in p:
                    out.add(p['name'])
        if node.get('p') == 'ident' and isinstance(node.get('name'), str):
            out.add(node['name'])
        for v in node.values():
            if isinstance(v, (dict, list)):
                bound_names(v, out)


ALLOWED_ATTRS = {'doc', 'inline', 'derive', 'repr', 'deprecated', 'cfg'}


def attr_problems(node, out):
    """attribute paths outside the expected set anywhere in the expansion"""
    if isinstance(node, list):
        for x in node:
            attr_problems(x, out)
    elif isinstance(node, dict):
        for a in node.get('attrs', []) or []:
            if isinstance(a, dict) and a.get('path') not in ALLOWED_ATTRS:
                out.append('attribute ' + a.get('path', '?'))
        for v in node.values():
            if isinstance(v, (dict, list)):
                attr_problems(v, out)


def has_doc_attr(attrs):
    return any(a['path'] == 'doc' for a in attrs)


def canon_ty(t):
    """`arbitrary_int::uN` and `uN` name the same type (the user may write either; the macro echoes the spelling)"""
    return re.sub(r'(?<![\w:])(?:::)?arbitrary_int::(u\d+)\b', r'\1', t or '')


def coq_sig(fi):
    selfk = ''
    params = []
    for p in fi['params']:
        if 'self' in p:
            selfk = p['self']
        elif 'name' in p:
            params.append((p['name'], canon_ty(p['ty'])))
        else:
            params.append(('?', p.get('other', '?')))
    fi = dict(fi, ret=canon_ty(fi['ret']))
    return '(mkSig %s %s %s %s %s [%s] %s)' % (
        cstr(fi['name']), 'true' if fi['vis'] == 'pub' else 'false', 'true' if fi['const'] else 'false',
        'true' if has_doc_attr(fi['attrs']) else 'false', cstr(selfk),
        '; '.join('(%s, %s)' % (cstr(a), cstr(b)) for a, b in params), cstr(fi['ret'] or ''))


def coq_extras(name, xj, user_attr_paths=()):
    """xlate json of one bitfield expansion -> Coq `extras` term"""
    empty = '(mkExtras false false false [] [] None None None [] ["untranslatable"%string] true [])'
    if not xj.get('ok'):
        return empty
    partial = 'Partial' + name
    derive = repr_c = sdoc = False
    consts, shapes, steps, others = [], [], [], []
    default_impl = debug_impl = partial_struct = 'None'
    for it in xj['items']:
        k = it['kind']
        if k == 'struct' and it['name'] == name:
            derive = any(a['path'] == 'derive' and re.sub(r'\s', '', a['tokens']) == 'derive(Copy,Clone)' for a in it['attrs'])
            repr_c = any(a['path'] == 'repr' and re.sub(r'\s', '', a['tokens']) == 'repr(C)' for a in it['attrs'])
            sdoc = has_doc_attr(it['attrs'])
            if it['tuple'] or it['generics'] or len(it['fields']) != 1 or it['fields'][0]['name'] != 'raw_value' \
                    or it['fields'][0]['vis'] != '':
                others.append('struct shape')
        elif k == 'struct' and it['name'] == partial:
            g = it['generics']
            m = re.fullmatch(r'u(\d+)', g[0].get('ty', '')) if len(g) == 1 and g[0].get('const') == 'MASK' else None
            if m and it['tuple'] and len(it['fields']) == 1 and it['fields'][0]['ty'] == name and it['fields'][0]['vis'] == '' \
                    and it['vis'] == 'pub':
                partial_struct = '(Some (%s, %s))' % (m.group(1), 'true' if has_doc_attr(it['attrs']) else 'false')
            else:
                others.append('partial struct shape')
        elif k == 'impl' and it['self_ty'] == name and it['trait'] is None and it['generics'] == '':
            for fi in it['items']:
                if fi['kind'] == 'const':
                    consts.append('(mkCst %s %s %s %s %s)' % (cstr(fi['name']), 'true' if fi['vis'] == 'pub' else 'false',
                                                            'true' if has_doc_attr(fi['attrs']) else 'false', cstr(fi['ty']),
                                                            cinit_of(fi, name)))
                elif fi['kind'] == 'fn':
                    if fi['name'] == 'new':
                        shapes.append('("new", %s)' % shape_new(fi))
                    elif fi['name'] == 'builder':
                        shapes.append('("builder", %s)' % shape_builder(fi, name))
                else:
                    others.append('impl item: ' + fi.get('tokens', '?')[:60])
        elif k == 'impl' and it['self_ty'] == name and it['trait'] == 'Default' and it['generics'] == '':
            fs = it['items']
            ok = len(fs) == 1 and fs[0]['kind'] == 'fn' and fs[0]['name'] == 'default' and fs[0]['params'] == [] \
                and fs[0]['ret'] == 'Self' and not fs[0]['unsafe'] and fs[0]['generics'] == ''
            default_impl = '(Some %s)' % (shape_new(fs[0]) if ok else 'ShOther')
        elif k == 'impl' and it['self_ty'] == name and it['trait'] == '::core::fmt::Debug' and it['generics'] == '':
            fs = it['items']
            ok = len(fs) == 1 and fs[0]['kind'] == 'fn' and fs[0]['name'] == 'fmt'
            debug_impl = '(Some %s)' % (shape_debug(fs[0]) if ok else 'ShOther')
        elif k == 'impl' and it['trait'] is None and it['generics'] == '' and \
                re.fullmatch(re.escape(partial) + r'<(0x[0-9a-fA-F]+|\d+)>', it['self_ty']):
            m_in = int(it['self_ty'][len(partial) + 1:-1], 0)
            fs = it['items']
            if len(fs) == 1 and fs[0]['kind'] == 'fn' and not fs[0]['unsafe'] and fs[0]['generics'] == '':
                fi = dict(fs[0])
                ret = fi['ret'] or ''
                mo = re.fullmatch(re.escape(partial) + r'<(0x[0-9a-fA-F]+|\d+)>', ret)
                out = None
                if mo:
                    out = int(mo.group(1), 0)
                    fi['ret'] = ''
                steps.append('(mkXStep %d %s %s %s)' % (m_in, coq_sig(fi), coq_optN(out), shape_step(fs[0], name)))
            else:
                others.append('builder impl shape')
        else:
            others.append('%s %s' % (k, (it.get('name') or it.get('self_ty') or it.get('tokens', ''))[:60]))
    roots = set()
    collect_roots(xj['items'], roots)
    bound = set()
    bound_names(xj['items'], bound)
    roots -= bound            # locals and parameters of the generated code are not references to anything outside it
    ap = []
    attr_problems(xj['items'], ap)
    ap = [a for a in ap if a.split(' ', 1)[1] not in user_attr_paths]
    others += ap
    return '(mkExtras %s %s %s [%s] [%s] %s %s %s [%s] [%s] %s [%s])' % (
        'true' if derive else 'false', 'true' if repr_c else 'false', 'true' if sdoc else 'false',
        '; '.join(consts), '; '.join(shapes), default_impl, debug_impl, partial_struct,
        ';\n     '.join(steps), '; '.join(cstr(o) for o in others),
        'true' if xj.get('has_unsafe') else 'false', '; '.join(cstr(r) for r in sorted(roots)))
