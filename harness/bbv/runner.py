"""Generates src/bin/runner.rs: an interpreter of case files over the compiled real expansions."""
from .decls import *


def to_base(d, expr):
    W = d['base']
    if W in NATIVE:
        return '(%s) as u%d' % (expr, W)
    return 'u%d::new((%s) as u%d)' % (W, expr, storage(W))


def base_to_u128(d, expr):
    W = d['base']
    if W in NATIVE:
        return '(%s) as u128' % expr
    return '(%s).value() as u128' % expr


def raw_ty_to_u128(n, expr):
    """expr has the raw type of an n-bit custom type (primitive if native width, else arbitrary-int)"""
    if n in NATIVE:
        return '(%s) as u128' % expr
    return '(%s).value() as u128' % expr


def u128_to_raw_ty(n, expr):
    if n in NATIVE:
        return '(%s) as u%d' % (expr, n)
    return 'u%d::new((%s) as u%d)' % (n, expr, storage(n))


def get_conv(f, by_name, expr):
    """-> Rust expression of type (u8 tag, u128)"""
    t = f['ty']
    if t['k'] == 'bool':
        return '(0u8, (%s) as u128)' % expr
    if t['k'] == 'u':
        if t['n'] in NATIVE:
            return '(0u8, (%s) as u128)' % expr
        return '(0u8, (%s).value() as u128)' % expr
    if t['k'] == 'i':
        return '(0u8, ((%s) as u%d) as u128)' % (expr, t['n'])
    n = t['n']
    if t.get('opt'):
        return 'match %s { Ok(e) => (1u8, %s), Err(b) => (2u8, b as u128) }' % (expr, raw_ty_to_u128(n, 'e.raw_value()'))
    return '(0u8, %s)' % raw_ty_to_u128(n, '(%s).raw_value()' % expr)


def arg_conv(f, by_name, expr):
    t = f['ty']
    if t['k'] == 'bool':
        return '(%s) != 0' % expr
    if t['k'] == 'u':
        return u128_to_raw_ty(t['n'], expr)
    if t['k'] == 'i':
        return '((%s) as u%d) as i%d' % (expr, t['n'], t['n'])
    n = t['n']
    target = by_name.get(t['name'])
    made = '%s::new_with_raw_value(%s)' % (t['name'], u128_to_raw_ty(n, expr))
    if target is not None and target['kind'] == 'enum' and target.get('exh') != 'true':
        return made + '.unwrap()'
    return made


def builder_call(d, by_name):
    """Rust expression building a value through the builder from the argument slice `a`"""
    name = d['name']
    k = 0
    L = ['%s::builder()' % name]
    for f in d['fields']:
        if 'w' not in f['acc']:
            continue
        wn = 'with_' + f['name'].replace('r#', '')
        if f.get('count') is None:
            L.append('.%s(%s)' % (wn, arg_conv(f, by_name, 'a[%d]' % k)))
            k += 1
        else:
            L.append('.%s([%s])' % (wn, ', '.join(arg_conv(f, by_name, 'a[%d]' % (k + i)) for i in range(f['count']))))
            k += f['count']
    L.append('.build()')
    return ''.join(L), k


def machine(d, by_name, has_builder=False):
    name = d['name']
    L = ['struct M_%s(%s);' % (name, name), 'impl Machine for M_%s {' % name,
         '    fn reset(&mut self, r0: u128) { self.0 = %s::new_with_raw_value(%s); }' % (name, to_base(d, 'r0')),
         '    fn raw(&self) -> u128 { %s }' % base_to_u128(d, 'self.0.raw_value()'),
         # the storage integer behind the (single-field, Copy) struct, read through its memory: the field is private
         '    fn store(&self) -> u128 { assert_eq!(core::mem::size_of::<%s>(), core::mem::size_of::<u%d>()); '
         '(unsafe { core::mem::transmute_copy::<%s, u%d>(&self.0) }) as u128 }' % (name, storage(d['base']), name, storage(d['base'])),
         '    fn get(&self, f: usize, i: usize) -> (u8, u128) {', '        match f {']
    for k, f in enumerate(d['fields']):
        if 'r' in f['acc']:
            call = 'self.0.%s(%s)' % (f['name'], 'i' if f.get('count') is not None else '')
            L.append('            %d => { %s }' % (k, get_conv(f, by_name, call)))
    L += ['            _ => (9u8, 0),', '        }', '    }', '    fn with(&mut self, f: usize, i: usize, v: u128) {', '        match f {']
    for k, f in enumerate(d['fields']):
        if 'w' in f['acc']:
            wn = 'with_' + f['name'].replace('r#', '')
            args = ('i, ' if f.get('count') is not None else '') + arg_conv(f, by_name, 'v')
            L.append('            %d => { self.0 = self.0.%s(%s); }' % (k, wn, args))
    L += ['            _ => {}', '        }', '    }', '    fn set(&mut self, f: usize, i: usize, v: u128) {', '        match f {']
    for k, f in enumerate(d['fields']):
        if 'w' in f['acc']:
            sn = 'set_' + f['name'].replace('r#', '')
            args = ('i, ' if f.get('count') is not None else '') + arg_conv(f, by_name, 'v')
            L.append('            %d => { self.0.%s(%s); }' % (k, sn, args))
    L += ['            _ => {}', '        }', '    }']
    if has_builder:
        call, n = builder_call(d, by_name)
        L += ['    fn build(&mut self, a: &[u128]) -> bool { if a.len() != %d { return false; } self.0 = %s; true }' % (n, call)]
    else:
        L += ['    fn build(&mut self, a: &[u128]) -> bool { false }']
    raw = lambda e: base_to_u128(d, '(%s).raw_value()' % e)
    dflt = d.get('default') is not None
    L += ['    fn facts(&self) -> String {',
          '        fn is_copy<T: Copy + Clone>() {}',
          '        is_copy::<%s>();' % name,
          '        const Z: %s = %s::ZERO;' % (name, name),
          '        format!("{} {} {:x} {:x} {} {} {}", core::mem::size_of::<%s>(), core::mem::align_of::<%s>(), %s, %s, %s, %s, %s)' % (
              name, name, raw('%s::ZERO' % name), raw('Z'),
              'format!("{:x}", %s)' % raw('%s::DEFAULT' % name) if dflt else '"-"',
              'format!("{:x}", %s)' % raw('<%s as Default>::default()' % name) if dflt else '"-"',
              'format!("{:x}", %s)' % raw('%s::new()' % name) if dflt else '"-"'),
          '    }']
    if d.get('debug'):
        L += ['    fn dbg(&self) -> Option<(String, String)> { Some((format!("{:?}", self.0), format!("{:#?}", self.0))) }']
    else:
        L += ['    fn dbg(&self) -> Option<(String, String)> { None }']
    L += ['}']
    return L


def enum_machine(d):
    name = d['name']
    n = d['bits']
    L = ['struct EM_%s;' % name, 'impl EnumMachine for EM_%s {' % name, '    fn conv(&self, x: u128) -> String {']
    raw = u128_to_raw_ty(n, 'x')
    if d.get('exh') == 'true':
        L.append('        format!("ok:{:?}", %s::new_with_raw_value(%s))' % (name, raw))
    else:
        L.append('        match %s::new_with_raw_value(%s) { Ok(v) => format!("ok:{:?}", v), Err(b) => format!("err:{:x}", b as u128) }' % (name, raw))
    L += ['    }', '    fn raws(&self) -> String {', '        let mut s: Vec<String> = Vec::new();']
    for v in d['variants']:
        if v.get('cfg') == 'all':
            L.append('        #[cfg(all())]')
        elif v.get('cfg') == 'any':
            L.append('        #[cfg(any())]')
        L.append('        s.push(format!("%s={:x}", %s));' % (v['name'], raw_ty_to_u128(n, '%s::%s.raw_value()' % (name, v['name']))))
    L += ['        s.join(",")', '    }', '}']
    return L


RUNNER_HEAD = '''#![allow(warnings)]
use corpus::*;
use std::io::{BufRead, Write};
use std::panic::{self, AssertUnwindSafe};

trait Machine {
    fn reset(&mut self, r0: u128);
    fn raw(&self) -> u128;
    fn store(&self) -> u128;
    fn get(&self, f: usize, i: usize) -> (u8, u128);
    fn with(&mut self, f: usize, i: usize, v: u128);
    fn set(&mut self, f: usize, i: usize, v: u128);
    fn build(&mut self, a: &[u128]) -> bool;
    fn facts(&self) -> String;
    fn dbg(&self) -> Option<(String, String)>;
}
trait EnumMachine {
    fn conv(&self, x: u128) -> String;
    fn raws(&self) -> String;
}
'''

RUNNER_MAIN = '''
fn hex(s: &str) -> u128 { u128::from_str_radix(s, 16).unwrap() }

fn main() {
    panic::set_hook(Box::new(|_| {}));
    let stdin = std::io::stdin();
    let mut out = std::io::BufWriter::new(std::io::stdout());
    let mut m: Option<Box<dyn Machine>> = None;
    let mut em: Option<Box<dyn EnumMachine>> = None;
    for line in stdin.lock().lines() {
        let line = line.unwrap();
        let mut it = line.split_whitespace();
        let cmd = match it.next() { Some(c) => c, None => continue };
        match cmd {
            "D" => { m = make(it.next().unwrap()); writeln!(out, "D").unwrap(); }
            "E" => { em = make_enum(it.next().unwrap()); writeln!(out, "E").unwrap(); }
            "X" => { let x = hex(it.next().unwrap()); let e = em.as_ref().unwrap();
                     match panic::catch_unwind(AssertUnwindSafe(|| e.conv(x))) { Ok(s) => writeln!(out, "{}", s).unwrap(), Err(_) => writeln!(out, "P").unwrap() } }
            "V" => { let e = em.as_ref().unwrap();
                     match panic::catch_unwind(AssertUnwindSafe(|| e.raws())) { Ok(s) => writeln!(out, "{}", s).unwrap(), Err(_) => writeln!(out, "P").unwrap() } }
            "N" => { let r0 = hex(it.next().unwrap()); m.as_mut().unwrap().reset(r0); writeln!(out, "N").unwrap(); }
            "R" => { let mm = m.as_ref().unwrap();
                     match panic::catch_unwind(AssertUnwindSafe(|| mm.raw())) { Ok(x) => writeln!(out, "{:x}", x).unwrap(), Err(_) => writeln!(out, "P").unwrap() } }
            "I" => { let mm = m.as_ref().unwrap();
                     match panic::catch_unwind(AssertUnwindSafe(|| mm.store())) { Ok(x) => writeln!(out, "{:x}", x).unwrap(), Err(_) => writeln!(out, "P").unwrap() } }
            "G" => { let f: usize = it.next().unwrap().parse().unwrap(); let i: usize = it.next().unwrap().parse().unwrap();
                     let mm = m.as_ref().unwrap();
                     match panic::catch_unwind(AssertUnwindSafe(|| mm.get(f, i))) {
                        Ok((0, x)) => writeln!(out, "{:x}", x).unwrap(),
                        Ok((1, x)) => writeln!(out, "ok:{:x}", x).unwrap(),
                        Ok((2, x)) => writeln!(out, "err:{:x}", x).unwrap(),
                        Ok(_) => writeln!(out, "M").unwrap(),
                        Err(_) => writeln!(out, "P").unwrap() } }
            "W" | "S" => { let f: usize = it.next().unwrap().parse().unwrap(); let i: usize = it.next().unwrap().parse().unwrap();
                     let v = hex(it.next().unwrap());
                     let mm = m.as_mut().unwrap();
                     let r = if cmd == "W" { panic::catch_unwind(AssertUnwindSafe(|| mm.with(f, i, v))) } else { panic::catch_unwind(AssertUnwindSafe(|| mm.set(f, i, v))) };
                     match r { Ok(()) => { let mm = m.as_ref().unwrap();
                                 match panic::catch_unwind(AssertUnwindSafe(|| mm.raw())) { Ok(x) => writeln!(out, "{:x}", x).unwrap(), Err(_) => writeln!(out, "P").unwrap() } }
                               Err(_) => writeln!(out, "P").unwrap() } }
            "B" => { let a: Vec<u128> = it.map(hex).collect();
                     let mm = m.as_mut().unwrap();
                     match panic::catch_unwind(AssertUnwindSafe(|| mm.build(&a))) {
                        Ok(true) => { let mm = m.as_ref().unwrap();
                                 match panic::catch_unwind(AssertUnwindSafe(|| mm.raw())) { Ok(x) => writeln!(out, "{:x}", x).unwrap(), Err(_) => writeln!(out, "P").unwrap() } }
                        Ok(false) => writeln!(out, "M").unwrap(),
                        Err(_) => writeln!(out, "P").unwrap() } }
            "Q" => { let mm = m.as_ref().unwrap();
                     match panic::catch_unwind(AssertUnwindSafe(|| mm.facts())) { Ok(s) => writeln!(out, "{}", s).unwrap(), Err(_) => writeln!(out, "P").unwrap() } }
            "F" => { let mm = m.as_ref().unwrap();
                     match panic::catch_unwind(AssertUnwindSafe(|| mm.dbg())) {
                        Ok(Some((a, b))) => writeln!(out, "{} ||| {}", a.replace("\\n", "\\\\n"), b.replace("\\n", "\\\\n")).unwrap(),
                        Ok(None) => writeln!(out, "M").unwrap(),
                        Err(_) => writeln!(out, "P").unwrap() } }
            _ => { writeln!(out, "?").unwrap(); }
        }
    }
}
'''


def runner_source(ds, by_name, enums=(), builders=()):
    L = [RUNNER_HEAD]
    for d in enums:
        L.append('// <<%s' % d['name'])
        L += enum_machine(d)
        L.append('// >>%s' % d['name'])
    L.append('fn make_enum(name: &str) -> Option<Box<dyn EnumMachine>> {')
    L.append('    match name {')
    for d in enums:
        L.append('        "%s" => Some(Box::new(EM_%s)),' % (d['name'], d['name']))
    L.append('        _ => None,')
    L.append('    }')
    L.append('}')
    for d in ds:
        L.append('// <<%s' % d['name'])
        L += machine(d, by_name, d['name'] in builders)
        L.append('// >>%s' % d['name'])
    L.append('fn make(name: &str) -> Option<Box<dyn Machine>> {')
    L.append('    match name {')
    for d in ds:
        W = d['base']
        L.append('        "%s" => Some(Box::new(M_%s(%s::new_with_raw_value(%s)))),' % (d['name'], d['name'], d['name'], to_base(d, '0u128')))
    L.append('        _ => None,')
    L.append('    }')
    L.append('}')
    L.append(RUNNER_MAIN)
    return '\n'.join(L)


def owner_spans(text):
    """{decl name: (first line, last line)} of the marked regions of a generated source"""
    spans = {}
    start = {}
    for i, line in enumerate(text.split('\n'), 1):
        if line.startswith('// <<'):
            start[line[5:]] = i
        elif line.startswith('// >>') and line[5:] in start:
            spans[line[5:]] = (start[line[5:]], i)
    return spans
