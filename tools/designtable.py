#!/usr/bin/env python3
"""Replaces the seeded-changes table of DESIGN.md (section 13) with the current tools/mutreport.py output."""
import os, re, subprocess
V = os.path.dirname(os.path.dirname(os.path.abspath(__file__)))
tab = subprocess.run(['python3', os.path.join(V, 'tools', 'mutreport.py')], stdout=subprocess.PIPE, text=True).stdout.strip()
p = os.path.join(V, 'DESIGN.md')
s = open(p).read()
a = s.index('| Seeded change | Property |')
b = a
lines = s[a:].split('\n')
n = 0
while n < len(lines) and lines[n].startswith('|'):
    n += 1
b = a + len('\n'.join(lines[:n]))
s = s[:a] + tab + s[b:]
open(p, 'w').write(s)
print('rows:', tab.count('\n') - 1)
