(** * Parse.v — model of the macro's decision to accept a [#[bitfield]] declaration.

    [accept_field] follows the control flow of [parse_field] in
    [bitbybit/src/bitfield/parsing.rs] (with the repairs F1 and F2): the order of the early
    returns, [Range { start: lo, end: hi + 1 }], the default stride, the bounds computation.
    It is a hand-written model; it is tied to the code on every run by comparing, for every
    corpus declaration (valid and invalid streams), rustc's verdict with [accept_decl] and with
    the rule [valid_decl] of Spec.v.  [accept_iff_valid] shows the model implements the
    documented rule exactly. *)
From BB Require Import Bits Spec.
Open Scope N_scope.

(** what [finished_argument] pushes for one entry: [Range { start, end }] (end exclusive),
    or a rejection *)
Inductive parsed := PRange (start stop : N) | PReject.

Definition parse_entry (in_list bits_kw : bool) (e : rentry) : parsed :=
  match e with
  | RRange lo hi =>
      if negb in_list && negb bits_kw then PReject        (* "bit requires ... bits(10..=19)" *)
      else if hi <? lo then PReject                        (* F2: lower limit exceeds upper limit *)
      else PRange lo (hi + 1)
  | RSingle n =>
      if bits_kw && negb in_list then PReject              (* "bits requires ... bit(10)" *)
      else PRange n (n + 1)
  end.

Fixpoint parse_entries (in_list bits_kw : bool) (es : list rentry) : option (list (N * N)) :=
  match es with
  | [] => Some []
  | e :: es' =>
      match parse_entry in_list bits_kw e, parse_entries in_list bits_kw es' with
      | PRange a b, Some l => Some ((a, b) :: l)
      | _, _ => None
      end
  end.

(** the type's declared size, as [parse_scalar_field] reports it: [Some 0] for bool,
    [None] for a custom type *)
Definition type_size (t : fty) : option (option N) :=
  match t with
  | FBool => Some (Some 0)
  | FU n => if is_native n || ((1 <=? n) && (n <? 128)) then Some (Some n) else None
  | FI n => if is_native n then Some (Some n) else None
  | FCustom _ _ _ => Some None
  end.

Definition accept_field (W : N) (f : field) : bool :=
  (* the attribute arguments *)
  let shape_ok :=                                     (* a second range outside a list: "only one is allowed" *)
    (if f_list f then true else (match f_entries f with [_] => true | _ => false end)) in
  match (if shape_ok then parse_entries (f_list f) (f_bits_kw f) (f_entries f) else None) with
  | None => false
  | Some rs =>
    match rs with
    | [] => false                                      (* no range at all: the macro panics / errors *)
    | _ =>
      (* stride on a non-array field *)
      if (match f_count f, f_stride f with None, Some _ => true | _, _ => false end) then false else
      let number_of_bits := fold_left (fun a r => a + snd r - fst r) rs 0 in
      match type_size (f_ty f) with
      | None => false                                  (* not a supported spelling *)
      | Some sz =>
        let field_type_size := match sz with Some b => b | None => number_of_bits end in
        if (match sz with None => 128 <? number_of_bits | _ => false end) then false else
        let size_ok :=
          if field_type_size =? 0
          then (number_of_bits =? 1) && (List.length rs =? 1)%nat
          else number_of_bits =? field_type_size in
        if negb size_ok then false else
        (* rustc's typing of a custom field: the extracted type must be the type's raw type *)
        if (match f_ty f with FCustom _ n _ => negb (n =? number_of_bits) | _ => false end) then false else
        match f_count f with
        | Some k =>
            let stride_opt :=
              if (List.length rs =? 1)%nat
              then Some (match f_stride f with Some s => s | None => number_of_bits end)
              else f_stride f in
            match stride_opt with
            | None => false                            (* non-contiguous array needs a stride *)
            | Some s =>
                if (List.length rs =? 1)%nat && (s <? number_of_bits) then false else
                let highest := fold_right (fun r m => N.max (snd r) m) 0 rs in
                if W <? (k - 1) * s + highest then false else
                if k <? 2 then false else true
            end
        | None =>
            let highest := fold_right (fun r m => N.max (snd r) m) 0 rs in
            if W <? highest then false else true       (* F1 *)
        end
      end
    end
  end.

(** with [debug] the emitted [fmt] calls [self.<field>()] for every field: rustc rejects the
    expansion when a field has no getter or its getter needs an index (typing model) *)
Definition accept_decl (d : decl) : bool :=
  base_ok (d_W d) && forallb (accept_field (d_W d)) (d_fields d) && debug_ok d && default_ok d.
