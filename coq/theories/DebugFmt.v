(** * DebugFmt.v — what the [debug] option prints (C19).

    [debug_tree] is the value the generated [fmt] hands to [core::fmt]: the struct name and, for
    every field in declaration order, its name (as [stringify!] prints it) and the getter's
    value.  [render_compact]/[render_pretty] are a model of [core::fmt::DebugStruct]/[DebugTuple]
    for [{:?}] and [{:#?}]; the model is validated on every run against the text the compiled
    code prints.  The shape of the real [fmt] body is a per-program obligation (Surface.v). *)
From BB Require Import Bits Spec Enum Surface.
From Coq Require Import String Ascii.
Open Scope string_scope.
Open Scope N_scope.

Inductive dtree :=
| DAtom (s : string)
| DStruct (name : string) (fs : list (string * dtree))
| DTuple (name : string) (args : list dtree).

Inductive tydef := TyEnum (e : enum_decl) | TyStruct (d : decl).

Fixpoint lookup_ty (name : string) (env : list (string * tydef)) : option tydef :=
  match env with
  | [] => None
  | (n, t) :: env' => if String.eqb n name then Some t else lookup_ty name env'
  end.

Definition zstr (z : Z) : string :=
  if (z <? 0)%Z then "-" ++ nstr (Z.to_N (- z)) else nstr (Z.to_N z).

Section Tree.
Variable env : list (string * tydef).

Fixpoint debug_tree (fuel : nat) (d : decl) (raw : N) : dtree :=
  match fuel with
  | O => DAtom "?"
  | S fuel' =>
      let value (t : fty) (v : N) : dtree :=
        match t with
        | FBool => DAtom (if N.testbit v 0 then "true" else "false")
        | FU _ => DAtom (nstr v)
        | FI n => DAtom (zstr (sint n v))
        | FCustom name n opt =>
            match lookup_ty name env with
            | Some (TyEnum e) =>
                match enum_new e v with
                | NOk vn => if opt then DTuple "Ok" [DAtom vn] else DAtom vn
                | NErr x => DTuple "Err" [DAtom (nstr x)]
                | NUnreachable => DAtom "!"
                end
            | Some (TyStruct d') => debug_tree fuel' d' v
            | None => DAtom "?"
            end
        end in
      DStruct (d_name d) (map (fun f => (f_name f, value (f_ty f) (spec_get f 0 raw))) (d_fields d))
  end.
End Tree.

(** [{:?}] *)
Fixpoint render_compact (t : dtree) : string :=
  match t with
  | DAtom s => s
  | DStruct n fs =>
      match fs with
      | [] => n
      | _ =>
          n ++ " { " ++
          (fix go (l : list (string * dtree)) : string :=
             match l with
             | [] => ""
             | [(a, v)] => a ++ ": " ++ render_compact v
             | (a, v) :: l' => a ++ ": " ++ render_compact v ++ ", " ++ go l'
             end) fs ++ " }"
      end
  | DTuple n args =>
      n ++ "(" ++
      (fix go (l : list dtree) : string :=
         match l with
         | [] => ""
         | [v] => render_compact v
         | v :: l' => render_compact v ++ ", " ++ go l'
         end) args ++ ")"
  end.

Definition nl : string := String (ascii_of_nat 10) EmptyString.

(** [{:#?}]: every nested line is indented by four more spaces, every entry ends in a comma *)
Fixpoint render_pretty (pad : string) (t : dtree) : string :=
  match t with
  | DAtom s => s
  | DStruct n fs =>
      match fs with
      | [] => n
      | _ =>
          n ++ " {" ++ nl ++
          (fix go (l : list (string * dtree)) : string :=
             match l with
             | [] => ""
             | (a, v) :: l' => pad ++ "    " ++ a ++ ": " ++ render_pretty (pad ++ "    ") v ++ "," ++ nl ++ go l'
             end) fs ++ pad ++ "}"
      end
  | DTuple n args =>
      match args with
      | [] => n
      | _ =>
          n ++ "(" ++ nl ++
          (fix go (l : list dtree) : string :=
             match l with
             | [] => ""
             | v :: l' => pad ++ "    " ++ render_pretty (pad ++ "    ") v ++ "," ++ nl ++ go l'
             end) args ++ pad ++ ")"
      end
  end.

(** ** C19 on the model *)

(** every field, in declaration order, by name *)
Theorem C19_every_field_in_order env k d raw :
  exists fs, debug_tree env (S k) d raw = DStruct (d_name d) fs /\ map fst fs = map f_name (d_fields d).
Proof.
  cbn [debug_tree]. eexists. split; [reflexivity|]. rewrite map_map. reflexivity.
Qed.

(** the printed values come from the getters ([spec_get f 0 raw]), so the text is a function of
    [raw_value()] alone and two values with equal field contents print alike *)
Theorem C19_values_from_getters env k d x y :
  (forall f, In f (d_fields d) -> spec_get f 0 x = spec_get f 0 y) ->
  debug_tree env (S k) d x = debug_tree env (S k) d y.
Proof.
  intros H. cbn [debug_tree]. f_equal. apply map_ext_in. intros f Hf. now rewrite (H f Hf).
Qed.

Definition debug_compact env d raw := render_compact (debug_tree env 8 d raw).
Definition debug_pretty env d raw := render_pretty "" (debug_tree env 8 d raw).

Lemma append_assoc_ok (a b c : string) : (a ++ b) ++ c = a ++ (b ++ c).
Proof. induction a as [|ch a IH]; cbn; [reflexivity|now rewrite IH]. Qed.

(** the compact renderer is the standard struct format: [Name { a: x, b: y }] *)
Fixpoint join (sep : string) (l : list string) : string :=
  match l with
  | [] => ""
  | [x] => x
  | x :: l' => x ++ sep ++ join sep l'
  end.

Lemma render_fields_join fs : forall f,
  (fix go (l : list (string * dtree)) : string :=
     match l with
     | [] => ""
     | [(a, v)] => a ++ ": " ++ render_compact v
     | (a, v) :: l' => a ++ ": " ++ render_compact v ++ ", " ++ go l'
     end) (f :: fs)
  = join ", " (map (fun av => fst av ++ ": " ++ render_compact (snd av)) (f :: fs)).
Proof.
  induction fs as [|g fs IH]; intros [a v]; [reflexivity|].
  specialize (IH g). cbn [map join fst snd] in *. rewrite <- IH. destruct g as [b w].
  rewrite <- !append_assoc_ok. reflexivity.
Qed.

Theorem render_compact_struct n f fs :
  render_compact (DStruct n (f :: fs))
  = n ++ " { " ++ join ", " (map (fun av => fst av ++ ": " ++ render_compact (snd av)) (f :: fs)) ++ " }".
Proof. cbn [render_compact]. now rewrite render_fields_join. Qed.
