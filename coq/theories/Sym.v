(** * Sym.v — a verified symbolic bit-level evaluator for [expr].

    [seval σ e] evaluates [e] over symbolic bits: every bit of the result is a constant,
    a (possibly negated) bit of the raw value, or a (possibly negated) bit of the argument.
    Sub-terms without symbolic inputs are folded by the concrete [eval] in *checked* mode,
    so any possible overflow makes [seval] give up ([None]) instead of guessing.

    [seval_sound]: when [seval] succeeds, the concrete [eval] succeeds — in both profiles,
    with the same value — on *every* raw value and argument the symbolic environment
    describes, and the value's bits are the ones [seval] computed.  Proved once; applied by
    [vm_compute] to the real expansion of every corpus declaration on every run. *)
From BB Require Import Bits Expr.
Open Scope N_scope.

Inductive atom := ARaw (i : N) | AArg (i : N).
Inductive sbit := SC (b : bool) | SL (neg : bool) (a : atom).

Record valuation := mkVal { v_raw : N; v_arg : N }.

Definition datom (ν : valuation) (a : atom) : bool :=
  match a with ARaw i => N.testbit (v_raw ν) i | AArg i => N.testbit (v_arg ν) i end.
Definition dbit (ν : valuation) (s : sbit) : bool :=
  match s with SC b => b | SL neg a => xorb neg (datom ν a) end.

Definition atom_eqb a b :=
  match a, b with ARaw i, ARaw j | AArg i, AArg j => i =? j | _, _ => false end.
Lemma atom_eqb_eq a b : atom_eqb a b = true -> a = b.
Proof. destruct a, b; cbn; intros H; try discriminate; f_equal; lia. Qed.

Definition sbit_eqb (a b : sbit) : bool :=
  match a, b with
  | SC x, SC y => Bool.eqb x y
  | SL n a, SL m b => Bool.eqb n m && atom_eqb a b
  | _, _ => false
  end.
Lemma sbit_eqb_eq a b : sbit_eqb a b = true -> a = b.
Proof.
  destruct a as [x|n a], b as [y|m b]; cbn; intros H; try discriminate.
  - apply eqb_prop in H. now subst.
  - apply andb_prop in H. destruct H as [H1 H2]. apply eqb_prop in H1. apply atom_eqb_eq in H2. now subst.
Qed.

Definition sand (x y : sbit) : option sbit :=
  match x, y with
  | SC false, _ | _, SC false => Some (SC false)
  | SC true, s | s, SC true => Some s
  | SL n1 a1, SL n2 a2 =>
      if atom_eqb a1 a2 then Some (if Bool.eqb n1 n2 then x else SC false) else None
  end.
Definition sor (x y : sbit) : option sbit :=
  match x, y with
  | SC true, _ | _, SC true => Some (SC true)
  | SC false, s | s, SC false => Some s
  | SL n1 a1, SL n2 a2 =>
      if atom_eqb a1 a2 then Some (if Bool.eqb n1 n2 then x else SC true) else None
  end.
Definition snot (x : sbit) : sbit :=
  match x with SC b => SC (negb b) | SL n a => SL (negb n) a end.
Definition sxor (x y : sbit) : option sbit :=
  match x, y with
  | SC b, s | s, SC b => Some (if b then snot s else s)
  | SL n1 a1, SL n2 a2 => if atom_eqb a1 a2 then Some (SC (xorb n1 n2)) else None
  end.
(** [if c then a else b], bit-wise *)
Definition smux (c a b : sbit) : option sbit :=
  if sbit_eqb a b then Some a else
  match a, b with
  | SC true, SC false => Some c
  | SC false, SC true => Some (snot c)
  | _, _ => None
  end.

Ltac bitcase ν :=
  cbn; repeat match goal with |- context [datom ν ?a] => destruct (datom ν a) end; try reflexivity.
Ltac sb_tac ν H :=
  cbn in H;
  try (injection H as <-);
  try (match type of H with context [atom_eqb ?a1 ?a2] =>
         let E := fresh in destruct (atom_eqb a1 a2) eqn:E;
         [apply atom_eqb_eq in E; subst a2; injection H as <- | discriminate] end);
  bitcase ν.

Lemma snot_ok ν x : dbit ν (snot x) = negb (dbit ν x).
Proof. destruct x as [b|[] a]; bitcase ν. Qed.
Lemma sand_ok ν x y z : sand x y = Some z -> dbit ν z = dbit ν x && dbit ν y.
Proof. intros H. destruct x as [[]|[] a1], y as [[]|[] a2]; sb_tac ν H. Qed.
Lemma sor_ok ν x y z : sor x y = Some z -> dbit ν z = dbit ν x || dbit ν y.
Proof. intros H. destruct x as [[]|[] a1], y as [[]|[] a2]; sb_tac ν H. Qed.
Lemma sxor_ok ν x y z : sxor x y = Some z -> dbit ν z = xorb (dbit ν x) (dbit ν y).
Proof. intros H. destruct x as [[]|[] a1], y as [[]|[] a2]; sb_tac ν H. Qed.
Lemma smux_ok ν c a b z :
  smux c a b = Some z -> dbit ν z = if dbit ν c then dbit ν a else dbit ν b.
Proof.
  unfold smux. destruct (sbit_eqb a b) eqn:E.
  - apply sbit_eqb_eq in E. subst b. intros [= <-]. now destruct (dbit ν c).
  - destruct a as [[]|], b as [[]|]; cbn in E; intros H; try discriminate;
      injection H as <-; cbn; rewrite ?snot_ok; now destruct (dbit ν c).
Qed.

Lemma dbit_pos ν a : dbit ν (SL false a) = datom ν a.
Proof. cbn. now destruct (datom ν a). Qed.

Ltac dbit_simpl := cbn [dbit datom v_raw v_arg]; rewrite ?xorb_false_l.

(** ** Symbolic values *)

Definition bvec := N -> option sbit.

Inductive sval :=
| SConst (v : value)                 (* no symbolic input *)
| SInt (t : ity) (f : bvec)
| SBool (b : sbit)
| SCustom (ty : string) (v : sval).

Fixpoint den (ν : valuation) (sv : sval) (v : value) : Prop :=
  match sv with
  | SConst c => c = v /\ wf_value v
  | SInt t f =>
      match v with
      | VInt t' x => t = t' /\ x < 2 ^ width t /\
                     forall i s, f i = Some s -> N.testbit x i = dbit ν s
      | _ => False
      end
  | SBool s => match v with VBool b => b = dbit ν s | _ => False end
  | SCustom ty sv' =>
      match v with VCustom ty' v' => ty = ty' /\ den ν sv' v' | _ => False end
  end.

Definition cbits (w x : N) : bvec := fun i => Some (SC ((i <? w) && N.testbit x i)).

Definition as_bits (sv : sval) : option (ity * bvec) :=
  match sv with
  | SConst (VInt t x) => Some (t, cbits (width t) x)
  | SInt t f => Some (t, f)
  | _ => None
  end.

(** does the operand fit the operator's type [t]? (a literal must be in range, an already
    typed operand must have exactly that type) *)
Definition fits (sv : sval) (t : ity) : bool :=
  match sv with
  | SConst (VInt _ x) => x <? 2 ^ width t
  | SInt t' _ => ity_eqb t' t
  | _ => false
  end.

Definition lift (r : res value) : option sval :=
  match r with Ok v => Some (SConst v) | _ => None end.

Definition scomb (op : binop) (x y : sbit) : option sbit :=
  match op with OAnd => sand x y | OOr => sor x y | OXor => sxor x y | _ => None end.

Definition bcomb (op : binop) (x y : bool) : bool :=
  match op with OAnd => x && y | OOr => x || y | _ => xorb x y end.

(** OR of bits [0 .. n-1] *)
Fixpoint or_bits (f : bvec) (n : nat) : option sbit :=
  match n with
  | O => Some (SC false)
  | S k => match or_bits f k, f (N.of_nat k) with
           | Some a, Some b => sor a b
           | _, _ => None
           end
  end.

Definition sbitwise (op : binop) (a b : sval) : option sval :=
  match as_bits a, as_bits b with
  | Some (ta, f), Some (tb, g) =>
      match unify ta tb with
      | Some t =>
          if is_uint t && fits a t && fits b t then
            Some (SInt t (fun i =>
              if i <? width t then
                match f i, g i with Some x, Some y => scomb op x y | _, _ => None end
              else Some (SC false)))
          else None
      | None => None
      end
  | _, _ => None
  end.

Definition sshift (left : bool) (a b : sval) : option sval :=
  match a, b with
  | SInt t f, SConst (VInt ts s) =>
      if is_uint t && is_shift_amount ts && (s <? width t) then
        Some (SInt t (if left
                      then (fun i => if (i <? width t) && (s <=? i) then f (i - s) else Some (SC false))
                      else (fun i => f (i + s))))
      else None
  | _, _ => None
  end.

Definition sne0 (a b : sval) : option sval :=
  match a, b with
  | SInt t f, SConst (VInt tb y) =>
      if is_uint t && (y =? 0) && (match unify t tb with Some t' => ity_eqb t t' | None => false end)
      then option_map SBool (or_bits f (N.to_nat (width t)))
      else None
  | _, _ => None
  end.

Definition sbinop_sym (op : binop) (a b : sval) : option sval :=
  match op with
  | OAnd | OOr | OXor => sbitwise op a b
  | OShl => sshift true a b
  | OShr => sshift false a b
  | ONe => sne0 a b
  | _ => None
  end.

Definition sbinop (op : binop) (a b : sval) : option sval :=
  match a, b with
  | SConst va, SConst vb => lift (binop_eval true op va vb)
  | _, _ => sbinop_sym op a b
  end.

(** wrapping operators: constants are folded with overflow checks off; a symbolic shift needs an in-range amount,
    for which checked and unchecked agree *)
Definition swrapbinop (op : binop) (a b : sval) : option sval :=
  match a, b with
  | SConst va, SConst vb => lift (binop_eval false op va vb)
  | _, _ => sbinop_sym op a b
  end.

Definition scast (a : sval) (t : ity) : option sval :=
  match a with
  | SConst v => lift (cast_eval v t)
  | SInt ta f =>
      if negb (is_int_target t) then None else
      let w' := width t in
      match ta with
      | TU _ | TUsize => Some (SInt t (fun i => if i <? w' then f i else Some (SC false)))
      | TI w =>
          if w' <=? w then Some (SInt t (fun i => if i <? w' then f i else Some (SC false)))
          else if 0 <? w then
            Some (SInt t (fun i => if i <? w then f i else if i <? w' then f (w - 1) else Some (SC false)))
          else None
      | _ => None
      end
  | SBool s =>
      if negb (is_int_target t) then None else
      if 0 <? width t then Some (SInt t (fun i => if i =? 0 then Some s else Some (SC false))) else None
  | _ => None
  end.

Definition snot_val (a : sval) : option sval :=
  match a with
  | SConst v => lift (not_eval v)
  | SInt t f =>
      if is_int_target t then
        Some (SInt t (fun i => if i <? width t then option_map snot (f i) else Some (SC false)))
      else None
  | SBool s => Some (SBool (snot s))
  | _ => None
  end.

Definition sextract (src n : N) (a s : sval) : option sval :=
  match a, s with
  | SConst va, SConst vs => lift (extract_eval src n va vs)
  | SInt (TU w) f, SConst (VInt ts k) =>
      if (w =? src) && (match ts with TUsize | TLit => true | _ => false end) && (k + n <=? src) then
        Some (SInt (TAU (storage n) n) (fun i => if i <? n then f (i + k) else Some (SC false)))
      else None
  | _, _ => None
  end.

Definition suvalue (a : sval) : option sval :=
  match a with
  | SConst v => lift (uvalue_eval v)
  | SInt (TAU st n) f => if n <=? st then Some (SInt (TU st) f) else None
  | _ => None
  end.

Definition smux_val (c : sbit) (a b : sval) : option sval :=
  match as_bits a, as_bits b with
  | Some (ta, f), Some (tb, g) =>
      if ity_eqb ta tb && is_uint ta then
        Some (SInt ta (fun i => match f i, g i with Some x, Some y => smux c x y | _, _ => None end))
      else None
  | _, _ => None
  end.

Record senv := mkSenv {
  s_S : N;
  s_raw : bvec;
  s_idx : N;
  s_arg : sval;
  s_vars : list (string * sval)
}.

Definition sbind_var (x : string) (v : sval) (σ : senv) : senv :=
  mkSenv (s_S σ) (s_raw σ) (s_idx σ) (s_arg σ) ((x, v) :: s_vars σ).

Fixpoint seval (σ : senv) (e : expr) : option sval :=
  match e with
  | ERaw => Some (SInt (TU (s_S σ)) (s_raw σ))
  | EIdx => Some (SConst (VInt TUsize (s_idx σ)))
  | EArg => Some (s_arg σ)
  | EVar x => lookup x (s_vars σ)
  | ELit t n => if n <? 2 ^ width t then Some (SConst (VInt t n)) else None
  | EBool b => Some (SConst (VBool b))
  | EBin op a b =>
      match seval σ a, seval σ b with Some x, Some y => sbinop op x y | _, _ => None end
  | ENot a => match seval σ a with Some x => snot_val x | None => None end
  | ECast a t => match seval σ a with Some x => scast x t | None => None end
  | EIf c a b =>
      match seval σ c with
      | Some (SConst (VBool true)) => seval σ a
      | Some (SConst (VBool false)) => seval σ b
      | Some (SBool s) =>
          match seval σ a, seval σ b with Some x, Some y => smux_val s x y | _, _ => None end
      | _ => None
      end
  | ELet x a body =>
      match seval σ a with Some v => seval (sbind_var x v σ) body | None => None end
  | EAssert c body =>
      match seval σ c with Some (SConst (VBool true)) => seval σ body | _ => None end
  | EExtract src n a s =>
      match seval σ a, seval σ s with Some x, Some k => sextract src n x k | _, _ => None end
  | EUNew st n a =>
      match seval σ a with Some (SConst v) => lift (unew_eval st n v) | _ => None end
  | EUValue a => match seval σ a with Some x => suvalue x | None => None end
  | ECustomNew ty a => match seval σ a with Some x => Some (SCustom ty x) | None => None end
  | ECustomRaw a => match seval σ a with Some (SCustom _ x) => Some x | _ => None end
  | EUnsupported _ => None
  | EWrapBin op a b =>
      match seval σ a, seval σ b with Some x, Some y => swrapbinop op x y | _, _ => None end
  | EDebugAssert c body =>
      match seval σ c with Some (SConst (VBool true)) => seval σ body | _ => None end
  end.

(** ** Soundness *)

Inductive vars_agree (ν : valuation) : list (string * sval) -> list (string * value) -> Prop :=
| va_nil : vars_agree ν [] []
| va_cons x sv v l l' : den ν sv v -> vars_agree ν l l' -> vars_agree ν ((x, sv) :: l) ((x, v) :: l').

Record agrees (ν : valuation) (σ : senv) (ρ : env) : Prop := {
  ag_S : e_S ρ = s_S σ;
  ag_raw : den ν (SInt (TU (s_S σ)) (s_raw σ)) (VInt (TU (e_S ρ)) (e_raw ρ));
  ag_idx : e_idx ρ = s_idx σ /\ s_idx σ < 2 ^ 64;
  ag_arg : den ν (s_arg σ) (e_arg ρ);
  ag_vars : vars_agree ν (s_vars σ) (e_vars ρ)
}.

Lemma den_wf ν sv v : den ν sv v -> wf_value v.
Proof.
  revert v. induction sv as [c|t f|s|ty sv IH]; intros v H; cbn in H.
  - now destruct H.
  - destruct v; try contradiction. destruct H as (<- & H & _). exact H.
  - destruct v; try contradiction. exact I.
  - destruct v; try contradiction. destruct H as (_ & H). cbn. now apply IH.
Qed.

(** *** operator-level facts about the concrete semantics *)

Lemma arith_mode_indep op t x y v : arith true op t x y = Ok v -> forall c, arith c op t x y = Ok v.
Proof.
  intros H c. destruct c; [exact H|]. destruct op; cbn in *; try exact H.
  - destruct (x + y <? 2 ^ width t); [exact H|discriminate].
  - destruct (y <=? x); [exact H|discriminate].
  - destruct (x * y <? 2 ^ width t); [exact H|discriminate].
Qed.
Lemma shift_mode_indep l t x y v : shift true l t x y = Ok v -> forall c, shift c l t x y = Ok v.
Proof.
  intros H c. destruct c; [exact H|]. unfold shift in *.
  destruct (y <? width t); [exact H|discriminate].
Qed.
Lemma binop_mode_indep op a b v : binop_eval true op a b = Ok v -> forall c, binop_eval c op a b = Ok v.
Proof.
  intros H c. destruct a as [ta x| |], b as [tb y| |]; cbn in *; try discriminate.
  destruct op;
    try (destruct (is_uint ta && is_shift_amount tb); [|discriminate]; now apply shift_mode_indep);
    (destruct (unify ta tb) as [t|]; [|discriminate];
     destruct (is_uint t && (x <? 2 ^ width t) && (y <? 2 ^ width t)); [|discriminate];
     now apply arith_mode_indep).
Qed.

Lemma arith_wf c op t x y v :
  x < 2 ^ width t -> y < 2 ^ width t -> arith c op t x y = Ok v -> wf_value v.
Proof.
  intros Hx Hy. destruct op; cbn; intros H; try discriminate.
  - injection H as <-. cbn. now apply land_lt_l.
  - injection H as <-. cbn. now apply lor_lt.
  - injection H as <-. cbn. now apply lxor_lt.
  - destruct (N.ltb_spec (x + y) (2 ^ width t)).
    + injection H as <-. exact H0.
    + destruct c; [discriminate|]. injection H as <-. apply wrap_lt.
  - destruct (N.leb_spec y x).
    + injection H as <-. cbn. lia.
    + destruct c; [discriminate|]. injection H as <-. apply wrap_lt.
  - destruct (N.ltb_spec (x * y) (2 ^ width t)).
    + injection H as <-. exact H0.
    + destruct c; [discriminate|]. injection H as <-. apply wrap_lt.
  - injection H as <-. exact I.
  - injection H as <-. exact I.
  - injection H as <-. exact I.
Qed.

Lemma shift_wf c l t x s v : x < 2 ^ width t -> shift c l t x s = Ok v -> wf_value v.
Proof.
  intros Hx. unfold shift.
  assert (G : forall k, (if l then wrap (width t) (N.shiftl x k) else N.shiftr x k) < 2 ^ width t).
  { intros k. destruct l; [apply wrap_lt|now apply shiftr_lt]. }
  destruct (s <? width t).
  - intros [= <-]. apply G.
  - destruct c; [discriminate|]. intros [= <-]. apply G.
Qed.

Lemma binop_wf c op a b v : wf_value a -> wf_value b -> binop_eval c op a b = Ok v -> wf_value v.
Proof.
  intros Ha Hb. destruct a as [ta x| |], b as [tb y| |]; cbn; try discriminate.
  cbn in Ha, Hb.
  destruct op;
    try (destruct (is_uint ta && is_shift_amount tb); [|discriminate]; now apply shift_wf);
    (destruct (unify ta tb) as [t|]; [|discriminate];
     destruct (is_uint t); cbn [andb]; [|discriminate];
     destruct (N.ltb_spec x (2 ^ width t)); cbn [andb]; [|discriminate];
     destruct (N.ltb_spec y (2 ^ width t)); cbn [andb]; [|discriminate];
     now apply arith_wf).
Qed.

Lemma cast_wf v t r : wf_value v -> cast_eval v t = Ok r -> wf_value r.
Proof.
  intros Hv. unfold cast_eval. destruct (is_int_target t); cbn [negb]; [|discriminate].
  destruct v as [tv x|b|]; try discriminate.
  - destruct tv; try discriminate.
    + intros [= <-]. apply wrap_lt.
    + destruct (N.leb_spec (width t) w).
      * intros [= <-]. apply wrap_lt.
      * destruct (N.testbit x (w - 1)); intros [= <-]; [apply wrap_lt|].
        cbn in *. eapply N.lt_le_trans; [exact Hv|]. apply pow2_mono. lia.
    + intros [= <-]. apply wrap_lt.
  - intros [= <-]. apply wrap_lt.
Qed.

Lemma not_wf v r : not_eval v = Ok r -> wf_value r.
Proof.
  destruct v as [t x|b|]; cbn; try discriminate.
  - destruct (is_int_target t); [|discriminate]. intros [= <-]. apply notw_lt.
  - intros [= <-]. exact I.
Qed.

Lemma storage_ge n : n <= 128 -> n <= storage n.
Proof.
  unfold storage. intros H.
  destruct (N.leb_spec n 8); [lia|]. destruct (N.leb_spec n 16); [lia|].
  destruct (N.leb_spec n 32); [lia|]. destruct (N.leb_spec n 64); lia.
Qed.

Lemma extract_wf src n a s r : extract_eval src n a s = Ok r -> wf_value r.
Proof.
  destruct a as [[w| | | |] x| |], s as [ts k| |]; cbn; try discriminate.
  destruct ((w =? src) && _); [|discriminate].
  destruct (k + n <=? src); [|discriminate]. intros [= <-]. apply bitsN_lt.
Qed.

Lemma unew_wf st n a r : unew_eval st n a = Ok r -> wf_value r.
Proof.
  destruct a as [t x| |]; cbn; try discriminate.
  destruct (match t with TU w => w =? st | TLit => x <? 2 ^ st | _ => false end); [|discriminate].
  destruct (N.ltb_spec x (2 ^ n)); [|discriminate]. intros [= <-]. exact H.
Qed.

Lemma uvalue_wf a r : wf_value a -> uvalue_eval a = Ok r -> wf_value r.
Proof.
  destruct a as [[| | |st n|] x| |]; cbn; try discriminate.
  intros Hx. destruct (N.leb_spec n st); [|discriminate]. intros [= <-]. cbn.
  eapply N.lt_le_trans; [exact Hx|]. now apply pow2_mono.
Qed.

(** *** the concrete evaluator preserves well-formedness and is profile-independent
        whenever the checked profile does not panic *)

Inductive vars_wf : list (string * value) -> Prop :=
| vw_nil : vars_wf []
| vw_cons x v l : wf_value v -> vars_wf l -> vars_wf ((x, v) :: l).

Record wf_env (ρ : env) : Prop := {
  we_raw : e_raw ρ < 2 ^ e_S ρ;
  we_idx : e_idx ρ < 2 ^ 64;
  we_arg : wf_value (e_arg ρ);
  we_vars : vars_wf (e_vars ρ)
}.

Lemma lookup_wf x l v : vars_wf l -> lookup x l = Some v -> wf_value v.
Proof.
  induction 1 as [|y w l Hw Hl IH]; cbn; [discriminate|].
  destruct (String.eqb x y); [now intros [= <-]|exact IH].
Qed.

Lemma wf_env_bind x v ρ : wf_env ρ -> wf_value v -> wf_env (bind_var x v ρ).
Proof. intros [] Hv. constructor; cbn; try assumption. now constructor. Qed.

Lemma eval_wf c e : forall ρ v, wf_env ρ -> eval c ρ e = Ok v -> wf_value v.
Proof.
  induction e; intros ρ v Hρ H; cbn [eval] in H.
  - injection H as <-. apply Hρ.
  - injection H as <-. apply Hρ.
  - injection H as <-. apply Hρ.
  - destruct (lookup x (e_vars ρ)) eqn:E; [|discriminate]. injection H as <-.
    eapply lookup_wf; [apply Hρ|exact E].
  - destruct (N.ltb_spec n (2 ^ width t)); [|discriminate]. injection H as <-. exact H0.
  - injection H as <-. exact I.
  - apply bind_ok in H. destruct H as (x0 & Hx & H). apply bind_ok in H. destruct H as (y & Hy & H).
    eapply binop_wf; [eapply IHe1|eapply IHe2|exact H]; eassumption.
  - apply bind_ok in H. destruct H as (x0 & Hx & H). eapply not_wf; exact H.
  - apply bind_ok in H. destruct H as (x0 & Hx & H). eapply cast_wf; [eapply IHe; eassumption|exact H].
  - apply bind_ok in H. destruct H as (x0 & Hx & H).
    destruct x0 as [| [] |]; try discriminate; [eapply IHe2|eapply IHe3]; eassumption.
  - apply bind_ok in H. destruct H as (x0 & Hx & H).
    eapply IHe2; [|exact H]. apply wf_env_bind; [exact Hρ|]. eapply IHe1; eassumption.
  - apply bind_ok in H. destruct H as (x0 & Hx & H).
    destruct x0 as [| [] |]; try discriminate. eapply IHe2; eassumption.
  - apply bind_ok in H. destruct H as (x0 & Hx & H). apply bind_ok in H. destruct H as (y & Hy & H).
    eapply extract_wf; exact H.
  - apply bind_ok in H. destruct H as (x0 & Hx & H). eapply unew_wf; exact H.
  - apply bind_ok in H. destruct H as (x0 & Hx & H). eapply uvalue_wf; [eapply IHe; eassumption|exact H].
  - apply bind_ok in H. destruct H as (x0 & Hx & H). injection H as <-. cbn. eapply IHe; eassumption.
  - apply bind_ok in H. destruct H as (x0 & Hx & H). destruct x0; try discriminate.
    injection H as <-. specialize (IHe _ _ Hρ Hx). exact IHe.
  - discriminate.
  - apply bind_ok in H. destruct H as (x0 & Hx & H). apply bind_ok in H. destruct H as (y & Hy & H).
    eapply binop_wf; [eapply IHe1|eapply IHe2|exact H]; eassumption.
  - destruct c.
    + apply bind_ok in H. destruct H as (x0 & Hx & H).
      destruct x0 as [| [] |]; try discriminate. eapply IHe2; eassumption.
    + eapply IHe2; eassumption.
Qed.

Lemma eval_mode_indep e : forall ρ v, eval true ρ e = Ok v -> forall c, eval c ρ e = Ok v.
Proof.
  induction e; intros ρ v H c; cbn [eval] in *; try exact H.
  - apply bind_ok in H. destruct H as (x0 & Hx & H). apply bind_ok in H. destruct H as (y & Hy & H).
    rewrite (IHe1 _ _ Hx c), (IHe2 _ _ Hy c). cbn [bind]. now apply binop_mode_indep.
  - apply bind_ok in H. destruct H as (x0 & Hx & H). rewrite (IHe _ _ Hx c). exact H.
  - apply bind_ok in H. destruct H as (x0 & Hx & H). rewrite (IHe _ _ Hx c). exact H.
  - apply bind_ok in H. destruct H as (x0 & Hx & H). rewrite (IHe1 _ _ Hx c). cbn [bind].
    destruct x0 as [| [] |]; try discriminate; [now apply IHe2|now apply IHe3].
  - apply bind_ok in H. destruct H as (x0 & Hx & H). rewrite (IHe1 _ _ Hx c). cbn [bind]. now apply IHe2.
  - apply bind_ok in H. destruct H as (x0 & Hx & H). rewrite (IHe1 _ _ Hx c). cbn [bind].
    destruct x0 as [| [] |]; try discriminate. now apply IHe2.
  - apply bind_ok in H. destruct H as (x0 & Hx & H). apply bind_ok in H. destruct H as (y & Hy & H).
    rewrite (IHe1 _ _ Hx c), (IHe2 _ _ Hy c). exact H.
  - apply bind_ok in H. destruct H as (x0 & Hx & H). rewrite (IHe _ _ Hx c). exact H.
  - apply bind_ok in H. destruct H as (x0 & Hx & H). rewrite (IHe _ _ Hx c). exact H.
  - apply bind_ok in H. destruct H as (x0 & Hx & H). rewrite (IHe _ _ Hx c). exact H.
  - apply bind_ok in H. destruct H as (x0 & Hx & H). rewrite (IHe _ _ Hx c). exact H.
  - apply bind_ok in H. destruct H as (x0 & Hx & H). apply bind_ok in H. destruct H as (y & Hy & H).
    rewrite (IHe1 _ _ Hx c), (IHe2 _ _ Hy c). exact H.
  - apply bind_ok in H. destruct H as (x0 & Hx & H).
    destruct x0 as [| [] |]; try discriminate. destruct c.
    + rewrite (IHe1 _ _ Hx true). cbn [bind]. now apply IHe2.
    + now apply IHe2.
Qed.

(** *** soundness of the symbolic operators *)

Lemma lift_ok r sv : lift r = Some sv -> exists v, r = Ok v /\ sv = SConst v.
Proof. destruct r; cbn; intros H; try discriminate. injection H as <-. eauto. Qed.

Lemma as_bits_den ν a t f va :
  as_bits a = Some (t, f) -> den ν a va ->
  exists x, va = VInt t x /\ x < 2 ^ width t /\ forall i s, f i = Some s -> N.testbit x i = dbit ν s.
Proof.
  destruct a as [[t' x| |]|t' g| |]; cbn; intros H D; try discriminate.
  - injection H as <- <-. destruct D as [<- Hwf]. cbn in Hwf. exists x. split; [reflexivity|]. split; [exact Hwf|].
    intros i s [= <-]. cbn. destruct (N.ltb_spec i (width t')); cbn; [reflexivity|].
    now apply (testbit_small x (width t')).
  - injection H as <- <-. destruct va as [t'' x| |]; try contradiction.
    destruct D as (<- & Hx & Hb). eauto.
Qed.

Lemma fits_den ν a t va x ta :
  fits a t = true -> den ν a va -> va = VInt ta x -> x < 2 ^ width t /\ (forall f, a = SInt ta f -> ta = t).
Proof.
  destruct a as [[t' y| |]|t' g| |]; cbn; intros H D E; try discriminate.
  - destruct D as [<- _]. injection E as <- <-. split; [lia|]. intros f [=].
  - subst va. destruct D as (<- & Hx & _). apply ity_eqb_eq in H. subst t. split; [exact Hx|]. now intros f [= <-].
Qed.

Lemma scomb_ok ν op x y z :
  scomb op x y = Some z -> dbit ν z = bcomb op (dbit ν x) (dbit ν y).
Proof.
  destruct op; cbn; try discriminate; [apply sand_ok|apply sor_ok|apply sxor_ok].
Qed.

Lemma unify_uint ta tb t : unify ta tb = Some t -> is_uint t = true ->
  (ta = t \/ ta = TLit) /\ (tb = t \/ tb = TLit).
Proof.
  destruct ta, tb; cbn; intros H U; try discriminate;
    try (injection H as <-; auto; fail);
    try (match type of H with (if ?c then _ else _) = _ => destruct c eqn:E; [|discriminate] end;
         injection H as <-; try (apply andb_prop in E; destruct E); split; left; f_equal; lia).
Qed.

Lemma or_bits_ok ν f n s x :
  or_bits f n = Some s ->
  (forall i b, f i = Some b -> N.testbit x i = dbit ν b) ->
  dbit ν s = true <-> exists i, i < N.of_nat n /\ N.testbit x i = true.
Proof.
  revert s. induction n as [|k IH]; cbn [or_bits]; intros s H Hb.
  - injection H as <-. cbn. split; [discriminate|]. intros (i & Hi & _). lia.
  - destruct (or_bits f k) as [a|] eqn:Ea; [|discriminate].
    destruct (f (N.of_nat k)) as [b|] eqn:Eb; [|discriminate].
    rewrite (sor_ok ν _ _ _ H), orb_true_iff, (IH a eq_refl Hb). rewrite <- (Hb _ _ Eb).
    split.
    + intros [(i & Hi & Ht)|Ht]; [exists i; split; [lia|exact Ht]|exists (N.of_nat k); split; [lia|exact Ht]].
    + intros (i & Hi & Ht). destruct (N.eq_dec i (N.of_nat k)) as [->|Hne]; [now right|].
      left. exists i. split; [lia|exact Ht].
Qed.

Lemma nonzero_bit x w : x < 2 ^ w -> x <> 0 -> exists i, i < w /\ N.testbit x i = true.
Proof.
  intros Hx Hnz. exists (N.log2 x). split; [|now apply N.bit_log2].
  apply N.log2_lt_pow2; [lia|exact Hx].
Qed.

Lemma sbitwise_sound ν op a b r va vb :
  den ν a va -> den ν b vb -> sbitwise op a b = Some r ->
  (op = OAnd \/ op = OOr \/ op = OXor) ->
  forall c, exists v, binop_eval c op va vb = Ok v /\ den ν r v.
Proof.
  intros Da Db H Hop c. unfold sbitwise in H.
  destruct (as_bits a) as [[ta f]|] eqn:Ea; [|discriminate].
  destruct (as_bits b) as [[tb g]|] eqn:Eb; [|discriminate].
  destruct (unify ta tb) as [t|] eqn:Eu; [|discriminate].
  destruct (is_uint t) eqn:U; cbn [andb] in H; [|discriminate].
  destruct (fits a t) eqn:Fa; cbn [andb] in H; [|discriminate].
  destruct (fits b t) eqn:Fb; cbn [andb] in H; [|discriminate].
  injection H as <-.
  destruct (as_bits_den _ _ _ _ _ Ea Da) as (x & -> & Hx & Hfx).
  destruct (as_bits_den _ _ _ _ _ Eb Db) as (y & -> & Hy & Hfy).
  destruct (fits_den _ _ _ _ _ _ Fa Da eq_refl) as [Hx' _].
  destruct (fits_den _ _ _ _ _ _ Fb Db eq_refl) as [Hy' _].
  assert (E : binop_eval c op (VInt ta x) (VInt tb y) = arith c op t x y).
  { cbn. rewrite Eu, U. destruct (N.ltb_spec x (2 ^ width t)); [|lia].
    destruct (N.ltb_spec y (2 ^ width t)); [|lia]. cbn.
    destruct Hop as [->|[->| ->]]; reflexivity. }
  rewrite E.
  exists (VInt t (match op with OAnd => N.land x y | OOr => N.lor x y | _ => N.lxor x y end)).
  split; [destruct Hop as [->|[->| ->]]; reflexivity|].
  cbn. split; [reflexivity|]. split.
  { destruct Hop as [->|[->| ->]]; [now apply land_lt_l|now apply lor_lt|now apply lxor_lt]. }
  intros i s Hi.
  assert (Hbit : N.testbit (match op with OAnd => N.land x y | OOr => N.lor x y | _ => N.lxor x y end) i
                 = bcomb op (N.testbit x i) (N.testbit y i)).
  { destruct Hop as [->|[->| ->]]; cbn; [apply N.land_spec|apply N.lor_spec|apply N.lxor_spec]. }
  rewrite Hbit.
  destruct (N.ltb_spec i (width t)).
  - destruct (f i) as [sx|] eqn:Fi; [|discriminate]. destruct (g i) as [sy|] eqn:Gi; [|discriminate].
    rewrite (Hfx _ _ Fi), (Hfy _ _ Gi). symmetry. now apply scomb_ok.
  - injection Hi as <-. rewrite (testbit_small x (width t)), (testbit_small y (width t)) by (assumption || lia).
    destruct Hop as [->|[->| ->]]; reflexivity.
Qed.

Lemma sshift_sound ν l a b r va vb :
  den ν a va -> den ν b vb -> sshift l a b = Some r ->
  forall c, exists v, binop_eval c (if l then OShl else OShr) va vb = Ok v /\ den ν r v.
Proof.
  intros Da Db H c. unfold sshift in H.
  destruct a as [|t f| |]; try discriminate.
  destruct b as [[ts s| |]| | |]; try discriminate.
  destruct (is_uint t) eqn:U; cbn [andb] in H; [|discriminate].
  destruct (is_shift_amount ts) eqn:SA; cbn [andb] in H; [|discriminate].
  destruct (N.ltb_spec s (width t)) as [Hs|]; [|discriminate]. injection H as <-.
  destruct va as [t' x| |]; try contradiction. destruct Da as (<- & Hx & Hb). destruct Db as [<- _].
  assert (E : binop_eval c (if l then OShl else OShr) (VInt t x) (VInt ts s) = shift c l t x s).
  { destruct l; cbn; rewrite U, SA; reflexivity. }
  rewrite E. unfold shift. destruct (N.ltb_spec s (width t)); [|lia].
  eexists. split; [reflexivity|]. destruct l.
  - cbn. split; [reflexivity|]. split; [apply wrap_lt|].
    intros i sb Hi. rewrite wrap_spec.
    destruct (N.ltb_spec i (width t)); cbn [andb] in *.
    + destruct (N.leb_spec s i); cbn [andb] in *.
      * rewrite N.shiftl_spec_high' by lia. now apply Hb.
      * injection Hi as <-. now rewrite N.shiftl_spec_low by lia.
    + now injection Hi as <-.
  - cbn. split; [reflexivity|]. split; [now apply shiftr_lt|].
    intros i sb Hi. rewrite N.shiftr_spec by lia. now apply Hb.
Qed.

Lemma sne0_sound ν a b r va vb :
  den ν a va -> den ν b vb -> sne0 a b = Some r ->
  forall c, exists v, binop_eval c ONe va vb = Ok v /\ den ν r v.
Proof.
  intros Da Db H c. unfold sne0 in H.
  destruct a as [|t f| |]; try discriminate.
  destruct b as [[tb y| |]| | |]; try discriminate.
  destruct (is_uint t) eqn:U; cbn [andb] in H; [|discriminate].
  destruct (N.eqb_spec y 0) as [->|]; cbn [andb] in H; [|discriminate].
  destruct (unify t tb) as [t'|] eqn:Eu; [|discriminate].
  destruct (ity_eqb t t') eqn:Et; [|discriminate]. apply ity_eqb_eq in Et. subst t'.
  destruct (or_bits f (N.to_nat (width t))) as [s|] eqn:Eo; [|discriminate]. injection H as <-.
  destruct va as [t' x| |]; try contradiction. destruct Da as (<- & Hx & Hb). destruct Db as [<- _].
  cbn. rewrite Eu, U. destruct (N.ltb_spec x (2 ^ width t)); [|lia].
  destruct (N.ltb_spec 0 (2 ^ width t)); [|pose proof (pow2_pos (width t)); lia]. cbn.
  eexists. split; [reflexivity|]. cbn.
  pose proof (or_bits_ok ν f _ s x Eo Hb) as Hor. rewrite N2Nat.id in Hor.
  destruct (N.eqb_spec x 0) as [->|Hnz]; cbn.
  - destruct (dbit ν s) eqn:Ed; [|reflexivity]. destruct Hor as [Hor _].
    destruct (Hor eq_refl) as (i & _ & Hi). now rewrite N.bits_0 in Hi.
  - symmetry. apply Hor. now apply nonzero_bit.
Qed.

Lemma sbinop_sound ν op a b r va vb :
  den ν a va -> den ν b vb -> sbinop op a b = Some r ->
  forall c, exists v, binop_eval c op va vb = Ok v /\ den ν r v.
Proof.
  intros Da Db H c.
  assert (Hc : (exists ca cb, a = SConst ca /\ b = SConst cb) \/ sbinop_sym op a b = Some r).
  { destruct a; destruct b; try (right; exact H); left; eauto. }
  destruct Hc as [(ca & cb & -> & ->)|Hs].
  - unfold sbinop in H. apply lift_ok in H. destruct H as (v & Hv & ->).
    destruct Da as [<- Wa], Db as [<- Wb]. exists v. split; [now apply binop_mode_indep|].
    split; [reflexivity|]. exact (binop_wf _ _ _ _ _ Wa Wb Hv).
  - destruct op; cbn in Hs; try discriminate.
    + exact (sshift_sound ν true _ _ _ _ _ Da Db Hs c).
    + exact (sshift_sound ν false _ _ _ _ _ Da Db Hs c).
    + apply (sbitwise_sound ν OAnd _ _ _ _ _ Da Db Hs); auto.
    + apply (sbitwise_sound ν OOr _ _ _ _ _ Da Db Hs); auto.
    + apply (sbitwise_sound ν OXor _ _ _ _ _ Da Db Hs); auto.
    + exact (sne0_sound ν _ _ _ _ _ Da Db Hs c).
Qed.

Lemma swrapbinop_sound ν op a b r va vb :
  den ν a va -> den ν b vb -> swrapbinop op a b = Some r ->
  exists v, binop_eval false op va vb = Ok v /\ den ν r v.
Proof.
  intros Da Db H.
  assert (Hc : (exists ca cb, a = SConst ca /\ b = SConst cb) \/ sbinop_sym op a b = Some r).
  { destruct a; destruct b; try (right; exact H); left; eauto. }
  destruct Hc as [(ca & cb & -> & ->)|Hs].
  - unfold swrapbinop in H. apply lift_ok in H. destruct H as (v & Hv & ->).
    destruct Da as [<- Wa], Db as [<- Wb]. exists v. split; [exact Hv|].
    split; [reflexivity|]. exact (binop_wf _ _ _ _ _ Wa Wb Hv).
  - destruct op; cbn in Hs; try discriminate.
    + exact (sshift_sound ν true _ _ _ _ _ Da Db Hs false).
    + exact (sshift_sound ν false _ _ _ _ _ Da Db Hs false).
    + apply (sbitwise_sound ν OAnd _ _ _ _ _ Da Db Hs); auto.
    + apply (sbitwise_sound ν OOr _ _ _ _ _ Da Db Hs); auto.
    + apply (sbitwise_sound ν OXor _ _ _ _ _ Da Db Hs); auto.
    + exact (sne0_sound ν _ _ _ _ _ Da Db Hs false).
Qed.

Lemma snot_val_sound ν a r va :
  den ν a va -> snot_val a = Some r -> exists v, not_eval va = Ok v /\ den ν r v.
Proof.
  intros Da H. destruct a as [ca|t f|s|]; cbn in H; try discriminate.
  - apply lift_ok in H. destruct H as (v & Hv & ->). destruct Da as [<- _].
    exists v. split; [exact Hv|]. split; [reflexivity|]. eapply not_wf; exact Hv.
  - destruct (is_int_target t) eqn:T; [|discriminate]. injection H as <-.
    destruct va as [t' x| |]; try contradiction. destruct Da as (<- & Hx & Hb).
    cbn. rewrite T. eexists. split; [reflexivity|]. cbn. split; [reflexivity|]. split; [apply notw_lt|].
    intros i sb Hi. rewrite notw_spec. destruct (N.ltb_spec i (width t)); cbn [andb].
    + destruct (f i) as [s|] eqn:Fi; [|discriminate]. injection Hi as <-.
      now rewrite snot_ok, (Hb _ _ Fi).
    + now injection Hi as <-.
  - injection H as <-. destruct va as [|b|]; try contradiction. cbn in Da. subst b.
    cbn. eexists. split; [reflexivity|]. cbn. now rewrite snot_ok.
Qed.

Lemma scast_sound ν a t r va :
  den ν a va -> scast a t = Some r -> exists v, cast_eval va t = Ok v /\ den ν r v.
Proof.
  intros Da H. destruct a as [ca|ta f|s|]; cbn in H; try discriminate.
  - apply lift_ok in H. destruct H as (v & Hv & ->). destruct Da as [<- Wa].
    exists v. split; [exact Hv|]. split; [reflexivity|]. eapply cast_wf; eassumption.
  - destruct (is_int_target t) eqn:T; cbn [negb] in H; [|discriminate].
    destruct va as [t' x| |]; try contradiction. destruct Da as (<- & Hx & Hb).
    unfold cast_eval. rewrite T. cbn [negb].
    assert (Trunc : forall f', (forall i, f' i = if i <? width t then f i else Some (SC false)) ->
              den ν (SInt t f') (VInt t (wrap (width t) x))).
    { intros f' Hf'. cbn. split; [reflexivity|]. split; [apply wrap_lt|].
      intros i sb Hi. rewrite Hf' in Hi. rewrite wrap_spec.
      destruct (N.ltb_spec i (width t)); cbn [andb]; [now apply Hb|now injection Hi as <-]. }
    destruct ta as [w|w| | |]; try discriminate.
    + injection H as <-. eexists. split; [reflexivity|]. now apply Trunc.
    + destruct (N.leb_spec (width t) w) as [Hle|Hgt].
      * injection H as <-. eexists. split; [reflexivity|]. now apply Trunc.
      * destruct (N.ltb_spec 0 w) as [Hw|]; [|discriminate]. injection H as <-.
        cbn [width] in Hx.
        assert (Hpw : 2 ^ w < 2 ^ width t) by now apply pow2_lt_mono.
        destruct (N.testbit x (w - 1)) eqn:Top; eexists; (split; [reflexivity|]).
        -- cbn. split; [reflexivity|]. split; [apply wrap_lt|].
           rewrite wrap_small by lia.
           assert (Hones : x + (2 ^ width t - 2 ^ w) = N.lor x (N.shiftl (N.ones (width t - w)) w)).
           { rewrite <- add_disjoint_lor.
             - f_equal. rewrite N.shiftl_mul_pow2, N.ones_equiv.
               pose proof (pow2_pos (width t - w)). pose proof (pow2_pos w).
               replace (2 ^ width t) with (2 ^ (width t - w) * 2 ^ w)
                 by (rewrite <- N.pow_add_r; f_equal; lia).
               nia.
             - apply N.bits_inj_0. intros i. rewrite N.land_spec.
               destruct (N.ltb_spec i w).
               + rewrite N.shiftl_spec_low by lia. apply andb_false_r.
               + now rewrite (testbit_small x w i) by (assumption || lia). }
           rewrite Hones. intros i sb Hi. rewrite N.lor_spec.
           destruct (N.ltb_spec i w).
           ++ rewrite N.shiftl_spec_low by lia. rewrite orb_false_r. now apply Hb.
           ++ rewrite (testbit_small x w i) by (assumption || lia). cbn [orb].
              rewrite N.shiftl_spec_high' by lia.
              destruct (N.ltb_spec i (width t)).
              ** rewrite N.ones_spec_low by lia. rewrite <- Top. now apply Hb.
              ** injection Hi as <-. now rewrite N.ones_spec_high by lia.
        -- cbn. split; [reflexivity|]. split; [lia|].
           intros i sb Hi. destruct (N.ltb_spec i w); [now apply Hb|].
           rewrite (testbit_small x w i) by (assumption || lia).
           destruct (N.ltb_spec i (width t)).
           ++ rewrite <- Top. now apply Hb.
           ++ now injection Hi as <-.
    + injection H as <-. eexists. split; [reflexivity|]. now apply Trunc.
  - destruct (is_int_target t) eqn:T; cbn [negb] in H; [|discriminate].
    destruct (N.ltb_spec 0 (width t)) as [Hw|]; [|discriminate]. injection H as <-.
    destruct va as [|b|]; try contradiction. cbn in Da. subst b.
    unfold cast_eval. rewrite T. cbn [negb]. eexists. split; [reflexivity|].
    cbn. split; [reflexivity|]. split; [apply wrap_lt|].
    assert (Hlt : (if dbit ν s then 1 else 0) < 2 ^ width t).
    { pose proof (pow2_lt_mono 0 (width t) Hw). rewrite N.pow_0_r in H. destruct (dbit ν s); lia. }
    rewrite wrap_small by exact Hlt.
    intros i sb Hi. destruct (N.eqb_spec i 0) as [->|Hne]; injection Hi as <-.
    + now destruct (dbit ν s).
    + cbn. apply (testbit_small _ 1); [destruct (dbit ν s); cbn; lia|lia].
Qed.

Lemma sextract_sound ν src n a s r va vs :
  den ν a va -> den ν s vs -> sextract src n a s = Some r ->
  exists v, extract_eval src n va vs = Ok v /\ den ν r v.
Proof.
  intros Da Ds H. destruct a as [ca|ta f| |]; cbn in H; try discriminate.
  - destruct s as [cs| | |]; try discriminate.
    apply lift_ok in H. destruct H as (v & Hv & ->). destruct Da as [<- _], Ds as [<- _].
    exists v. split; [exact Hv|]. split; [reflexivity|]. eapply extract_wf; exact Hv.
  - destruct ta as [w| | | |]; try discriminate.
    destruct s as [[ts k| |]| | |]; try discriminate.
    destruct (N.eqb_spec w src) as [->|]; cbn [andb] in H; [|discriminate].
    destruct (match ts with TUsize | TLit => true | _ => false end) eqn:Ts; cbn [andb] in H; [|discriminate].
    destruct (N.leb_spec (k + n) src) as [Hk|]; [|discriminate]. injection H as <-.
    destruct va as [t' x| |]; try contradiction. destruct Da as (<- & Hx & Hb). destruct Ds as [<- _].
    cbn. rewrite N.eqb_refl, Ts. cbn [andb]. destruct (N.leb_spec (k + n) src); [|lia].
    eexists. split; [reflexivity|]. cbn. split; [reflexivity|]. split; [apply bitsN_lt|].
    intros i sb Hi. rewrite bitsN_spec. destruct (N.ltb_spec i n); cbn [andb].
    + now apply Hb.
    + now injection Hi as <-.
Qed.

Lemma suvalue_sound ν a r va :
  den ν a va -> suvalue a = Some r -> exists v, uvalue_eval va = Ok v /\ den ν r v.
Proof.
  intros Da H. destruct a as [ca|ta f| |]; cbn in H; try discriminate.
  - apply lift_ok in H. destruct H as (v & Hv & ->). destruct Da as [<- Wa].
    exists v. split; [exact Hv|]. split; [reflexivity|]. eapply uvalue_wf; eassumption.
  - destruct ta as [| | |st n|]; try discriminate.
    destruct (N.leb_spec n st) as [Hn|]; [|discriminate]. injection H as <-.
    destruct va as [t' x| |]; try contradiction. destruct Da as (<- & Hx & Hb).
    cbn. destruct (N.leb_spec n st); [|lia]. eexists. split; [reflexivity|].
    cbn in *. split; [reflexivity|]. split; [|exact Hb].
    eapply N.lt_le_trans; [exact Hx|]. now apply pow2_mono.
Qed.

Lemma smux_val_sound ν c a b r va vb :
  den ν a va -> den ν b vb -> smux_val c a b = Some r ->
  den ν r (if dbit ν c then va else vb).
Proof.
  intros Da Db H. unfold smux_val in H.
  destruct (as_bits a) as [[ta f]|] eqn:Ea; [|discriminate].
  destruct (as_bits b) as [[tb g]|] eqn:Eb; [|discriminate].
  destruct (ity_eqb ta tb) eqn:Et; cbn [andb] in H; [|discriminate].
  apply ity_eqb_eq in Et. subst tb.
  destruct (is_uint ta); [|discriminate]. injection H as <-.
  destruct (as_bits_den _ _ _ _ _ Ea Da) as (x & -> & Hx & Hfx).
  destruct (as_bits_den _ _ _ _ _ Eb Db) as (y & -> & Hy & Hfy).
  assert (E : (if dbit ν c then VInt ta x else VInt ta y) = VInt ta (if dbit ν c then x else y))
    by now destruct (dbit ν c).
  rewrite E. cbn. split; [reflexivity|]. split; [now destruct (dbit ν c)|].
  intros i s Hi. destruct (f i) as [sx|] eqn:Fi; [|discriminate].
  destruct (g i) as [sy|] eqn:Gi; [|discriminate].
  rewrite (smux_ok ν _ _ _ _ Hi), <- (Hfx _ _ Fi), <- (Hfy _ _ Gi). now destruct (dbit ν c).
Qed.

Lemma lookup_agree ν x l l' sv :
  vars_agree ν l l' -> lookup x l = Some sv -> exists v, lookup x l' = Some v /\ den ν sv v.
Proof.
  induction 1 as [|y sv' v l l' Hd Hl IH]; cbn; [discriminate|].
  destruct (String.eqb x y); [|exact IH]. intros [= <-]. eauto.
Qed.

Lemma agrees_bind ν σ ρ x sv v :
  agrees ν σ ρ -> den ν sv v -> agrees ν (sbind_var x sv σ) (bind_var x v ρ).
Proof. intros [] Hd. constructor; cbn; try assumption. now constructor. Qed.

(** The main theorem: a successful symbolic evaluation describes the concrete evaluation in
    *both* profiles, on every valuation of the symbolic bits. *)
Theorem seval_sound e : forall σ sv, seval σ e = Some sv ->
  forall ν ρ, agrees ν σ ρ -> forall c, exists v, eval c ρ e = Ok v /\ den ν sv v.
Proof.
  induction e; intros σ sv H ν ρ A c; cbn [seval] in H; cbn [eval].
  - (* ERaw *) injection H as <-. eexists. split; [reflexivity|]. apply A.
  - (* EIdx *) injection H as <-. eexists. split; [reflexivity|].
    destruct (ag_idx _ _ _ A) as [-> Hi]. split; [reflexivity|exact Hi].
  - (* EArg *) injection H as <-. eexists. split; [reflexivity|]. apply A.
  - (* EVar *) destruct (lookup_agree ν x _ _ _ (ag_vars _ _ _ A) H) as (v & -> & Hv). eauto.
  - (* ELit *) destruct (N.ltb_spec n (2 ^ width t)); [|discriminate]. injection H as <-.
    eexists. split; [reflexivity|]. split; [reflexivity|assumption].
  - (* EBool *) injection H as <-. eexists. split; [reflexivity|]. split; [reflexivity|exact I].
  - (* EBin *)
    destruct (seval σ e1) as [x|] eqn:E1; [|discriminate].
    destruct (seval σ e2) as [y|] eqn:E2; [|discriminate].
    destruct (IHe1 _ _ E1 ν ρ A c) as (v1 & -> & D1).
    destruct (IHe2 _ _ E2 ν ρ A c) as (v2 & -> & D2).
    cbn [bind]. exact (sbinop_sound ν _ _ _ _ _ _ D1 D2 H c).
  - (* ENot *)
    destruct (seval σ e) as [x|] eqn:E1; [|discriminate].
    destruct (IHe _ _ E1 ν ρ A c) as (v1 & -> & D1). cbn [bind].
    exact (snot_val_sound ν _ _ _ D1 H).
  - (* ECast *)
    destruct (seval σ e) as [x|] eqn:E1; [|discriminate].
    destruct (IHe _ _ E1 ν ρ A c) as (v1 & -> & D1). cbn [bind].
    exact (scast_sound ν _ _ _ _ D1 H).
  - (* EIf *)
    destruct (seval σ e1) as [x|] eqn:E1; [|discriminate].
    destruct (IHe1 _ _ E1 ν ρ A c) as (v1 & -> & D1). cbn [bind].
    destruct x as [[|[]|]| |s|]; try discriminate.
    + destruct D1 as [<- _]. exact (IHe2 _ _ H ν ρ A c).
    + destruct D1 as [<- _]. exact (IHe3 _ _ H ν ρ A c).
    + destruct v1 as [|b|]; try contradiction. cbn in D1. subst b.
      destruct (seval σ e2) as [x2|] eqn:E2; [|discriminate].
      destruct (seval σ e3) as [x3|] eqn:E3; [|discriminate].
      destruct (IHe2 _ _ E2 ν ρ A c) as (v2 & Ev2 & D2).
      destruct (IHe3 _ _ E3 ν ρ A c) as (v3 & Ev3 & D3).
      pose proof (smux_val_sound ν _ _ _ _ _ _ D2 D3 H) as D.
      destruct (dbit ν s); eauto.
  - (* ELet *)
    destruct (seval σ e1) as [x0|] eqn:E1; [|discriminate].
    destruct (IHe1 _ _ E1 ν ρ A c) as (v1 & -> & D1). cbn [bind].
    apply (IHe2 _ _ H ν). now apply agrees_bind.
  - (* EAssert *)
    destruct (seval σ e1) as [x|] eqn:E1; [|discriminate].
    destruct x as [[|[]|]| | |]; try discriminate.
    destruct (IHe1 _ _ E1 ν ρ A c) as (v1 & -> & D1). cbn [bind].
    destruct D1 as [<- _]. exact (IHe2 _ _ H ν ρ A c).
  - (* EExtract *)
    destruct (seval σ e1) as [x|] eqn:E1; [|discriminate].
    destruct (seval σ e2) as [y|] eqn:E2; [|discriminate].
    destruct (IHe1 _ _ E1 ν ρ A c) as (v1 & -> & D1).
    destruct (IHe2 _ _ E2 ν ρ A c) as (v2 & -> & D2).
    cbn [bind]. exact (sextract_sound ν _ _ _ _ _ _ _ D1 D2 H).
  - (* EUNew *)
    destruct (seval σ e) as [x|] eqn:E1; [|discriminate].
    destruct x as [cv| | |]; try discriminate.
    destruct (IHe _ _ E1 ν ρ A c) as (v1 & -> & D1). cbn [bind].
    apply lift_ok in H. destruct H as (v & Hv & ->). destruct D1 as [<- _].
    exists v. split; [exact Hv|]. split; [reflexivity|]. eapply unew_wf; exact Hv.
  - (* EUValue *)
    destruct (seval σ e) as [x|] eqn:E1; [|discriminate].
    destruct (IHe _ _ E1 ν ρ A c) as (v1 & -> & D1). cbn [bind].
    exact (suvalue_sound ν _ _ _ D1 H).
  - (* ECustomNew *)
    destruct (seval σ e) as [x|] eqn:E1; [|discriminate]. injection H as <-.
    destruct (IHe _ _ E1 ν ρ A c) as (v1 & -> & D1). cbn [bind].
    eexists. split; [reflexivity|]. cbn. split; [reflexivity|exact D1].
  - (* ECustomRaw *)
    destruct (seval σ e) as [x|] eqn:E1; [|discriminate].
    destruct x as [| | |ty' x']; try discriminate. injection H as <-.
    destruct (IHe _ _ E1 ν ρ A c) as (v1 & -> & D1). cbn [bind].
    destruct v1 as [| |ty'' r]; try contradiction. destruct D1 as [_ D1]. eauto.
  - discriminate.
  - (* EWrapBin *)
    destruct (seval σ e1) as [x|] eqn:E1; [|discriminate].
    destruct (seval σ e2) as [y|] eqn:E2; [|discriminate].
    destruct (IHe1 _ _ E1 ν ρ A c) as (v1 & -> & D1).
    destruct (IHe2 _ _ E2 ν ρ A c) as (v2 & -> & D2).
    cbn [bind]. exact (swrapbinop_sound ν _ _ _ _ _ _ D1 D2 H).
  - (* EDebugAssert *)
    destruct (seval σ e1) as [x|] eqn:E1; [|discriminate].
    destruct x as [[|[]|]| | |]; try discriminate.
    destruct c.
    + destruct (IHe1 _ _ E1 ν ρ A true) as (v1 & -> & D1). cbn [bind].
      destruct D1 as [<- _]. exact (IHe2 _ _ H ν ρ A true).
    + exact (IHe2 _ _ H ν ρ A false).
Qed.

Print Assumptions seval_sound.
