#!/bin/bash
cd "$(dirname "$0")/.."
tools/mutsome.sh b C09,C16 C01-m3 C01-m4 C05-m3 C12-m4
tools/mutsome.sh "" C09,C16 C06-m2 C07-m2 C09-m2 C04-m1 C15-m2
