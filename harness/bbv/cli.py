import argparse, hashlib, json, os, sys, time
from . import pipeline as P, theorems as T, decls as D

TRUSTED_BASE = [
    'Coq 8.16.1 kernel and its bytecode VM (vm_compute); no native_compute',
    'axioms: none (Print Assumptions of every property theorem is re-run and compared with an empty allow-list)',
    'hand-written semantics of the emitted Rust fragment and of arbitrary-int 1.3.0 (coq/theories/Expr.v), validated by differential execution against the compiled code',
    'translator: harness/xlate (syn 2) + harness/bbv/translate.py, purely syntactic; unknown syntax becomes EUnsupported and fails the obligation',
    'source-slice translator harness/bbv/srcmodel.py (syn JSON of seven small functions in bitbybit/src -> Gallina over N/bool/option); a mistranslation could hide a change to those functions from the slice theorems only (the per-program checks do not use it)',
    'dump hook in /repo (cargo feature verif_hooks): writes the very TokenStream returned to rustc',
    'corpus printers harness/bbv/decls.py (declaration -> Rust text / Coq decl)',
    'rustc 1.95 / cargo for verdicts and compiled behaviour',
]


def prop_text(pid):
    for l in open(os.path.join(P.VERIF, 'properties.jsonl')):
        j = json.loads(l)
        if j['id'] == pid:
            return j
    raise SystemExit('unknown property ' + pid)


class Ctx:
    def __init__(self, tier, seed):
        self.tier = tier
        self.seed = seed
        self.t0 = time.time()
        P.ensure_framework()
        self.ws = P.Workspace(tier, seed)
        self.ws.lock()
        try:
            self.srcslice = P.stage_srcslice(self.ws)
            self.ds = P.stage_corpus(self.ws)
            self.verdicts = P.stage_verdicts(self.ws, self.ds)
            self.xl = P.stage_xlate(self.ws, self.verdicts['dumped'])
            self.ob = P.stage_obligations(self.ws, self.ds, self.verdicts, self.xl)
            self.dec = P.stage_decisions(self.ws, self.ds)['decisions']
            self.beh = P.stage_behaviour(self.ws, self.ds, self.verdicts, self.xl)
            self.extra = P.stage_extra(self.ws, self.ds, self.verdicts, self.xl, self.dec, self.beh.get('api_mismatch', {}))
        finally:
            self.ws.unlock()
        self.by_name = {d['name']: d for d in self.ds}


def field_of(d, label):
    kind, _, fname = label.partition(':')
    for f in d['fields']:
        if f['name'] == fname:
            return kind, f
    return kind, None


def is_list(f):
    return len(f['entries']) > 1


def shape_key(d, kind, f):
    return json.dumps([kind, d['base'], f['ty'].get('k'), f['ty'].get('n'), f['entries'], f.get('count'),
                       f.get('stride')])


# property -> (label kinds, field predicate)
def sel_C01(d, kind, f):
    # every readable field declared over a contiguous range; an array declared that way counts too (element i is C03's
    # statement, but "the getter returns exactly the declared bits" is the same obligation)
    return kind == 'get' and not is_list(f)


def sel_C02(d, kind, f):
    # "for every writable field": contiguous ones are C02's own domain; arrays and range lists are included as well
    # (their element-wise statements are C03/C04; the write/read-back/frame statement is the same)
    # ... and "reading the field back yields v": the getter of a field that can be written is part of the statement
    return kind in ('with', 'set') or (kind == 'get' and 'w' in f['acc'])


def sel_C03(d, kind, f):
    return kind in ('get', 'with', 'set') and f.get('count') is not None


def sel_C04(d, kind, f):
    return kind in ('get', 'with', 'set') and is_list(f)


def sel_C05(d, kind, f):
    return kind in ('get', 'with', 'set') and f['ty']['k'] == 'i'


def sel_C08(d, kind, f):
    return kind in ('get', 'with', 'set') and f['ty']['k'] == 'custom'


def sel_C11(d, kind, f):
    # an N-bit register seen through every accessor: writes must not create, getters must not reveal, state above bit N-1
    return kind in ('get', 'with', 'set') and d['base'] not in D.NATIVE


def sel_C12(d, kind, f):
    # "... and all getters observe exactly that state": the getters are part of the statement
    return kind in ('get', 'with', 'set')


def sel_C16(d, kind, f):
    return kind in ('get', 'with', 'set')


def sel_C17(d, kind, f):
    return kind in ('noget', 'nowith', 'noset')


SELECT = {'C17': sel_C17, 'C01': sel_C01, 'C02': sel_C02, 'C03': sel_C03, 'C04': sel_C04, 'C05': sel_C05, 'C08': sel_C08,
          'C11': sel_C11, 'C12': sel_C12, 'C16': sel_C16}
# struct-level obligations per property: label -> predicate on decl
def _in(*labels):
    return lambda d, l: l in labels


STRUCT_LABELS = {
    'C06': _in('storage', 'raw_value', 'new_with_raw_value', 'surface:struct', 'surface:consts', 'surface:new', 'surface:default_impl'),
    'C11': lambda d, l: l in ('raw_value', 'new_with_raw_value') and d['base'] not in D.NATIVE,
    'C13': _in('surface:builder_init', 'surface:builder_chain', 'surface:builder_struct'),
    'C14': _in('surface:builder_init', 'surface:builder_chain', 'surface:builder_struct', 'surface:sigs'),
    'C15': _in('surface:sigs', 'surface:consts', 'surface:builder_chain'),
    'C16': _in('raw_value', 'new_with_raw_value'),
    'C17': lambda d, l: l == 'surface:sigs' or l.split(':')[0] in ('noget', 'nowith', 'noset'),
    'C18': _in('surface:no_unsafe', 'surface:paths', 'surface:sigs', 'surface:consts', 'surface:builder_struct',
               'surface:builder_chain', 'surface:no_other_items', 'surface:struct'),
    'C19': _in('surface:debug_impl'),
}


def extra_mismatches(ctx, pid):
    """mismatches of the extra stages (programs that must not compile, const crate, regimes, facts, debug text)
    that concern property pid -> list of (payload, concrete?)"""
    out = []
    ex = ctx.extra
    for m in ex['cfail']['mismatches']:
        if m['property'] == pid or (pid == 'C17' and not m['expect_error'] and m['kind'].startswith(('builder()', 'complete chain'))):
            out.append((dict(m, kind='must-not-compile'), True))
    if pid == 'C15':
        for m in ex['const']['mismatches']:
            out.append((dict(m, kind='const-context'), True))
        # a rule-valid declaration rejected by the const checker: a generated const fn is no longer const-evaluable
        for name, msgs in ctx.verdicts['rejected'].items():
            d = ctx.by_name.get(name)
            if d is not None and name in ctx.dec and ctx.dec[name][0] and any(x.get('code') in ('E0015', 'E0658', 'E0080') for x in msgs):
                out.append(({'decl': name, 'kind': 'const-context', 'what': 'generated code is rejected by the const checker',
                             'rustc': msgs[:2]}, True))
    if pid == 'C18':
        for m in ex['regimes']['mismatches']:
            out.append((dict(m, kind='crate-regime'), True))
    if pid in ('C09', 'C10', 'C11', 'C16'):
        for name in ex.get('release_verdicts', {}).get('accepted_in_release', []):
            d = ctx.by_name[name]
            if pid == 'C11' and (d['kind'] != 'bitfield' or d['base'] in D.NATIVE):
                continue
            if (d['kind'] == 'enum') == (pid == 'C10') or pid in ('C16', 'C11'):
                out.append(({'decl': name, 'kind': 'release-verdict',
                             'what': 'rejected when the proc-macro is built with overflow checks (dev) but accepted when it is built '
                                     'without them (cargo build --release): the verdict depends on the build profile',
                             'rustc_dev': ctx.verdicts['rejected'].get(name, [])[:2]}, True))
    if pid == 'C11':
        # a declaration over an arbitrary-int base that does not fit it (fields or default) but compiles: state above bit N-1
        for name in ctx.verdicts['accepted']:
            d = ctx.by_name.get(name)
            if d is not None and d['kind'] == 'bitfield' and not d.get('unstructured') and d['base'] not in D.NATIVE \
                    and name in ctx.dec and not ctx.dec[name][0]:
                out.append(({'decl': name, 'kind': 'verdict',
                             'what': 'the declaration addresses or initialises bits at or above the declared width N of its arbitrary-int '
                                     'base, yet it compiles: the storage integer can hold state above bit N-1'}, True))
    if pid == 'C16':
        # a declaration the rules reject but the macro accepts, with an accessor that cannot be shown total (the reflective
        # obligation fails: typically a shift or subtraction that overflows for every input)
        for name in ctx.verdicts['accepted']:
            d = ctx.by_name.get(name)
            if d is not None and d['kind'] == 'bitfield' and not d.get('unstructured') and name in ctx.dec and not ctx.dec[name][0]:
                bad = [l for l, ok in ctx.ob['obligations'].get(name, []) if not ok and l.split(':')[0] in ('get', 'with', 'set')]
                if bad:
                    out.append(({'decl': name, 'kind': 'verdict',
                                 'what': 'the declaration breaks the documented layout rules, yet it compiles, and its accessor(s) %s '
                                         'cannot be shown to be total and profile-independent' % ', '.join(bad[:4])}, True))
    for m in ctx.beh['facts']['mismatches']:
        w = m.get('what', '')
        if (w.startswith('size/alignment') and pid == 'C06') or (w.startswith('debug text') and pid == 'C19') or \
                ('dev and release' in w and pid == 'C16') or (w == 'model output missing' and pid in ('C06', 'C19')):
            out.append((dict(m, kind='facts'), True))
    return out


def verdict_obligations(ctx, kind):
    """one obligation per declaration of `kind`: rustc's verdict = the rule (valid_*) = the model of the macro (accept_*)"""
    out = []
    acc = set(ctx.verdicts['accepted'])
    casc = set(ctx.verdicts['cascade'])
    for d in ctx.ds:
        if d['kind'] != kind or d['name'] in casc:
            continue
        real = d['name'] in acc
        if d['name'] in ctx.dec and d.get('unstructured'):
            # malformed attribute string: the rule says reject (by construction of the corpus); the model of the
            # argument parser (Tokens.v) ran on its tokens
            valid = d['expect'] == 'accept'
            model = ctx.dec[d['name']][1]
            how = 'malformed attribute: expectation=%s token-automaton model=%s' % (d['expect'], model)
        elif d['name'] in ctx.dec:
            valid, model = ctx.dec[d['name']][:2]
            how = 'valid=%s model=%s' % (valid, model)
        else:
            valid = model = d['expect'] == 'accept'
            how = 'malformed-stream expectation=%s' % d['expect']
        ok = real == valid == model
        out.append({'decl': d['name'], 'label': 'verdict', 'ok': ok, 'real': real, 'valid': valid, 'model': model,
                    'shape': json.dumps([d['family'], d.get('tags'), d.get('base'), d.get('bits'), real]),
                    'detail': 'rustc %s; %s' % ('accepts' if real else 'rejects', how)})
    return out


def collect(ctx, pid):
    """-> list of per-program obligations {decl, label, ok} that serve property pid"""
    out = []
    if pid == 'C09':
        return verdict_obligations(ctx, 'bitfield')
    if pid == 'C10':
        out += verdict_obligations(ctx, 'enum')
    if pid in ('C07', 'C10'):
        for name, obs in ctx.ob['obligations'].items():
            d = ctx.by_name[name]
            if d['kind'] == 'enum':
                for label, ok in obs:
                    if label == 'enum:surface':
                        continue
                    if pid == 'C07' or label == 'enum:new_with_raw_value':
                        out.append({'decl': name, 'label': label, 'ok': ok,
                                    'shape': json.dumps([label, d['bits'], d.get('exh'), len(d['variants'])])})
        if pid == 'C07':
            # a rule-valid enum that no longer compiles: its conversions cannot be exact, total or inverse to each other
            casc = set(ctx.verdicts['cascade'])
            for name, msgs in ctx.verdicts['rejected'].items():
                d = ctx.by_name.get(name)
                if d is not None and d['kind'] == 'enum' and name not in casc and name in ctx.dec and ctx.dec[name][0]:
                    out.append({'decl': name, 'label': 'compiles', 'ok': False, 'shape': json.dumps(['compiles', d['bits'], d.get('exh')]),
                                'rustc': msgs[:2]})
        return out
    sel = SELECT.get(pid)
    sl = STRUCT_LABELS.get(pid)
    if pid == 'C18':
        for name, obs in ctx.ob['obligations'].items():
            d = ctx.by_name[name]
            if d['kind'] == 'enum':
                for label, ok in obs:
                    if label == 'enum:surface':
                        out.append({'decl': name, 'label': label, 'ok': ok, 'shape': json.dumps([label, d['bits'], d.get('exh')])})
    for name, obs in ctx.ob['obligations'].items():
        d = ctx.by_name[name]
        if d['kind'] != 'bitfield':
            continue
        for label, ok in obs:
            kind, f = field_of(d, label)
            if f is not None and sel and sel(d, kind, f):
                out.append({'decl': name, 'label': label, 'ok': ok, 'shape': shape_key(d, kind, f)})
            elif f is None and sl and sl(d, label):
                out.append({'decl': name, 'label': label, 'ok': ok, 'shape': json.dumps([label, d['base']])})
    # a rule-valid declaration that no longer compiles: the property cannot be shown for its accessors
    casc = set(ctx.verdicts['cascade'])
    for name, msgs in ctx.verdicts['rejected'].items():
        d = ctx.by_name.get(name)
        if d is None or d.get('unstructured') or name in casc or name not in ctx.dec or not ctx.dec[name][0]:
            continue
        if d['kind'] != 'bitfield':
            continue
        hit = False
        for f in d['fields']:
            kinds = (['get'] if 'r' in f['acc'] else []) + (['with', 'set'] if 'w' in f['acc'] else [])
            if sel and any(sel(d, k, f) for k in kinds):
                hit = True
        labels = ['storage', 'raw_value', 'new_with_raw_value', 'surface:sigs', 'surface:struct']
        if d.get('debug'):
            labels.append('surface:debug_impl')
        if d.get('default') is not None:
            labels.append('surface:consts')
        if sl and any(sl(d, l) for l in labels):
            hit = True
        if hit:
            out.append({'decl': name, 'label': 'compiles', 'ok': False, 'shape': json.dumps(['compiles', d['base']]),
                        'rustc': msgs[:2]})
    return out


def corpus_distribution(ctx):
    """what the generator produced on this run: families, expectations, and how the valid declarations were written"""
    import collections
    fam = collections.Counter(d['family'] for d in ctx.ds)
    exp = collections.Counter(d.get('expect') for d in ctx.ds)
    bases = collections.Counter(d['base'] for d in ctx.ds if d['kind'] == 'bitfield' and isinstance(d.get('base'), int))
    w = collections.Counter()
    kinds = collections.Counter()
    nf = 0
    for d in ctx.ds:
        if d['kind'] == 'enum':
            w['enum: arguments reversed'] += bool(d.get('args_rev'))
            w['enum: discriminant spelled in hex/bin/oct/underscores'] += sum(1 for v in d['variants'] if v.get('discr_text'))
            continue
        w['bitfield: debug before default'] += bool(d.get('args_rev'))
        w['bitfield: trailing comma in bitfield(..)'] += bool(d.get('args_trailing_comma'))
        w['bitfield: default literal not plain decimal'] += bool((d.get('default') or {}).get('text') not in (None, str((d.get('default') or {}).get('value'))))
        for f in d.get('fields', []):
            nf += 1
            kinds[f['ty'].get('k')] += 1
            w['field: arguments permuted'] += bool(f.get('order') and f['order'] != sorted(f['order']))
            w['field: stride: instead of stride ='] += bool(f.get('stride_sep'))
            w['field: trailing comma'] += bool(f.get('trailing_comma'))
            w['field: path-qualified type'] += bool(f['ty'].get('path') or f['ty'].get('opt_path'))
            w['field: array'] += f.get('count') is not None
            w['field: range list'] += bool(f.get('list'))
            w['field: documented'] += bool(f.get('doc'))
    return {'families': dict(sorted(fam.items())), 'expectation': {str(k): v for k, v in exp.items()}, 'fields': nf,
            'field_type_kinds': dict(kinds), 'distinct_base_widths': len(bases), 'written_as': dict(w),
            'source_constants': ctx.ws.load('corpus').get('source_constants') if ctx.ws.done('corpus') else None}


def evidence_path(pid):
    """evidence/<id>.json describes runs against /repo; runs against a scratch tree (VERIF_REPO) must not overwrite it"""
    if os.path.realpath(P.REPO) == '/repo':
        d = os.path.join(P.VERIF, 'evidence')
    else:
        d = os.path.join(P.WORK, 'evidence-scratch')
    os.makedirs(d, exist_ok=True)
    return os.path.join(d, pid + '.json')


def write_replay(pid, payload):
    os.makedirs(os.path.join(P.VERIF, 'replays'), exist_ok=True)
    h = hashlib.sha256(json.dumps(payload, sort_keys=True).encode()).hexdigest()[:12]
    path = os.path.join(P.VERIF, 'replays', '%s-%s.json' % (pid, h))
    json.dump(payload, open(path, 'w'), indent=1)
    return path


KIND_OF_OP = {'G': 'get', 'W': 'with', 'S': 'set'}


def beh_selected(ctx, pid, m):
    """does behavioural mismatch m concern property pid?"""
    d = ctx.by_name[m['decl']]
    if m.get('what') == 'model output missing':
        return True
    if m['what'].startswith('dev and release') and pid == 'C16':
        return True
    if m['what'].startswith('Option<enum>'):
        return pid == 'C08'
    if m['op'] == 'I':
        return pid == 'C11'
    if m['op'] == 'R':
        return pid in ('C06', 'C16') or (pid == 'C11' and d['base'] not in D.NATIVE)
    if m['op'] == 'B':
        return pid in ('C13', 'C16') or (pid == 'C11' and d['base'] not in D.NATIVE)
    f = [x for x in d['fields'] if x['name'] == m['field']][0]
    sel = SELECT.get(pid)
    return bool(sel and sel(d, KIND_OF_OP[m['op']], f))


def directed_search(ctx, d, label):
    """look for a concrete input on which the real accessor named by `label` differs from Spec.v"""
    import random
    from . import cases
    kind, f = field_of(d, label)
    if f is None or kind not in ('get', 'with', 'set'):
        return None
    # 1. something the behavioural stage already found
    for m in ctx.beh['mismatches']:
        if m['decl'] == d['name'] and m.get('field') == f['name'] and KIND_OF_OP.get(m.get('op')) == kind \
                and 'specification' in m['what']:
            return m
    # 2. directed / exhaustive inputs for this accessor (the outcome is cached per workspace: several checks ask for it)
    cdir = ctx.ws.path('searchcache')
    os.makedirs(cdir, exist_ok=True)
    cfile = os.path.join(cdir, hashlib.sha256(('%s|%s' % (d['name'], label)).encode()).hexdigest()[:16] + '.json')
    if os.path.exists(cfile):
        return json.load(open(cfile))['witness']
    rng = random.Random('search|%s|%s|%s' % (ctx.seed, d['name'], label))
    sc = cases.gen_field_cases(d, f, kind, ctx.by_name, rng)
    if not sc:
        return None
    ctx.ws.lock()
    try:
        res = P.behaviour_compare(ctx.ws, [d], {d['name']: sc}, ctx.by_name, ctx.xl, 'search', max_mism=1)
    finally:
        ctx.ws.unlock()
    w = None
    for m in res['mismatches']:
        if 'specification' in m.get('what', ''):
            w = m
            break
    json.dump({'witness': w}, open(cfile, 'w'))
    return w


def check_property(pid, tier, seed):
    try:
        return check_property_(pid, tier, seed)
    except Exception:
        # the machinery itself failed on this tree: the property is no longer shown to hold
        import traceback
        tb = traceback.format_exc()
        sys.stderr.write(tb)
        path = write_replay(pid, {'property': pid, 'kind': 'infrastructure',
                                  'what': 'the check could not be completed on this tree; no theorem or correspondence was established',
                                  'traceback': tb[-6000:]})
        ev = {'property_id': pid, 'tier': tier, 'seed': seed, 'level': 'proof',
              'coverage': {'obligations': 1, 'discharged': 0, 'checker_cmd': 'n/a (check aborted)', 'trusted_base': TRUSTED_BASE,
                           'evaluations': 1, 'distinct_nontrivial': 0, 'explanation': 'check aborted: ' + tb.strip().splitlines()[-1][:300]},
              'wall_s': 0.0, 'violations': 1}
        json.dump(ev, open(evidence_path(pid), 'w'), indent=1)
        print('VIOLATION property=%s replay=%s no-failing-input-found' % (pid, path))
        return 1


def check_property_(pid, tier, seed):
    t0 = time.time()
    prop = prop_text(pid)
    violations = []   # (replay_path, suffix)
    # 1. the theorem layer
    hits = T.scan_sources()
    ctx = Ctx(tier, seed)
    assum = T.assumptions()
    thms = T.THEOREMS.get(pid, [])
    thm_ok = 0
    for n in thms:
        a = assum.get(n)
        if a == 'closed':
            thm_ok += 1
        else:
            violations.append((write_replay(pid, {'property': pid, 'kind': 'theorem', 'theorem': n,
                                                  'assumptions': a}), ' no-failing-input-found'))
    if hits:
        violations.append((write_replay(pid, {'property': pid, 'kind': 'forbidden-vernacular', 'hits': hits}),
                           ' no-failing-input-found'))
    chk = None
    if tier == 'thorough':
        chk = T.coqchk()
        if not chk['ok']:
            violations.append((write_replay(pid, {'property': pid, 'kind': 'coqchk', 'result': chk}), ' no-failing-input-found'))
    # 1b. the macro's own decision functions, translated from its source on this run, against the model's
    slice_units = [u for u in ctx.srcslice['units'] if pid in u['props']]
    for u in slice_units:
        if u['status'] == 'proved':
            continue
        if u['status'] in ('untranslatable', 'unproved') and not u.get('witness'):
            # the function was rewritten into syntax the slice translator does not cover, or into a form the generic proof
            # script does not close although no argument was found on which it differs from the model: this extra tie is not
            # available on this tree; the boundary declarations tried instead all behave as the rules say, and the per-program
            # checks below (which do not depend on the slice) decide the property
            print('NOTE property=%s source slice not checked on this tree: %s %s; %d boundary declarations behave as documented' % (
                pid, u['label'][4:], 'is not in the translatable subset (%s)' % u.get('error') if u['status'] == 'untranslatable'
                else 'was translated and agrees with the model on every enumerated argument, but the for-all proof did not go through',
                u.get('probes') or 0))
            continue
        payload = {'property': pid, 'kind': 'source-slice', 'function': u['label'][4:], 'statement': u['desc'],
                   'status': u['status'], 'translated_definition': u.get('definition'), 'translation_error': u.get('error'),
                   'first_argument_where_source_and_model_differ (argument, source, model)': u.get('first_diff'),
                   'coqc': u.get('coqc'), 'declarations_tried': u.get('probes'), 'witness': u.get('witness'),
                   'note': 'the function as written in bitbybit/src is no longer proved equal to the function of the model that the '
                           'theorems of this property are about'}
        violations.append((write_replay(pid, payload), '' if u.get('witness') else ' no-failing-input-found'))
    # 2. per-program obligations on the real expansions
    obs = collect(ctx, pid)
    failing = [o for o in obs if not o['ok']]
    reported = set()
    api = ctx.beh.get('api_mismatch', {})
    searched = 0
    seen_decl = set()

    def klass(o):
        # one representative per kind of accessor first: the harmful part of a change often concerns one kind only
        d = ctx.by_name[o['decl']]
        if d['kind'] != 'bitfield':
            return ('enum',)
        kind, f = field_of(d, o['label'])
        if f is None:
            return (o['label'],)
        S = D.storage(d['base'])
        lo = min(x for x, _ in D.ranges(f))
        hi = max(x + n for x, n in D.ranges(f))
        slot_end = lo + D.fcount(f) * D.fstride(f) if f.get('count') is not None else hi
        return (kind, f['ty']['k'], is_list(f), f.get('count') is not None, d['base'] in D.NATIVE, d['base'] > 64,
                D.total(f) == S, hi == d['base'], lo == 0, slot_end > S, D.total(f) in D.NATIVE)
    seen_k = {}
    for o in failing:
        seen_k.setdefault(klass(o), []).append(o)
    ordered = []
    while any(seen_k.values()):
        for k in list(seen_k):
            if seen_k[k]:
                ordered.append(seen_k[k].pop(0))
    found = 0
    nfi = 0
    for o in ordered:
        if found >= 3 or (searched >= 40 and nfi >= 4):
            break
        d = ctx.by_name[o['decl']]
        if o['label'] == 'verdict':
            payload = {'property': pid, 'kind': 'verdict', 'declaration': '\n'.join(D.rust_decl(d)), 'decl_json': d,
                       'deps': [ctx.by_name[n] for n in sorted(P.deps_of(d))], 'detail': o['detail'],
                       'rustc': ctx.verdicts['rejected'].get(o['decl']),
                       'note': 'the declaration is the witness: ' + ('it is rule-invalid but compiles' if o['real'] and not o['valid']
                               else 'it is rule-valid but is rejected' if o['valid'] and not o['real'] else 'model and rule disagree')}
            violations.append((write_replay(pid, payload), '' if o['real'] != o['valid'] else ' no-failing-input-found'))
            continue
        if o['label'] == 'compiles':
            payload = {'property': pid, 'kind': 'verdict', 'declaration': '\n'.join(D.rust_decl(d)), 'decl_json': d,
                       'deps': [ctx.by_name[n] for n in sorted(P.deps_of(d))], 'rustc': o.get('rustc'),
                       'note': 'the declaration follows the documented layout rules but no longer compiles: the property cannot be '
                               'established for its accessors (the declaration is the witness)'}
            violations.append((write_replay(pid, payload), ''))
            continue
        payload = {'property': pid, 'kind': 'obligation', 'obligation': '%s %s' % (o['decl'], o['label']),
                   'declaration': '\n'.join(D.rust_decl(d)), 'decl_json': d,
                   'deps': [ctx.by_name[n] for n in sorted(P.deps_of(d))],
                   'note': 'the reflective check of the real expansion against the model fails'}
        if o['decl'] in api:
            payload['witness'] = {'what': 'a program that uses the declaration through the API its declaration calls for no longer compiles',
                                  'rustc': api[o['decl']][:3]}
            violations.append((write_replay(pid, payload), ''))
            continue
        if pid == 'C17' and o['label'] == 'surface:sigs' and d['kind'] == 'bitfield':
            # the method list of the real expansion against what the access specifiers call for: a surplus or missing method is
            # itself the failing input
            real = set()
            for it in ctx.xl.get(o['decl'], {}).get('items', []):
                if it.get('kind') == 'impl' and it.get('self_ty') == d['name'] and it.get('trait') is None:
                    real |= set(f['name'] for f in it['items'] if f.get('kind') == 'fn')
            want = {'new_with_raw_value', 'raw_value'}
            if d.get('default') is not None:
                want.add('new')
            for f in d['fields']:
                nm = f['name'].replace('r#', '')
                if 'r' in f['acc']:
                    want.add(nm)
                if 'w' in f['acc']:
                    want |= {'with_' + nm, 'set_' + nm}
            surplus = sorted(real - want - {'builder'})
            missing = sorted(want - real)
            if surplus or missing:
                payload['witness'] = {'what': 'the generated impl block defines %s and lacks %s compared with what the access specifiers '
                                              'of the declaration call for' % (surplus or 'nothing extra', missing or 'nothing'),
                                      'surplus_methods': surplus, 'missing_methods': missing}
                violations.append((write_replay(pid, payload), ''))
                found += 1
                continue
        if pid == 'C18' and o['label'] in ('surface:no_unsafe', 'surface:paths', 'surface:no_other_items', 'enum:surface'):
            xj = ctx.xl.get(o['decl'], {})
            payload['witness'] = {'what': 'the expansion of this declaration is the witness: ' + (
                'it contains the token `unsafe`' if o['label'] == 'surface:no_unsafe' else
                'it refers to a name outside core / arbitrary_int / the user\'s own names, or emits an unexpected item'),
                'has_unsafe': xj.get('has_unsafe'), 'dump': 'bitfield.%s.rs / bitenum.%s.rs in the dump directory' % (o['decl'], o['decl'])}
            violations.append((write_replay(pid, payload), ''))
            found += 1
            continue
        w = None
        if d['kind'] == 'bitfield' and searched < 40 and (o['decl'], o['label']) not in seen_decl:
            searched += 1
            seen_decl.add((o['decl'], o['label']))
            w = directed_search(ctx, d, o['label'])
        if w is not None:
            found += 1
            payload['witness'] = w
            violations.append((write_replay(pid, payload), ''))
            reported.add((w['decl'], w.get('field'), w.get('op')))
        elif nfi < 4:
            nfi += 1
            violations.append((write_replay(pid, payload), ' no-failing-input-found'))
    # declarations dropped from the runner because their API changed, when this property is about that API
    for name, msgs in list(api.items())[:4]:
        d = ctx.by_name[name]
        if (d['kind'] == 'enum' and pid in ('C07',)) or (d['kind'] == 'bitfield' and pid in ('C17',)):
            violations.append((write_replay(pid, {'property': pid, 'kind': 'api', 'declaration': '\n'.join(D.rust_decl(d)), 'decl_json': d,
                                                  'witness': {'what': 'a program using the documented API of this declaration does not compile',
                                                              'rustc': msgs[:3]}}), ''))
    # 3. behavioural correspondence (compiled code, both profiles, vs eval of the translation vs Spec.v)
    bm = [m for m in ctx.beh['mismatches'] if beh_selected(ctx, pid, m)]
    if pid in ('C07', 'C10'):
        for m in ctx.beh['enum']['mismatches'][:4]:
            if pid == 'C10' and not ('P' in (m.get('rust_dev'), m.get('rust_release'))):
                continue
            d = ctx.by_name[m['decl']]
            violations.append((write_replay(pid, {'property': pid, 'kind': 'enum-behaviour', 'declaration': '\n'.join(D.rust_decl(d)),
                                                  'decl_json': d, 'witness': m}), ''))
    for m in bm[:4]:
        if (m['decl'], m.get('field'), m.get('op')) in reported:
            continue
        d = ctx.by_name[m['decl']]
        payload = {'property': pid, 'kind': 'behaviour', 'declaration': '\n'.join(D.rust_decl(d)), 'decl_json': d,
                   'deps': [ctx.by_name[n] for n in sorted(P.deps_of(d))], 'witness': m}
        concrete = 'specification' in m.get('what', '') or m.get('what', '').startswith(('dev and release', 'Option<enum>'))
        violations.append((write_replay(pid, payload), '' if concrete else ' no-failing-input-found'))
    # 3b. programs that must not compile, const context, crate regimes, static facts, debug text
    exm = extra_mismatches(ctx, pid)
    for m, concrete in exm[:4]:
        d = ctx.by_name.get(m.get('decl'))
        payload = {'property': pid, 'kind': m['kind'], 'witness': m}
        if d is not None:
            payload.update({'declaration': '\n'.join(D.rust_decl(d)), 'decl_json': d,
                            'deps': [ctx.by_name[n] for n in sorted(P.deps_of(d))]})
        violations.append((write_replay(pid, payload), '' if concrete else ' no-failing-input-found'))
    # 4. evidence
    slice_units = [u for u in slice_units if u['status'] in ('proved', 'differs') or u.get('witness')]
    n_ob = len(thms) + len(obs) + len(slice_units)
    n_ok = thm_ok + len(obs) - len(failing) + sum(1 for u in slice_units if u['status'] == 'proved')
    shapes = set(o['shape'] for o in obs)
    samples = []
    for o in obs[:3]:
        d = ctx.by_name[o['decl']]
        samples.append({'obligation': '%s %s' % (o['decl'], o['label']), 'declaration': '\n'.join(D.rust_decl(d)),
                        'discharged': o['ok']})
    for n in thms[:3]:
        samples.append({'theorem': n, 'assumptions': assum.get(n)})
    ev = {
        'property_id': pid, 'tier': tier, 'seed': seed, 'level': 'proof',
        'coverage': {
            'obligations': n_ob, 'discharged': n_ok,
            'checker_cmd': 'make -C coq (coqc 8.16.1, full .vo build) ; coqc .work/%s/coq/cases_*.v (vm_compute + Qed per shard)' % ctx.ws.key,
            'trusted_base': TRUSTED_BASE,
            'theorems': {n: assum.get(n) for n in thms},
            'source_slice': [{'function': u['label'][4:], 'statement': u['desc'], 'status': u['status'],
                              'assumptions': u.get('assumptions')} for u in slice_units],
            'per_program_obligations': len(obs),
            'programs': len(set(o['decl'] for o in obs)),
            'evaluations': len(obs),
            'distinct_nontrivial': len(shapes),
            'rule': 'one obligation per (declaration, accessor) selected for this property; each is a kernel-checked '
                    'statement about ALL raw values, arguments and in-range indices; distinct = distinct (accessor kind, '
                    'base width, field type, ranges, count, stride); all are non-trivial (symbolic inputs)',
            'samples': samples,
            'corpus': {'declarations': len(ctx.ds), 'accepted': len(ctx.verdicts['accepted']),
                       'rejected': len(ctx.verdicts['rejected']), 'distribution': corpus_distribution(ctx)},
            'behavioural_tie': {k: ctx.beh[k] for k in ('programs', 'scenarios', 'ops', 'stats', 'distinct', 'n_mismatches')},
            'enum_behavioural_tie': {k: ctx.beh['enum'].get(k) for k in ('enums', 'conversions', 'stats', 'n_mismatches')},
            'facts_and_debug_text_tie': {k: ctx.beh['facts'].get(k) for k in ('programs', 'debug_programs', 'debug_texts', 'n_mismatches')},
            'must_not_compile_probes': {k: ctx.extra['cfail'].get(k) for k in ('probes', 'expected_errors', 'by_property', 'samples', 'n_mismatches')},
            'const_context': {k: ctx.extra['const'].get(k) for k in ('items', 'values', 'agree', 'samples', 'n_mismatches')},
            'crate_regimes': ctx.extra['regimes'].get('regimes'),
            'release_built_macro_verdicts': ctx.extra.get('release_verdicts'),
            'behavioural_tie_note': 'whole-corpus differential run (dev and release binaries vs eval checked/unchecked vs Spec.v); '
                                    'validates Expr.v and the translator; not a proof',
            'generator_model_syntactic_match': ctx.ob.get('syntactic_match'),
            'coqchk': chk if chk is not None else 'run in the thorough tier only (coqchk -o: Axioms <none> when last run)',
            'repo_tree': ctx.ws.repo_hash[:16],
        },
        'assumptions': ['see coverage.trusted_base'],
        'wall_s': round(time.time() - t0, 2),
        'violations': len(violations),
    }
    json.dump(ev, open(evidence_path(pid), 'w'), indent=1)
    violations.sort(key=lambda v: v[1] != '')      # concrete failing inputs first
    for path, suffix in violations:
        print('VIOLATION property=%s replay=%s%s' % (pid, path, suffix))
    if not violations:
        print('OK property=%s obligations=%d discharged=%d programs=%d wall=%.1fs' % (
            pid, n_ob, n_ok, ev['coverage']['programs'], ev['wall_s']))
    return 1 if violations else 0


def replay(path):
    """rebuild the declaration of a replay file from the current tree and re-run its witness"""
    j = json.load(open(path))
    if j.get('kind') == 'source-slice':
        # re-run the slice stage on the current tree for this function, and recompile the recorded witness program
        P.ensure_framework()
        ws = P.Workspace('replay', 0, extra='slice|' + hashlib.sha256(json.dumps(j, sort_keys=True).encode()).hexdigest())
        ws.lock()
        try:
            r = P.stage_srcslice(ws)
            u = [x for x in r['units'] if x['label'][4:] == j.get('function')]
            for x in u:
                print('source slice %s: %s%s' % (x['label'][4:], x['status'],
                                                  '; first difference ' + x['first_diff'] if x.get('first_diff') else ''))
            w = j.get('witness') or {}
            if w.get('program'):
                acc, msgs = P.probe_check(ws, w['program'])
                print('witness program: %s %s' % ('compiles' if acc else 'is rejected', json.dumps(msgs)[:300]))
                expect_accept = 'but it is rejected' in (w.get('what') or '')
                if acc != expect_accept:
                    print('REPRODUCED: %s' % w.get('what'))
                    return 1
                print('NOT REPRODUCED: the witness program now behaves as the rules say')
            return 1 if any(x['status'] == 'differs' for x in u) else 0
        finally:
            ws.unlock()
    if 'decl_json' not in j:
        print('replay: %s names %s; nothing executable to re-run' % (path, j.get('theorem') or j.get('kind')))
        return 0
    d = j['decl_json']
    ds = list(j.get('deps', [])) + [d]
    P.ensure_framework()
    ws = P.Workspace('replay', 0, extra=hashlib.sha256(json.dumps(ds, sort_keys=True).encode()).hexdigest())
    ws.lock()
    try:
        json.dump(ds, open(ws.path('corpus.json'), 'w'))
        ws.mark('corpus', {'n': len(ds)})
        v = P.stage_verdicts(ws, ds)
        print('verdict: accepted=%s rejected=%s' % (d['name'] in v['accepted'], json.dumps(v['rejected'].get(d['name']))))
        if d['kind'] != 'bitfield' or d['name'] not in v['accepted']:
            return 0
        xl = P.stage_xlate(ws, v['dumped'])
        ob = P.stage_obligations(ws, ds, v, xl)
        for label, ok in ob['obligations'].get(d['name'], []):
            if not ok:
                print('obligation fails: %s %s' % (d['name'], label))
        w = j.get('witness')
        if w and 'ops' in w:
            by_name = {x['name']: x for x in ds}
            todo = [x for x in ds if x['kind'] == 'bitfield' and x['name'] in v['accepted']]
            P.build_runner(ws, todo, by_name)
            sc = [(w['r0'], [tuple(o) for o in w['ops']])]
            res = P.behaviour_compare(ws, [d], {d['name']: sc}, by_name, xl, 'replay')
            if res['mismatches']:
                print('REPRODUCED: %s' % json.dumps(res['mismatches'][0]))
                return 1
            print('NOT REPRODUCED: the recorded scenario now agrees with Spec.v in both profiles')
    finally:
        ws.unlock()
    return 0


def main(argv):
    if not argv:
        print(__doc__ or 'usage: check <Cxx> [--tier quick|thorough] | setup')
        return 2
    if argv[0] == 'replay':
        return replay(argv[1])
    if argv[0] == 'setup':
        P.ensure_framework()
        T.assumptions()
        return 0
    ap = argparse.ArgumentParser()
    ap.add_argument('pid')
    ap.add_argument('--tier', default=os.environ.get('VERIF_TIER', 'quick'))
    a = ap.parse_args(argv)
    seed = int(os.environ.get('VERIF_SEED', '1'))
    return check_property(a.pid, a.tier, seed)
