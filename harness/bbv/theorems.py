"""Property theorems (coq/theories/Properties.v) and the axioms they depend on."""
import os, re
from . import pipeline as P

# property id -> theorems of Properties.v that serve it
THEOREMS = {
    'C01': ['C01_getter_exact', 'C01_bit_weights', 'C01_outside_bits_irrelevant', 'C01_generator_model_every_getter', 'model_macro_end_to_end'],
    'C02': ['C02_setter_exact', 'C02_readback', 'C02_frame', 'C02_generator_model_every_setter', 'model_macro_end_to_end'],
    'C03': ['C01_getter_exact', 'C02_setter_exact', 'C03_oob_panics', 'C01_generator_model_every_getter', 'C02_generator_model_every_setter', 'C03_generator_model_out_of_range_index_panics'],
    'C04': ['C01_getter_exact', 'C02_setter_exact', 'C01_bit_weights', 'C02_readback', 'C02_frame', 'C01_generator_model_every_getter', 'C02_generator_model_every_setter', 'C04_distinct_bits_fit_the_base'],
    'C05': ['C01_getter_exact', 'C02_setter_exact', 'C01_generator_model_every_getter', 'C02_generator_model_every_setter'],
    'C06': ['C06_raw_value_exact', 'C06_new_with_raw_value_exact', 'C06_storage_minimal', 'C06_generator_model_raw_value', 'C06_generator_model_new_with_raw_value', 'C06_zero_and_default_carry_the_declared_value', 'model_macro_end_to_end'],
    'C07': ['C07_new_returns_the_variant_with_that_discriminant', 'C07_err_when_no_variant', 'C07_raw_then_new',
            'C07_new_then_raw', 'C07_never_panics', 'C10_no_variant_is_unrepresentable', 'C07_real_match_is_the_model_conversion'],
    'C08': ['C01_getter_exact', 'C02_setter_exact', 'C01_generator_model_every_getter', 'C02_generator_model_every_setter'],
    'C09': ['C09_accept_iff_valid', 'C09_field_accept_iff_valid', 'C09_argument_automaton_parses_well_formed_attributes',
            'C09_accepted_fields_have_a_parsable_attribute', 'C09_numeric_checks_are_the_arithmetic_part_of_accept_field',
            'model_macro_end_to_end'],
    'C10': ['C10_enum_accept_iff_valid', 'C10_exhaustive_claims_are_sound', 'C10_no_variant_is_unrepresentable',
            'C10_count_checks_are_the_arithmetic_part_of_enum_accept'],
    'C11': ['C11_no_state_above_bit_N', 'C11_rewrap_is_identity_on_reachable_states', 'C12_real_code_any_history',
            'C12_run_obligations_give_setters_ok', 'C02_setter_exact', 'C06_raw_value_exact', 'C06_new_with_raw_value_exact', 'C12_generator_model_any_history', 'C02_generator_model_every_setter', 'model_macro_end_to_end'],
    'C12': ['C12_last_write_wins', 'C12_last_write_is_the_last_covering_one', 'C12_untouched_bits_keep_initial_value',
            'C12_disjoint_writes_commute', 'C12_getters_observe_the_state', 'C12_overlapping_fields_alias_coherently',
            'C12_real_code_any_history', 'C12_run_obligations_give_setters_ok', 'C02_setter_exact', 'C12_generator_model_any_history', 'model_macro_end_to_end'],
    'C13': ['C13_builder_is_the_with_chain_from_the_default', 'C13_every_argument_reads_back',
            'C13_uncovered_bits_keep_the_default', 'C13_expected_step_performs_the_with_calls', 'C12_real_code_any_history',
            'C12_run_obligations_give_setters_ok'],
    'C14': ['C14_overlap_test_is_exact', 'C14_offered_iff_sound', 'C14_chain_masks_strictly_grow',
            'C14_only_the_complete_chain_reaches_build', 'C14_the_complete_chain_typechecks',
            'C14_build_typechecks_iff_every_field_supplied_in_order'],
    'C15': ['C15_everything_but_set_is_const', 'C15_builder_steps_are_const', 'C16_seval_total_profile_independent'],
    'C17': ['C17_field_api_is_exactly_what_the_specifier_says', 'C17_whole_api_surface',
            'C17_only_setters_of_writable_fields_mutate', 'C17_writes_elsewhere_do_not_touch_a_field', 'C02_frame'],
    'C18': ['C18_public_items_are_documented', 'C18_builder_items_are_documented'],
    'C19': ['C19_every_field_by_name_in_order', 'C19_text_is_a_function_of_the_getters', 'C19_standard_struct_format', 'C01_getter_exact'],
    'C16': ['C16_seval_total_profile_independent', 'C16_checked_ok_then_unchecked_same', 'C01_getter_exact',
            'C02_setter_exact', 'C01_generator_model_every_getter', 'C02_generator_model_every_setter', 'C12_generator_model_any_history', 'C03_generator_model_out_of_range_index_panics', 'model_macro_end_to_end'],
}

ALLOWED_AXIOMS = set()   # the development is axiom-free; anything printed is reported

FORBIDDEN = re.compile(r'\b(Admitted|admit|Axiom|Axioms|Parameter|Parameters|Conjecture|Hypothesis|Variable)\b|'
                       r'Unset\s+Guard|bypass_check|type-in-type|impredicative-set|Admit Obligations')


def scan_sources():
    """-> list of (file, line, text) with forbidden vernacular in the Coq sources"""
    hits = []
    tdir = os.path.join(P.COQ, 'theories')
    for f in sorted(os.listdir(tdir)):
        if not f.endswith('.v'):
            continue
        in_section = 0
        for i, line in enumerate(open(os.path.join(tdir, f)), 1):
            code = re.sub(r'\(\*.*?\*\)', '', line)
            if re.match(r'\s*Section\b', code):
                in_section += 1
            if re.match(r'\s*End\b', code) and in_section:
                in_section -= 1
            m = FORBIDDEN.search(code)
            if m:
                if m.group(1) in ('Variable', 'Hypothesis', 'Variables') and in_section:
                    continue
                hits.append((f, i, line.strip()))
    return hits


def all_theorems():
    names = []
    for v in THEOREMS.values():
        for n in v:
            if n not in names:
                names.append(n)
    return names


def assumptions():
    """run Print Assumptions on every property theorem -> {name: 'closed' | [axioms]} (cached per framework)"""
    import json
    cache = os.path.join(P.WORK, 'assumptions.json')
    fh = P.framework_hash()
    if os.path.exists(cache):
        j = json.load(open(cache))
        if j.get('framework') == fh:
            return j['result']
    names = all_theorems()
    src = ['From BB Require Import Properties.']
    for n in names:
        src.append('Print Assumptions %s.' % n)
    fn = os.path.join(P.WORK, 'assumptions.v')
    open(fn, 'w').write('\n'.join(src) + '\n')
    p = P.run(['coqc', '-noglob', '-Q', os.path.join(P.COQ, 'theories'), 'BB', fn], cwd=P.WORK, timeout=600)
    # the output is a sequence of blocks, one per command
    blocks = re.split(r'(?=Closed under the global context|Axioms:)', p.stdout)
    blocks = [b for b in blocks if b.strip()]
    if len(blocks) != len(names):
        raise RuntimeError('cannot parse Print Assumptions output:\n' + p.stdout[-2000:])
    res = {}
    for n, b in zip(names, blocks):
        if b.startswith('Closed under the global context'):
            res[n] = 'closed'
        else:
            res[n] = [l.split(':')[0].strip() for l in b.splitlines()[1:] if l and not l.startswith(' ')]
    json.dump({'framework': fh, 'result': res}, open(cache, 'w'))
    return res


def coqchk():
    """independent re-check of the compiled development (thorough tier) -> {'axioms': '<none>' | text, 'ok': bool} (cached)"""
    import json
    cache = os.path.join(P.WORK, 'coqchk.json')
    fh = P.framework_hash()
    if os.path.exists(cache):
        j = json.load(open(cache))
        if j.get('framework') == fh:
            return j['result']
    p = P.run(['coqchk', '-o', '-silent', '-Q', 'theories', 'BB', 'BB.Properties', 'BB.Examples'], cwd=P.COQ, timeout=3000, check=False)
    out = (p.stdout or '') + (p.stderr or '')
    m = re.search(r'\* Axioms:\s*(.*?)\n\s*\n', out, re.S)
    ax = m.group(1).strip() if m else 'unparsed'
    clean = all(re.search(r'\* %s:\s*<none>' % re.escape(k), out) for k in
                ('Axioms', 'Constants/Inductives relying on type-in-type', 'Constants/Inductives relying on unsafe (co)fixpoints',
                 'Inductives whose positivity is assumed'))
    res = {'axioms': ax, 'ok': p.returncode == 0 and clean, 'summary': out[-600:]}
    json.dump({'framework': fh, 'result': res}, open(cache, 'w'))
    return res
