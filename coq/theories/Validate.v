(** * Validate.v — reflective per-program obligations.

    Boolean checkers that compare the symbolic evaluation of a *real* accessor body
    (translated from the macro's expansion on every run) with the abstract register of
    [Spec.v], and their soundness theorems: when a checker returns [true], the body computes
    exactly the specified function for *every* raw value, argument and in-range index, in
    both build profiles, without panicking.  The checkers are evaluated by [vm_compute]
    inside the kernel; nothing is sampled. *)
From BB Require Import Bits Expr Sym Spec.
Open Scope N_scope.

(** the Rust type that carries [n] raw bits: a primitive when one has exactly that width,
    else an arbitrary-int *)
Definition uty (n : N) : ity := if is_native n then TU n else TAU (storage n) n.

Lemma width_uty n : width (uty n) = n.
Proof. unfold uty. now destruct (is_native n). Qed.

(** how a field value with bit pattern [x] is presented by the getter / accepted by the setter *)
Definition present (t : fty) (x : N) : value :=
  match t with
  | FBool => VBool (N.testbit x 0)
  | FU n => VInt (uty n) x
  | FI n => VInt (TI n) x
  | FCustom name n _ => VCustom name (VInt (uty n) x)
  end.

Definition arg_bits (n : N) : bvec :=
  fun j => Some (if j <? n then SL false (AArg j) else SC false).

Definition sym_arg (t : fty) : sval :=
  match t with
  | FBool => SBool (SL false (AArg 0))
  | FU n => SInt (uty n) (arg_bits n)
  | FI n => SInt (TI n) (arg_bits n)
  | FCustom name n _ => SCustom name (SInt (uty n) (arg_bits n))
  end.

Definition raw_bits (W : N) : bvec :=
  fun k => Some (if k <? W then SL false (ARaw k) else SC false).

Definition mk_senv (W i : N) (arg : sval) : senv :=
  mkSenv (storage W) (raw_bits W) i arg [].

Definition mk_env (W raw i : N) (arg : value) : env :=
  mkEnv (storage W) raw i arg [].

Lemma storage_ge' W : W <= 128 -> W <= storage W.
Proof. apply storage_ge. Qed.

Lemma den_sym_arg t v :
  v < 2 ^ ty_width t -> forall raw, den (mkVal raw v) (sym_arg t) (present t v).
Proof.
  intros Hv raw.
  assert (B : forall n, v < 2 ^ n -> forall i s, arg_bits n i = Some s ->
            N.testbit v i = dbit (mkVal raw v) s).
  { intros n Hn i s [= <-]. destruct (N.ltb_spec i n); dbit_simpl; [reflexivity|].
    now apply (testbit_small v n). }
  destruct t as [|n|n|name n opt]; cbn in *.
  - now destruct (N.testbit v 0).
  - rewrite width_uty. split; [reflexivity|]. split; [exact Hv|]. now apply B.
  - split; [reflexivity|]. split; [exact Hv|]. now apply B.
  - rewrite width_uty. split; [reflexivity|]. split; [reflexivity|]. split; [exact Hv|]. now apply B.
Qed.

Lemma agrees_mk W raw i arg sarg v :
  W <= 128 -> raw < 2 ^ W -> i < 2 ^ 64 -> den (mkVal raw v) sarg arg ->
  agrees (mkVal raw v) (mk_senv W i sarg) (mk_env W raw i arg).
Proof.
  intros HW Hraw Hi Harg. constructor; cbn.
  - reflexivity.
  - split; [reflexivity|]. split.
    + eapply N.lt_le_trans; [exact Hraw|]. apply pow2_mono. now apply storage_ge.
    + intros k s [= <-]. destruct (N.ltb_spec k W); dbit_simpl; [reflexivity|].
      now apply (testbit_small raw W).
  - split; [reflexivity|exact Hi].
  - exact Harg.
  - constructor.
Qed.

(** ** comparing a symbolic result with an expected bit vector *)

Definition bits_match (w : N) (f : bvec) (exp : N -> sbit) : bool :=
  forallb (fun i => match f (N.of_nat i) with
                    | Some s => sbit_eqb s (exp (N.of_nat i))
                    | None => false
                    end) (seq 0 (N.to_nat w)).

Lemma bits_match_ok w f exp i :
  bits_match w f exp = true -> i < w -> f i = Some (exp i).
Proof.
  unfold bits_match. rewrite forallb_forall. intros H Hi.
  specialize (H (N.to_nat i)). rewrite N2Nat.id in H.
  assert (In (N.to_nat i) (seq 0 (N.to_nat w))) as Hin by (apply in_seq; lia).
  specialize (H Hin). destruct (f i) as [s|]; [|discriminate].
  apply sbit_eqb_eq in H. now subst.
Qed.

(** an integer result of type [t] whose bit [i] (below the width) is [exp i] *)
Definition int_match (sv : sval) (t : ity) (exp : N -> sbit) : bool :=
  match as_bits sv with
  | Some (t', f) => ity_eqb t' t && bits_match (width t) f exp
  | None => false
  end.

Lemma int_match_ok ν sv t exp v :
  int_match sv t exp = true -> den ν sv v ->
  exists x, v = VInt t x /\ x < 2 ^ width t /\ forall i, i < width t -> N.testbit x i = dbit ν (exp i).
Proof.
  unfold int_match. intros H D.
  destruct (as_bits sv) as [[t' f]|] eqn:E; [|discriminate].
  apply andb_prop in H. destruct H as [Ht Hb]. apply ity_eqb_eq in Ht. subst t'.
  destruct (as_bits_den _ _ _ _ _ E D) as (x & -> & Hx & Hf).
  exists x. split; [reflexivity|]. split; [exact Hx|].
  intros i Hi. apply Hf. now apply (bits_match_ok (width t)).
Qed.

(** equality of two numbers below [2^w] from their low bits *)
Lemma eq_of_bits w x y :
  x < 2 ^ w -> y < 2 ^ w -> (forall i, i < w -> N.testbit x i = N.testbit y i) -> x = y.
Proof.
  intros Hx Hy H. apply N.bits_inj. intros i.
  destruct (N.lt_ge_cases i w) as [Hi|Hi]; [now apply H|].
  now rewrite (testbit_small x w i), (testbit_small y w i).
Qed.

(** ** Getter *)

Definition exp_get (rs : list range) (j : N) : sbit := SL false (ARaw (nth_pos rs j)).

Definition value_match (t : fty) (rs : list range) (sv : sval) : bool :=
  match t with
  | FBool =>
      match sv, rs with
      | SBool s, [(lo, _)] => sbit_eqb s (SL false (ARaw lo))
      | _, _ => false
      end
  | FU n => int_match sv (uty n) (exp_get rs)
  | FI n => int_match sv (TI n) (exp_get rs)
  | FCustom name n _ =>
      match sv with
      | SCustom name' sv' => String.eqb name name' && int_match sv' (uty n) (exp_get rs)
      | _ => false
      end
  end.

Definition check_getter_at (W : N) (f : field) (body : expr) (i : N) : bool :=
  let rs := elem_ranges f i in
  (ty_width (f_ty f) =? total rs)
  && match seval (mk_senv W i (SConst (VBool false))) body with
     | Some sv => value_match (f_ty f) rs sv
     | None => false
     end.

Definition check_getter (W : N) (f : field) (body : expr) : bool :=
  (W <=? 128) && (count f <? 2 ^ 64) &&
  forallb (fun i => check_getter_at W f body (N.of_nat i)) (seq 0 (N.to_nat (count f))).

Lemma gather_bit0 lo n x : 1 = total [(lo, n)] -> N.testbit (gather [(lo, n)] x) 0 = N.testbit x lo.
Proof.
  intros H. rewrite gather_spec by (rewrite <- H; lia). cbn. cbn in H.
  destruct (N.ltb_spec 0 n); [|lia]. f_equal. lia.
Qed.

Theorem check_getter_sound W f body :
  check_getter W f body = true ->
  forall i raw, i < count f -> raw < 2 ^ W ->
  forall c, eval c (mk_env W raw i (VBool false)) body = Ok (present (f_ty f) (spec_get f i raw)).
Proof.
  unfold check_getter. intros H i raw Hi Hraw c.
  apply andb_prop in H. destruct H as [H Hall]. apply andb_prop in H. destruct H as [HW HK].
  rewrite forallb_forall in Hall. specialize (Hall (N.to_nat i)).
  rewrite N2Nat.id in Hall. specialize (Hall ltac:(apply in_seq; lia)).
  unfold check_getter_at in Hall. apply andb_prop in Hall. destruct Hall as [Hw Hs].
  destruct (seval _ body) as [sv|] eqn:Es; [|discriminate].
  assert (A : agrees (mkVal raw 0) (mk_senv W i (SConst (VBool false))) (mk_env W raw i (VBool false))).
  { apply agrees_mk; try lia. split; [reflexivity|exact I]. }
  destruct (seval_sound _ _ _ Es _ _ A c) as (v & -> & D). f_equal.
  unfold spec_get. set (rs := elem_ranges f i) in *.
  assert (G : forall t, int_match sv t (exp_get rs) = true -> width t = total rs ->
            v = VInt t (gather rs raw)).
  { intros t M Ht. destruct (int_match_ok _ _ _ _ _ M D) as (x & -> & Hx & Hb). f_equal.
    apply (eq_of_bits (total rs)); [now rewrite <- Ht|apply gather_lt|].
    intros j Hj. rewrite Hb by (rewrite Ht; exact Hj). rewrite gather_spec by exact Hj.
    unfold exp_get. now rewrite dbit_pos. }
  destruct (f_ty f) as [|n|n|name n opt]; cbn [value_match present ty_width] in *.
  - destruct sv as [| |s|]; try discriminate. destruct rs as [|[lo n] [|]] eqn:Ers; try discriminate.
    apply sbit_eqb_eq in Hs. subst s. destruct v as [|b|]; try contradiction.
    cbn [den] in D. rewrite dbit_pos in D. cbn [datom v_raw] in D. subst b.
    f_equal. symmetry. apply gather_bit0. cbn [total] in *. lia.
  - apply G; [exact Hs|]. rewrite width_uty. lia.
  - apply G; [exact Hs|]. cbn. lia.
  - destruct sv as [| | |name' sv']; try discriminate.
    apply andb_prop in Hs. destruct Hs as [Hn Hs]. apply String.eqb_eq in Hn. subst name'.
    destruct v as [| |ty' v']; try contradiction. destruct D as [<- D]. f_equal.
    destruct (int_match_ok _ _ _ _ _ Hs D) as (x & -> & Hx & Hb). f_equal.
    rewrite width_uty in *. apply N.eqb_eq in Hw.
    apply (eq_of_bits n); [exact Hx|rewrite Hw; apply gather_lt|].
    intros j Hj. rewrite Hb by lia. rewrite gather_spec by lia.
    unfold exp_get. now rewrite dbit_pos.
Qed.

(** ** Setter ([with_] and [set_] bodies are checked separately) *)

Definition exp_set (W S : N) (rs : list range) (k : N) : sbit :=
  match find_pos rs 0 k with
  | Some j => SL false (AArg j)
  | None => if k <? W then SL false (ARaw k) else SC false
  end.

Definition check_setter_at (W : N) (f : field) (body : expr) (i : N) : bool :=
  let rs := elem_ranges f i in
  (ty_width (f_ty f) =? total rs)
  && (max_end rs <=? W)
  && match seval (mk_senv W i (sym_arg (f_ty f))) body with
     | Some sv => int_match sv (TU (storage W)) (exp_set W (storage W) rs)
     | None => false
     end.

Definition check_setter (W : N) (f : field) (body : expr) : bool :=
  (W <=? 128) && (count f <? 2 ^ 64) &&
  forallb (fun i => check_setter_at W f body (N.of_nat i)) (seq 0 (N.to_nat (count f))).

Lemma find_pos_bound rs : forall off k j, find_pos rs off k = Some j -> off <= j < off + total rs.
Proof.
  induction rs as [|[lo n] rs IH]; cbn [find_pos total]; intros off k j H; [discriminate|].
  destruct (find_pos rs (off + n) k) as [j'|] eqn:E.
  - injection H as <-. specialize (IH _ _ _ E). lia.
  - destruct (N.leb_spec lo k); cbn [andb] in H; [|discriminate].
    destruct (N.ltb_spec k (lo + n)); [|discriminate]. injection H as <-. lia.
Qed.

Theorem check_setter_sound W f body :
  check_setter W f body = true ->
  forall i raw v, i < count f -> raw < 2 ^ W -> v < 2 ^ ty_width (f_ty f) ->
  forall c, eval c (mk_env W raw i (present (f_ty f) v)) body
            = Ok (VInt (TU (storage W)) (spec_set f i v raw))
            /\ spec_set f i v raw < 2 ^ W.
Proof.
  unfold check_setter. intros H i raw v Hi Hraw Hv c.
  apply andb_prop in H. destruct H as [H Hall]. apply andb_prop in H. destruct H as [HW HK].
  rewrite forallb_forall in Hall. specialize (Hall (N.to_nat i)).
  rewrite N2Nat.id in Hall. specialize (Hall ltac:(apply in_seq; lia)).
  unfold check_setter_at in Hall. apply andb_prop in Hall. destruct Hall as [Hall Hs].
  apply andb_prop in Hall. destruct Hall as [Hw Hm].
  destruct (seval _ body) as [sv|] eqn:Es; [|discriminate].
  assert (A : agrees (mkVal raw v) (mk_senv W i (sym_arg (f_ty f))) (mk_env W raw i (present (f_ty f) v))).
  { apply agrees_mk; try lia. now apply den_sym_arg. }
  destruct (seval_sound _ _ _ Es _ _ A c) as (r & -> & D).
  unfold spec_set. set (rs := elem_ranges f i) in *.
  assert (Hlt : scatter rs 0 v raw < 2 ^ W) by (apply scatter_lt; [exact Hraw|lia]).
  split; [|exact Hlt]. f_equal.
  destruct (int_match_ok _ _ _ _ _ Hs D) as (x & -> & Hx & Hb). f_equal. cbn [width] in *.
  assert (HWS : W <= storage W) by (apply storage_ge; lia).
  apply (eq_of_bits (storage W)); [exact Hx| |].
  { eapply N.lt_le_trans; [exact Hlt|]. now apply pow2_mono. }
  intros k Hk. rewrite (Hb k Hk), scatter_spec. unfold exp_set.
  destruct (find_pos rs 0 k) as [j|] eqn:Ef; [now rewrite dbit_pos|].
  destruct (N.ltb_spec k W); dbit_simpl; [reflexivity|]. symmetry. now apply (testbit_small raw W).
Qed.

(** ** Index assertion (arrays): the first thing the body does *)

Definition check_assert (K : N) (body : expr) : bool :=
  match body with
  | EAssert (EBin OLt EIdx (ELit TUsize k)) _ => (k =? K) && (K <? 2 ^ 64)
  | _ => false
  end.

Theorem check_assert_sound K body :
  check_assert K body = true ->
  forall ρ c, K <= e_idx ρ -> e_idx ρ < 2 ^ 64 -> eval c ρ body = Panic.
Proof.
  destruct body; try discriminate. destruct body1; try discriminate.
  destruct op; try discriminate. destruct body1_1; try discriminate.
  destruct body1_2; try discriminate. destruct t; try discriminate.
  cbn [check_assert]. intros H ρ c Hi Hi'. apply andb_prop in H. destruct H as [Hk HK].
  cbn [eval bind]. cbn [width]. destruct (N.ltb_spec n (2 ^ 64)); [|lia]. cbn [bind].
  cbn. destruct (N.ltb_spec (e_idx ρ) (2 ^ 64)); [|lia]. destruct (N.ltb_spec n (2 ^ 64)); [|lia].
  cbn. destruct (N.ltb_spec (e_idx ρ) n); [lia|reflexivity].
Qed.

(** ** raw_value() and new_with_raw_value() *)

(** the exposed base type: a primitive for 8/16/32/64/128, else arbitrary-int *)
Definition base_ty (W : N) : ity := uty W.

Definition check_raw_value (W : N) (body : expr) : bool :=
  (W <=? 128) &&
  match seval (mk_senv W 0 (SConst (VBool false))) body with
  | Some sv => int_match sv (base_ty W) (fun j => SL false (ARaw j))
  | None => false
  end.

Theorem check_raw_value_sound W body :
  check_raw_value W body = true ->
  forall raw, raw < 2 ^ W ->
  forall c, eval c (mk_env W raw 0 (VBool false)) body = Ok (VInt (base_ty W) raw).
Proof.
  unfold check_raw_value. intros H raw Hraw c. apply andb_prop in H. destruct H as [HW H].
  destruct (seval _ body) as [sv|] eqn:Es; [|discriminate].
  assert (A : agrees (mkVal raw 0) (mk_senv W 0 (SConst (VBool false))) (mk_env W raw 0 (VBool false))).
  { apply agrees_mk; try lia. split; [reflexivity|exact I]. }
  destruct (seval_sound _ _ _ Es _ _ A c) as (v & -> & D). f_equal.
  destruct (int_match_ok _ _ _ _ _ H D) as (x & -> & Hx & Hb). f_equal.
  unfold base_ty in *. rewrite width_uty in *.
  apply (eq_of_bits W); [exact Hx|exact Hraw|]. intros i Hi. rewrite Hb by exact Hi. now rewrite dbit_pos.
Qed.

Definition check_new_raw (W : N) (body : expr) : bool :=
  (W <=? 128) &&
  match seval (mk_senv W 0 (SInt (base_ty W) (arg_bits W))) body with
  | Some sv => int_match sv (TU (storage W)) (fun j => if j <? W then SL false (AArg j) else SC false)
  | None => false
  end.

Theorem check_new_raw_sound W body :
  check_new_raw W body = true ->
  forall r raw, r < 2 ^ W -> raw < 2 ^ W ->
  forall c, eval c (mk_env W raw 0 (VInt (base_ty W) r)) body = Ok (VInt (TU (storage W)) r).
Proof.
  unfold check_new_raw. intros H r raw Hr Hraw c. apply andb_prop in H. destruct H as [HW H].
  destruct (seval _ body) as [sv|] eqn:Es; [|discriminate].
  assert (A : agrees (mkVal raw r) (mk_senv W 0 (SInt (base_ty W) (arg_bits W)))
                     (mk_env W raw 0 (VInt (base_ty W) r))).
  { apply agrees_mk; try lia. cbn. split; [reflexivity|]. unfold base_ty. rewrite width_uty.
    split; [exact Hr|]. intros i s [= <-]. destruct (N.ltb_spec i W); dbit_simpl; [reflexivity|].
    now apply (testbit_small r W). }
  destruct (seval_sound _ _ _ Es _ _ A c) as (v & -> & D). f_equal.
  destruct (int_match_ok _ _ _ _ _ H D) as (x & -> & Hx & Hb). f_equal. cbn [width] in *.
  assert (HWS : W <= storage W) by (apply storage_ge; lia).
  apply (eq_of_bits (storage W)); [exact Hx| |].
  { eapply N.lt_le_trans; [exact Hr|]. now apply pow2_mono. }
  intros i Hi. rewrite (Hb i Hi). destruct (N.ltb_spec i W); dbit_simpl; [reflexivity|].
  symmetry. now apply (testbit_small r W).
Qed.

Print Assumptions check_getter_sound.
Print Assumptions check_setter_sound.
