"""xlate JSON (generic syntax tree of a real macro expansion) -> Coq terms of BB.Expr / BB.Program.

This is the translator half of the tie between the model and the code: it is purely syntactic
(no type inference, no rewriting); anything it does not recognise becomes EUnsupported, which makes
the corresponding obligation fail, never pass."""
import re

NATIVE = (8, 16, 32, 64, 128)


def storage(n):
    for s in NATIVE:
        if n <= s:
            return s
    return 128


def cstr(s):
    return '"' + s.replace('"', '""') + '"'


def ity(name):
    """Rust integer type name -> Coq ity term or None"""
    m = re.fullmatch(r'u(\d+)', name)
    if m and int(m.group(1)) in NATIVE:
        return '(TU %d)' % int(m.group(1))
    m = re.fullmatch(r'i(\d+)', name)
    if m and int(m.group(1)) in NATIVE:
        return '(TI %d)' % int(m.group(1))
    if name == 'usize':
        return 'TUsize'
    return None


def arb_type(seg):
    """'u5' -> (storage, n) ; 'UInt<u8,5usize>' -> (8, 5); else None"""
    m = re.fullmatch(r'u(\d+)', seg)
    if m:
        n = int(m.group(1))
        if 1 <= n <= 127 and n not in NATIVE:
            return (storage(n), n)
        return None
    m = re.fullmatch(r'UInt<u(\d+),(\d+)(usize)?>', seg)
    if m:
        return (int(m.group(1)), int(m.group(2)))
    return None


BINOPS = {'<<': 'OShl', '>>': 'OShr', '&': 'OAnd', '|': 'OOr', '^': 'OXor', '+': 'OAdd', '-': 'OSub',
          '*': 'OMul', '<': 'OLt', '!=': 'ONe', '==': 'OEq'}


class Ctx:
    def __init__(self, params, struct_names):
        self.params = params          # set of parameter names
        self.locals = set()
        self.struct_names = struct_names  # names that mean "this struct" (Self, S)


def unsupported(node):
    import json
    return '(EUnsupported %s)' % cstr(json.dumps(node, sort_keys=True)[:200])


def is_self_raw(e):
    return e.get('e') == 'field' and e.get('member') == 'raw_value' and \
        e['x'].get('e') == 'path' and e['x']['segs'] == ['self']


def tr_expr(e, cx):
    k = e.get('e')
    if k == 'lit':
        if e['kind'] == 'int':
            suf = e['suffix']
            t = 'TLit' if suf == '' else ity(suf)
            if t is None:
                return unsupported(e)
            return '(ELit %s %s)' % (t, e['value'])
        if e['kind'] == 'bool':
            return '(EBool %s)' % ('true' if e['value'] else 'false')
        return unsupported(e)
    if k == 'field':
        if is_self_raw(e):
            return 'ERaw'
        return unsupported(e)
    if k == 'path':
        segs = e['segs']
        if len(segs) == 1 and not e.get('leading_colon'):
            x = segs[0]
            if x in cx.locals:
                return '(EVar %s)' % cstr(x)
            if x == 'index' and x in cx.params:
                return 'EIdx'
            if x in ('field_value', 'value') and x in cx.params:
                return 'EArg'
        return unsupported(e)
    if k == 'bin':
        op = BINOPS.get(e['op'])
        if op is None:
            return unsupported(e)
        return '(EBin %s %s %s)' % (op, tr_expr(e['l'], cx), tr_expr(e['r'], cx))
    if k == 'un':
        if e['op'] == '!':
            return '(ENot %s)' % tr_expr(e['x'], cx)
        return unsupported(e)
    if k == 'cast':
        t = ity(e['ty'])
        if t is None:
            return unsupported(e)
        return '(ECast %s %s)' % (tr_expr(e['x'], cx), t)
    if k == 'if':
        if e['f'] is None:
            return unsupported(e)
        return '(EIf %s %s %s)' % (tr_expr(e['c'], cx), tr_block(e['t'], cx), tr_expr(e['f'], cx))
    if k == 'block':
        if e.get('unsafe') or e.get('const'):
            return unsupported(e)
        return tr_block(e['b'], cx)
    if k == 'call':
        f = e['f']
        if f.get('e') == 'path' and not f.get('leading_colon'):
            segs = f['segs']
            last = segs[-1]
            m = re.fullmatch(r'extract_u(\d+)', last)
            if m and len(segs) >= 2 and len(e['args']) == 2:
                at = arb_type(segs[-2])
                pre = segs[:-2]
                if at and pre in ([], ['arbitrary_int']) and re.fullmatch(r'u\d+', segs[-2]):
                    return '(EExtract %d %d %s %s)' % (int(m.group(1)), at[1], tr_expr(e['args'][0], cx),
                                                       tr_expr(e['args'][1], cx))
                return unsupported(e)
            if last == 'new' and len(segs) >= 2 and len(e['args']) == 1:
                at = arb_type(segs[-2])
                if at and segs[:-2] in ([], ['arbitrary_int']):
                    return '(EUNew %d %d %s)' % (at[0], at[1], tr_expr(e['args'][0], cx))
                return unsupported(e)
            if last == 'new_with_raw_value' and len(segs) >= 2 and len(e['args']) == 1:
                ty = '::'.join(segs[:-1])
                if ty not in cx.struct_names:
                    return '(ECustomNew %s %s)' % (cstr(ty), tr_expr(e['args'][0], cx))
        return unsupported(e)
    if k == 'mcall':
        if e['args'] == [] and e['turbofish'] == '':
            if e['method'] == 'value':
                return '(EUValue %s)' % tr_expr(e['recv'], cx)
            if e['method'] == 'raw_value':
                return '(ECustomRaw %s)' % tr_expr(e['recv'], cx)
        return unsupported(e)
    return unsupported(e)


def tr_block(b, cx, final=None):
    """fold a block into nested ELet / EAssert; `final(e)` translates the last expression"""
    stmts = b['stmts']
    if not stmts:
        return unsupported(b)
    saved = set(cx.locals)
    try:
        return _fold(stmts, 0, cx, final)
    finally:
        cx.locals = saved


def _fold(stmts, i, cx, final):
    s = stmts[i]
    last = i == len(stmts) - 1
    if s['s'] in ('let', 'const'):
        if last or s.get('init') is None:
            return unsupported(s)
        init = tr_expr(s['init'], cx)
        # `const X: T = e` / `let x: T = e`: the annotation is checked by rustc; the model is dynamically typed
        cx.locals.add(s['name'])
        body = _fold(stmts, i + 1, cx, final)
        return '(ELet %s %s %s)' % (cstr(s['name']), init, body)
    if s['s'] == 'expr':
        e = s['e']
        if e.get('e') == 'macro' and e['name'] == 'assert' and e['path'] == ['assert'] and e.get('args') \
                and len(e['args']) == 1 and s['semi'] and not last:
            c = tr_expr(e['args'][0], cx)
            return '(EAssert %s %s)' % (c, _fold(stmts, i + 1, cx, final))
        if last:
            if final is not None:
                return final(s, cx)
            if s['semi']:
                return unsupported(s)
            return tr_expr(e, cx)
    return unsupported(s)


def tr_fn_body(fn, struct_name):
    """-> Coq `body` term: BValue e | BStruct e | BSet e"""
    params = set(p['name'] for p in fn['params'] if 'name' in p)
    cx = Ctx(params, {'Self', struct_name})
    kind = {}

    def final(s, cx):
        e = s['e']
        if e.get('e') == 'struct' and e['path'] in (['Self'], [struct_name]) and e['rest'] is None \
                and len(e['fields']) == 1 and e['fields'][0]['name'] == 'raw_value' and not s['semi']:
            kind['k'] = 'BStruct'
            return tr_expr(e['fields'][0]['e'], cx)
        if e.get('e') == 'assign' and is_self_raw(e['l']) and s['semi']:
            kind['k'] = 'BSet'
            return tr_expr(e['r'], cx)
        if s['semi']:
            kind['k'] = 'BValue'
            return unsupported(s)
        kind['k'] = 'BValue'
        return tr_expr(e, cx)

    body = tr_block(fn['body'], cx, final)
    return '(%s %s)' % (kind.get('k', 'BValue'), body)


# ---- bitenum expansions ----------------------------------------------------------------------------

def enum_ty(t):
    """type string -> Coq term of type option (N*N) * N, or None"""
    m = re.fullmatch(r'arbitrary_int::UInt<u(\d+),(\d+)(usize)?>', t or '')
    if m:
        return '(Some (%s, %s), 0)' % (m.group(1), m.group(2))
    m = re.fullmatch(r'u(\d+)', t or '')
    if m:
        return '(None, %s)' % m.group(1)
    return None


def int_lit(e):
    if e and e.get('e') == 'lit' and e.get('kind') == 'int' and e.get('suffix') == '':
        return int(e['value'])
    return None


def coq_enum_prog(name, xj):
    bad = '(mkEnumProg %s false [] false None 0 (None, 0) false (None, 0) None false [] DefOther)' % cstr(name)
    if not xj.get('ok'):
        return bad
    enum = None
    fns = {}
    for it in xj['items']:
        if it['kind'] == 'enum' and it['name'] == name:
            enum = it
        if it['kind'] == 'impl' and it['self_ty'] == name and it['trait'] is None:
            for fi in it['items']:
                if fi['kind'] == 'fn':
                    fns[fi['name']] = fi
    if enum is None:
        return bad
    derive = any(a['path'] == 'derive' and re.sub(r'\s', '', a['tokens']) == 'derive(Copy,Clone)' for a in enum['attrs'])
    vs = []
    for v in enum['variants']:
        n = int_lit(v.get('discr'))
        cfg = any(a['path'] == 'cfg' for a in v['attrs'])
        vs.append('(%s, %s, %s)' % (cstr(v['name']), 'None' if n is None else '(Some %d)' % n, 'true' if cfg else 'false'))
    # raw_value
    raw_ok, ctor, cast, raw_ret = False, 'None', 0, '(None, 0)'
    f = fns.get('raw_value')
    if f and f['vis'] == 'pub' and f['const'] and not f['unsafe'] and f['params'] == [{'self': 'value'}] \
            and len(f['body']['stmts']) == 1 and f['body']['stmts'][0]['s'] == 'expr' and not f['body']['stmts'][0]['semi']:
        e = f['body']['stmts'][0]['e']
        rt = enum_ty(f['ret'])
        inner = e
        if e.get('e') == 'call' and e['f'].get('e') == 'path' and len(e['args']) == 1 and e['f']['segs'][-1] == 'new' \
                and e['f']['segs'][:-2] == ['arbitrary_int'] and not e['f'].get('leading_colon'):
            at = arb_type(e['f']['segs'][-2])
            if at and e['f']['segs'][-2].startswith('UInt<'):
                ctor = '(Some (%d, %d))' % at
                inner = e['args'][0]
        if inner.get('e') == 'cast' and inner['x'].get('e') == 'path' and inner['x']['segs'] == ['self']:
            m = re.fullmatch(r'u(\d+)', inner['ty'])
            if m and rt:
                cast = int(m.group(1))
                raw_ret = rt
                raw_ok = True
    # new_with_raw_value
    new_ok, new_param, ret_result, reader, arms, default = False, '(None, 0)', 'None', False, [], 'DefOther'
    f = fns.get('new_with_raw_value')
    if f and f['vis'] == 'pub' and f['const'] and not f['unsafe'] and len(f['params']) == 1 and f['params'][0].get('name') == 'value' \
            and len(f['body']['stmts']) == 1 and f['body']['stmts'][0]['s'] == 'expr' and not f['body']['stmts'][0]['semi']:
        e = f['body']['stmts'][0]['e']
        pt = enum_ty(f['params'][0]['ty'])
        ret = f['ret'] or ''
        m = re.fullmatch(r'Result<Self,u(\d+)>', ret)
        wraps = None
        if m:
            ret_result = '(Some %s)' % m.group(1)
            wraps = True
        elif ret == 'Self':
            wraps = False
        if e.get('e') == 'match' and pt and wraps is not None:
            x = e['x']
            okx = False
            if x.get('e') == 'path' and x['segs'] == ['value']:
                reader, okx = False, True
            elif x.get('e') == 'mcall' and x['method'] == 'value' and x['args'] == [] and x['recv'].get('e') == 'path' \
                    and x['recv']['segs'] == ['value']:
                reader, okx = True, True
            good = okx
            for k, arm in enumerate(e['arms']):
                last = k == len(e['arms']) - 1
                pat = arm['pat']
                if arm['guard'] is not None:
                    good = False
                    break
                if pat['p'] == 'lit' and int_lit(pat['e']) is not None and not last:
                    cfg = any(a['path'] == 'cfg' for a in arm['attrs'])
                    if any(a['path'] != 'cfg' for a in arm['attrs']):
                        good = False
                    b = arm['body']
                    wrapped = False
                    if b.get('e') == 'call' and b['f'].get('e') == 'path' and b['f']['segs'] == ['Ok'] and len(b['args']) == 1:
                        wrapped = True
                        b = b['args'][0]
                    if b.get('e') == 'path' and len(b['segs']) == 2 and b['segs'][0] == 'Self':
                        arms.append('(%d, %s, %s, %s)' % (int_lit(pat['e']), cstr(b['segs'][1]), 'true' if wrapped else 'false',
                                                          'true' if cfg else 'false'))
                    else:
                        good = False
                elif last and not arm['attrs']:
                    b = arm['body']
                    if pat['p'] == 'ident' and pat['name'] == 'value' and b.get('e') == 'call' and b['f'].get('e') == 'path' \
                            and b['f']['segs'] == ['Err'] and len(b['args']) == 1 and b['args'][0].get('e') == 'path' \
                            and b['args'][0]['segs'] == ['value']:
                        default = 'DefErr'
                    elif pat['p'] == 'wild' and b.get('e') == 'macro' and b['path'] == ['unreachable'] and b['tokens'].strip() == '':
                        default = 'DefUnreachable'
                    else:
                        good = False
                else:
                    good = False
            if good:
                new_ok = True
                new_param = pt
    b = lambda x: 'true' if x else 'false'
    return '(mkEnumProg %s %s [%s] %s %s %d %s %s %s %s %s [%s] %s)' % (
        cstr(name), b(derive), '; '.join(vs), b(raw_ok), ctor, cast, raw_ret, b(new_ok), new_param, ret_result, b(reader),
        '; '.join(arms), default)
