#!/usr/bin/env python3
"""Merge check results of background runs into /verif/seeded/*/meta.json and print the DESIGN.md table.
usage: tools/mutreport.py [<run-dir-with-seeded> ...]   (e.g. /root/.vp/runs/5/verif)"""
import json, os, sys, glob
V = os.path.dirname(os.path.dirname(os.path.abspath(__file__)))
for rd in sys.argv[1:]:
    for f in glob.glob(os.path.join(rd, 'seeded', '*', 'meta.json')):
        sid = os.path.basename(os.path.dirname(f))
        src = json.load(open(f))
        dst_f = os.path.join(V, 'seeded', sid, 'meta.json')
        if 'checks' not in src or not os.path.exists(dst_f):
            continue
        dst = json.load(open(dst_f))
        checks = dst.get('checks', {})
        for k, v in src['checks'].items():
            if v.get('first'):
                v['first'] = v['first'].replace(rd, '<run>')
            checks[k] = v
        dst['checks'] = checks
        dst['caught_by'] = sorted(p for p, r in checks.items() if r['exit'] == 1)
        dst['checks_run_at'] = src.get('checks_run_at') or os.path.basename(os.path.dirname(rd.rstrip('/')))
        json.dump(dst, open(dst_f, 'w'), indent=1)
rows = []
for f in sorted(glob.glob(os.path.join(V, 'seeded', '*', 'meta.json'))):
    m = json.load(open(f))
    sid = m['seed_id']
    if m.get('benign'):
        rows.append('| %s | — (benign rewrite) | %s | none (as it must be) | — |' % (sid, ' '.join(m['what'].replace('#', '').replace('*', '').replace('`', '').split())[:140].replace('|', '/')))
        continue
    ch = m.get('checks', {})
    tgt = ch.get(m['property'])
    if tgt is None:
        res = 'not run yet'
    elif tgt['exit'] == 1:
        res = 'caught' + (' (no failing input found)' if 'no-failing-input-found' in (tgt.get('first') or '') else ' with a concrete failing input')
    elif tgt['exit'] == 0:
        res = '**missed by %s**' % m['property']
    else:
        res = 'check crashed (exit %s)' % tgt['exit']
    others = [p for p in m.get('caught_by', []) if p != m['property']]
    rows.append('| %s | %s | %s | %s | %s |' % (sid, m['property'], m['needs'][:140].replace('|', '/'), res, ', '.join(others) or '—'))
print('| Seeded change | Property | Needs | Target check | Other checks that alarm |')
print('|---|---|---|---|---|')
print('\n'.join(rows))
