#!/usr/bin/env python3
"""run only the source-slice stage against a tree: tools/slicetest.py <repo>"""
import os, sys, json
os.environ['VERIF_REPO'] = sys.argv[1]
sys.path.insert(0, os.path.join(os.path.dirname(os.path.dirname(os.path.abspath(__file__))), 'harness'))
from bbv import pipeline as P
P.ensure_framework()
ws = P.Workspace('quick', 1, extra='slicetest')
import shutil
if os.path.exists(ws.path('srcslice.done')):
    os.remove(ws.path('srcslice.done'))
r = P.stage_srcslice(ws)
for u in r['units']:
    print(u['label'], u['status'], u.get('first_diff'), u.get('error'), (u.get('witness') or {}).get('what'))
    if u['status'] != 'proved' and '-v' in sys.argv:
        print(u.get('definition')); print(u.get('coqc')); print(json.dumps(u.get('witness'), indent=1))
if '--probes' in sys.argv:
    # every probe declaration, against this tree: on the unchanged tree all must meet their expectation
    from bbv import srcmodel
    bad = n = 0
    for label in srcmodel.PROPS:
        for pr in srcmodel.probes_for(label, None):
            n += 1
            acc, msgs = P.probe_check(ws, pr['lib'])
            if acc != pr['expect_accept']:
                bad += 1
                print('PROBE MISMATCH', label, pr['what'], msgs, pr['lib'])
    print('probes: %d, mismatches: %d' % (n, bad))
shutil.rmtree(ws.dir, ignore_errors=True)
