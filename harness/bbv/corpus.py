"""Seeded corpus generator. Every random choice derives from one PRNG state (VERIF_SEED)."""
import random
from .decls import *

BOUNDARY_BASES = [8, 16, 32, 64, 128, 1, 2, 3, 7, 9, 12, 15, 17, 24, 31, 33, 48, 63, 65, 96, 127]


class Gen:
    def __init__(self, seed, tier, consts=()):
        self.consts = consts
        self.rng = random.Random(seed)
        self.rng_order = random.Random('argument-order|%s' % seed)
        self.tier = tier
        self.decls = []
        self.counter = 0
        self.enum_cache = {}
        self.nested_cache = {}

    # -- names --------------------------------------------------------------------------------
    def name(self, prefix):
        self.counter += 1
        return '%s%06d' % (prefix, self.counter)

    def add(self, d, family, expect='accept', tags=()):
        if d.get('kind') == 'bitfield' and not d.get('unstructured'):
            if 'args_rev' not in d and d.get('debug') and d.get('default') is not None and self.rng_order.random() < 0.5:
                d['args_rev'] = True
            if self.rng_order.random() < 0.06:
                d['args_trailing_comma'] = True
        d['family'] = family
        d['expect'] = expect
        d['tags'] = list(tags)
        self.decls.append(d)
        return d

    # -- custom types -------------------------------------------------------------------------
    def enum_decl(self, n, exhaustive, nvariants=None, family='types'):
        """a valid bitenum over n bits"""
        rng = self.rng
        maxv = (1 << n) - 1
        if exhaustive:
            discrs = list(range(1 << n))
            rng.shuffle(discrs)
            exh = 'true'
        else:
            k = nvariants if nvariants is not None else min(1 << n, rng.choice([1, 2, 3, 5])) 
            k = max(1, min(k, (1 << n) - 1))
            pool = {0, maxv, maxv - 1 if maxv > 0 else 0, 1 if maxv >= 1 else 0}
            while len(pool) < k + 2 and len(pool) < (1 << n):
                pool.add(rng.randrange(1 << n))
            discrs = rng.sample(sorted(pool), min(k, len(pool)))
            exh = rng.choice([None, 'false'])
        d = {'kind': 'enum', 'name': self.name('E'), 'bits': n, 'exh': exh,
             'variants': [{'name': 'V%d' % i, 'discr': x} for i, x in enumerate(discrs)]}
        # the spelling of a discriminant literal and the order of the bitenum arguments are free
        ro = self.rng_order
        for v in d['variants']:
            r = ro.random()
            if r < 0.25:
                x = v['discr']
                dec = str(x)
                v['discr_text'] = ro.choice([hex(x), bin(x), oct(x), '0x%X' % x,
                                             '_'.join([dec[max(0, i - 3):i] for i in range(len(dec), 0, -3)][::-1])])
        if exh is not None and ro.random() < 0.3:
            d['args_rev'] = True
        # attributes on variants that look like, but are not, conditional compilation
        for v in d['variants']:
            if ro.random() < 0.1:
                v['attrs'] = [ro.choice(['#[cfg_attr(any(), doc = "never")]', '#[cfg_attr(all(), allow(dead_code))]',
                                         '#[allow(dead_code)]', '#[doc = "a variant"]', '#[cfg_attr(any(), deprecated)]'])]
        if n == 64 and any(x >= (1 << 63) for x in discrs):
            d['repr'] = 'u64'
        return self.add(d, family)

    def custom_enum(self, n):
        """(type dict) of a cached enum with n bits; exhaustive for small n"""
        key = n
        if key not in self.enum_cache:
            exhaustive = n <= 3 and self.rng.random() < 0.5
            self.enum_cache[key] = self.enum_decl(n, exhaustive)
        e = self.enum_cache[key]
        opt = e['exh'] != 'true'
        return {'k': 'custom', 'name': e['name'], 'n': n, 'opt': opt, 'ck': 'enum'}

    def custom_nested(self, n):
        if n not in self.nested_cache:
            d = {'kind': 'bitfield', 'name': self.name('N'), 'base': n, 'debug': True,
                 'fields': [self.field('all', {'k': 'u', 'n': n}, [('r', 0, n - 1)] if n > 1 else [('s', 0)], acc='rw')]}
            self.nested_cache[n] = self.add(d, 'types')
        return {'k': 'custom', 'name': self.nested_cache[n]['name'], 'n': n, 'opt': False, 'ck': 'bitfield'}

    def custom(self, n):
        if n <= 64 and self.rng.random() < 0.7:
            return self.custom_enum(n)
        return self.custom_nested(n)

    # -- fields -------------------------------------------------------------------------------
    def field(self, name, ty, entries, acc='rw', count=None, stride=None, lst=None, doc=False):
        entries = [tuple(e) for e in entries]
        if lst is None:
            lst = len(entries) != 1
        if lst:
            bits_kw = self.rng.random() < 0.8
        else:
            bits_kw = entries[0][0] == 'r'
        f = {'name': name, 'ty': ty, 'bits_kw': bits_kw, 'list': lst, 'entries': [list(e) for e in entries],
             'count': count, 'stride': stride, 'acc': acc, 'doc': doc}
        # the arguments of bit(..)/bits(..) may come in any order; `stride: n` is accepted like `stride = n`
        ro = self.rng_order
        # spellings of the type: `arbitrary_int::u5` for `u5`, `core::option::Option<E>` for `Option<E>`
        if ty.get('k') == 'u' and ty['n'] not in NATIVE and ro.random() < 0.12:
            f['ty'] = dict(ty, path='arbitrary_int::')
        elif ty.get('k') == 'custom' and ty.get('opt') and ro.random() < 0.3:
            f['ty'] = dict(ty, opt_path=ro.choice(['core::option::', '::core::option::']))
        if (lst or len(entries) == 1) and ro.random() < (0.6 if stride is not None else 0.25):
            n = 1 + (1 if acc else 0) + (1 if stride is not None else 0)
            order = list(range(n))
            ro.shuffle(order)
            f['order'] = order
        if stride is not None and ro.random() < 0.2:
            f['stride_sep'] = ': '
        if ro.random() < 0.08:
            f['trailing_comma'] = True          # `bits(0..=3, rw,)`: an empty last argument
        if ro.random() < 0.06 and all(x < (1 << 32) for e in entries for x in e[1:]):
            f['zero_pad'] = True                # `bits(010..=015)`: decimal ten to fifteen
        return f

    def type_for_width(self, n, allow_bool=True):
        """a random field type with exactly n bits"""
        rng = self.rng
        opts = ['u', 'custom']
        if n == 1 and allow_bool:
            opts += ['bool', 'bool']
        if n in NATIVE:
            opts += ['i', 'u']
        k = rng.choice(opts)
        if k == 'bool':
            return {'k': 'bool'}
        if k == 'u':
            return {'k': 'u', 'n': n}
        if k == 'i':
            return {'k': 'i', 'n': n}
        return self.custom(n)

    def rand_acc(self):
        return self.rng.choice(['rw'] * 6 + ['r', 'w', ''])

    def entry(self, lo, n):
        if n == 1 and self.rng.random() < 0.7:
            return ('s', lo)
        return ('r', lo, lo + n - 1)

    # -- families -----------------------------------------------------------------------------
    def single_field(self, W, name, n=None, lo=None, ty=None, acc=None):
        rng = self.rng
        if n is None:
            n = rng.choice([1, 1, W, max(1, W - 1), rng.randint(1, W), rng.randint(1, W)] +
                           [w for w in NATIVE if w <= W])
        n = min(n, W)
        if lo is None:
            lo = rng.choice([0, W - n, rng.randint(0, W - n)])
        if ty is None:
            ty = self.type_for_width(n)
        if ty['k'] == 'bool' or n > 1:
            e = ('s', lo) if n == 1 else ('r', lo, lo + n - 1)
        else:
            e = self.entry(lo, n)
        if ty['k'] == 'bool':
            e = ('s', lo)
        return self.field(name, ty, [e], acc=acc if acc is not None else self.rand_acc())

    def fam_single(self, count):
        """F1: structs of single-range fields (overlaps allowed), every template x storage class x boundary"""
        rng = self.rng
        bases = list(BOUNDARY_BASES)
        for k in range(count):
            W = bases[k % len(bases)] if k < 2 * len(bases) else rng.randint(1, 128)
            fields = []
            # systematic boundary members first
            plan = [(1, 0, {'k': 'bool'}), (1, W - 1, {'k': 'bool'}), (W, 0, None), (1, W - 1, {'k': 'u', 'n': 1})]
            for w in NATIVE:
                if w <= W:
                    plan.append((w, rng.choice([0, W - w]), {'k': rng.choice(['u', 'i']), 'n': w}))
            if W > 1:
                plan.append((W - 1, 1, None))
                plan.append((W - 1, 0, None))
            rng.shuffle(plan)
            for (n, lo, ty) in plan[:rng.randint(3, 6)]:
                fields.append(self.single_field(W, 'f%d' % len(fields), n=n, lo=lo, ty=ty, acc='rw'))
            for _ in range(rng.randint(2, 4)):
                fields.append(self.single_field(W, 'f%d' % len(fields)))
            self.add({'kind': 'bitfield', 'name': self.name('S'), 'base': W, 'fields': fields}, 'F1')

    def array_field(self, W, name):
        rng = self.rng
        for _ in range(50):
            n = rng.choice([1, 1, 2, 3, 4, 8, 16, rng.randint(1, max(1, W // 2))])
            if n * 2 > W:
                continue
            stride = rng.choice([None, n, n, n + 1, n + rng.randint(0, 4)])
            s = stride if stride is not None else n
            if s < n:
                continue
            lo = rng.choice([0, rng.randint(0, W - 2 * n)])
            kmax = (W - lo - n) // s + 1
            if kmax < 2:
                continue
            K = rng.choice([2, 3, kmax, kmax, rng.randint(2, kmax)])
            K = min(K, kmax, 40)
            ty = self.type_for_width(n)
            e = ('s', lo) if (n == 1 and (ty['k'] == 'bool' or rng.random() < 0.6)) else ('r', lo, lo + n - 1)
            return self.field(name, ty, [e], acc=self.rand_acc(), count=K, stride=stride)
        return None

    def fam_arrays(self, count):
        rng = self.rng
        for W in (16, 32, 64, 128):
            for k in ('u', 'i'):
                h = W // 2
                self.add({'kind': 'bitfield', 'name': self.name('S'), 'base': W, 'fields': [
                    self.field('half', {'k': k, 'n': h}, [('r', 0, h - 1)], acc='rw', count=2)]}, 'F2', 'accept', ['two-halves', k])
            if W >= 32:
                q = W // 4
                self.add({'kind': 'bitfield', 'name': self.name('S'), 'base': W, 'fields': [
                    self.field('quarter', {'k': 'i', 'n': q}, [('r', 0, q - 1)], acc='rw', count=4),
                    self.field('alias', {'k': 'u', 'n': W}, [('r', 0, W - 1)], acc='rw')]}, 'F2', 'accept', ['four-quarters'])
        for k in range(count):
            W = rng.choice([8, 16, 32, 64, 128, 12, 24, 48, 100, rng.randint(4, 128)])
            fields = []
            for _ in range(rng.randint(2, 4)):
                f = self.array_field(W, 'a%d' % len(fields))
                if f:
                    fields.append(f)
            if fields:
                self.add({'kind': 'bitfield', 'name': self.name('S'), 'base': W, 'fields': fields}, 'F2')

    def rand_disjoint_ranges(self, W, total_bits, nentries):
        """nentries pairwise-disjoint ranges inside [0,W) with the given total width, in random order"""
        rng = self.rng
        nentries = max(1, min(nentries, total_bits))
        # split total_bits into nentries positive parts
        cuts = sorted(rng.sample(range(1, total_bits), nentries - 1)) if nentries > 1 else []
        parts = [b - a for a, b in zip([0] + cuts, cuts + [total_bits])]
        free = W - total_bits
        style = rng.choice(['shuffle', 'reverse', 'rotate', 'sorted', 'tile-middle-shuffled', 'tile-shuffled', 'adjacent-pair-then-more',
                            'one-gap'])
        # distribute gaps
        gaps = [0] * (nentries + 1)
        if style in ('tile-middle-shuffled', 'tile-shuffled'):
            gaps[0] = rng.randint(0, free)          # the entries tile one contiguous span
        elif style == 'adjacent-pair-then-more' and nentries >= 3:
            # entries 0 and 1 touch; the rest is spread
            for _ in range(free):
                gaps[rng.choice([0] + list(range(2, nentries + 1)))] += 1
        elif style == 'one-gap' and nentries >= 2:
            gaps[0] = rng.randint(0, free)
            gaps[rng.randint(1, nentries - 1)] = rng.randint(0, free - gaps[0])
        else:
            for _ in range(free):
                gaps[rng.randrange(nentries + 1)] += 1
        pos = 0
        rs = []
        order = list(range(nentries))
        placed = []
        for i in range(nentries):
            pos += gaps[i]
            placed.append((pos, parts[i]))
            pos += parts[i]
        if style in ('shuffle', 'tile-shuffled'):
            rng.shuffle(placed)
        elif style == 'reverse':
            placed.reverse()
        elif style == 'rotate':
            r = rng.randrange(nentries)
            placed = placed[r:] + placed[:r]
        elif style in ('tile-middle-shuffled', 'one-gap') and nentries >= 3:
            mid = placed[1:-1]
            rng.shuffle(mid)
            if nentries >= 4 and mid == placed[1:-1]:
                mid.reverse()
            placed = [placed[0]] + mid + [placed[-1]]
        elif style == 'adjacent-pair-then-more' and nentries >= 3:
            rest = placed[2:]
            rng.shuffle(rest)
            placed = rng.choice([placed[:2] + rest, rest[:1] + placed[:2] + rest[1:]])
        # widths must follow the (now permuted) order: they already do (each entry carries its own width)
        return placed

    def list_field(self, W, name, array=False):
        rng = self.rng
        for _ in range(50):
            if array:
                span = rng.randint(2, max(2, W // 2))
                n = rng.choice([2, 3, 4, 8, rng.randint(2, span)])
                n = min(n, span)
                rs = self.rand_disjoint_ranges(span, n, rng.randint(2, min(4, n)))
                interleave = rng.random() < 0.3
                if interleave:
                    stride = rng.randint(1, max(1, span - 1))
                else:
                    stride = span + rng.randint(0, 3)
                K = rng.randint(2, 6)
                if (K - 1) * stride + max(lo + m for lo, m in rs) > W:
                    continue
                # per-element write/read needs only per-element disjointness
                ty = self.type_for_width(n, allow_bool=False)
                return self.field(name, ty, [self.entry(lo, m) for lo, m in rs], acc=self.rand_acc(), count=K,
                                  stride=stride, lst=True)
            else:
                n = rng.choice([2, 3, 4, 7, 8, 9, 16, rng.randint(2, W), W])
                n = min(n, W)
                if n < 2:
                    continue
                rs = self.rand_disjoint_ranges(W, n, rng.randint(2, min(8, n)))
                ty = self.type_for_width(n, allow_bool=False)
                return self.field(name, ty, [self.entry(lo, m) for lo, m in rs], acc=self.rand_acc(), lst=True)
        return None

    def fam_lists(self, count):
        rng = self.rng
        for k in range(count):
            W = rng.choice([8, 16, 32, 64, 128, 7, 24, 40, 100, rng.randint(4, 128)])
            fields = []
            for _ in range(rng.randint(2, 4)):
                f = self.list_field(W, 'l%d' % len(fields), array=rng.random() < 0.35)
                if f:
                    fields.append(f)
            if fields:
                self.add({'kind': 'bitfield', 'name': self.name('S'), 'base': W, 'fields': fields}, 'F3')

    # -- F4: whole structs (packing, default, debug, docs, builder) -------------------------------
    def packed_fields(self, W, want_rw_complete, allow_arrays=True, readable_scalar=False):
        """non-overlapping fields covering [0, W) (complete) or leaving gaps"""
        rng = self.rng
        fields = []
        pos = 0
        while pos < W:
            rest = W - pos
            n = min(rest, rng.choice([1, 1, 2, 3, 4, 5, 7, 8, 8, 9, 12, 16, 24, 32, 33, 64, rest]))
            kind = rng.random()
            name = 'f%d' % len(fields)
            if not want_rw_complete and kind < 0.15:
                pos += n                      # a gap no field covers
                continue
            acc = 'rw' if want_rw_complete else rng.choice(['rw', 'rw', 'rw', 'r', 'w', 'rw'])
            if readable_scalar:
                acc = rng.choice(['rw', 'rw', 'r'])
            if allow_arrays and not readable_scalar and kind > 0.8 and rest >= 4:
                # an array with stride >= width, disjoint elements
                m = rng.choice([1, 2, 3, 4, 8])
                s = m + rng.choice([0, 0, 1])
                K = max(2, min(rest // s, rng.choice([2, 3, 4])))
                if (K - 1) * s + m <= rest:
                    ty = self.type_for_width(m)
                    e = ('s', pos) if m == 1 else ('r', pos, pos + m - 1)
                    fields.append(self.field(name, ty, [e], acc=acc, count=K, stride=None if s == m and rng.random() < 0.5 else s))
                    pos += (K - 1) * s + m if want_rw_complete and s == m else K * s if (K * s) <= rest else (K - 1) * s + m
                    continue
            if allow_arrays and kind > 0.65 and n >= 2 and rest >= n + 1:
                # a non-contiguous field: two or three pieces inside the next n+gap bits
                span = min(rest, n + rng.choice([0, 1, 2]))
                rs = self.rand_disjoint_ranges(span, n, rng.randint(2, min(3, n)))
                ty = self.type_for_width(n, allow_bool=False)
                fields.append(self.field(name, ty, [self.entry(pos + lo, m) for lo, m in rs], acc=acc, lst=True))
                if want_rw_complete and span > n:
                    # fill the holes the list leaves with single-bit fields
                    used = set()
                    for lo, m in rs:
                        used.update(range(pos + lo, pos + lo + m))
                    for b in range(pos, pos + span):
                        if b not in used:
                            fields.append(self.field('f%d' % len(fields), {'k': 'bool'}, [('s', b)], acc='rw'))
                pos += span
                continue
            ty = self.type_for_width(n)
            e = ('s', pos) if (n == 1 and (ty['k'] == 'bool' or rng.random() < 0.5)) else ('r', pos, pos + n - 1)
            fields.append(self.field(name, ty, [e], acc=acc))
            pos += n
        return fields

    def fam_structs(self, count):
        rng = self.rng
        for k in range(count):
            W = rng.choice([8, 16, 32, 64, 128, 7, 12, 24, 33, 48, 65, 100, 127, rng.randint(2, 128)])
            mode = ['complete', 'default', 'default-const', 'incomplete', 'debug', 'debug-default', 'docs', 'legacy'][k % 8]
            debug = mode.startswith('debug')
            complete = mode in ('complete', 'docs') or (mode == 'legacy' and rng.random() < 0.5)
            fields = self.packed_fields(W, complete, allow_arrays=not debug, readable_scalar=debug)
            if not fields:
                continue
            d = {'kind': 'bitfield', 'name': self.name('S'), 'base': W, 'fields': fields}
            if mode in ('default', 'debug-default', 'docs') or (mode == 'legacy'):
                d['default'] = {'form': 'lit', 'value': rng.getrandbits(W), 'text': None}
                style = rng.choice(['dec', 'hex', 'hex_'])
                v = d['default']['value']
                d['default']['text'] = str(v) if style == 'dec' else hex(v)
            if mode == 'default-const':
                d['default'] = {'form': 'const', 'name': 'DEF_%s' % d['name'], 'value': rng.getrandbits(W)}
            if mode == 'legacy':
                d['legacy'] = True
            if debug:
                d['debug'] = True
            if mode == 'docs' or rng.random() < 0.2:
                d['doc'] = True
                for f in fields:
                    f['doc'] = True
            elif rng.random() < 0.3:
                for f in fields:
                    f['doc'] = rng.random() < 0.5
            self.add(d, 'F4', 'accept', [mode])
        # builder decision boundaries (C14): each variant with and without a default
        def two(W, fields, tag):
            for dflt in (False, True):
                d = {'kind': 'bitfield', 'name': self.name('S'), 'base': W, 'fields': [dict(f) for f in fields]}
                if dflt:
                    d['default'] = {'form': 'lit', 'value': rng.getrandbits(W)}
                self.add(d, 'F4b', 'accept', [tag, 'default' if dflt else 'no-default'])
        u = lambda n: {'k': 'u', 'n': n}
        F = self.field
        for W in ([8, 24, 64] if self.tier == 'quick' else [8, 12, 24, 32, 64, 100, 128]):
            h = W // 2
            two(W, [F('a', u(h), [('r', 0, h - 1)]), F('b', u(W - h), [('r', h, W - 1)])], 'complete')
            two(W, [F('a', u(h), [('r', 0, h - 1)]), F('b', u(W - h - 1), [('r', h, W - 2)])], 'top-bit-uncovered')
            two(W, [F('a', u(h), [('r', 0, h - 1)]), F('b', u(W - h), [('r', h, W - 1)], acc='r')], 'read-only-part')
            two(W, [F('a', u(h + 1), [('r', 0, h)]), F('b', u(W - h), [('r', h, W - 1)])], 'fields-overlap-one-bit')
            two(W, [F('a', u(h), [('r', 0, h - 1)], acc='r'), F('b', u(h), [('r', 0, h - 1)], acc='w'),
                    F('c', u(W - h), [('r', h, W - 1)])], 'overlap-but-one-writer')
            two(W, [F('a', u(2), [('s', 0), ('s', 2)], count=3, stride=1, lst=True), F('b', u(W - 5), [('r', 5, W - 1)])],
                'array-elements-overlap')
            two(W, [F('a', u(2), [('s', 0), ('s', 4)], count=3, stride=2, lst=True)], 'array-elements-0-and-2-overlap')
            two(W, [F('a', u(2), [('s', 0), ('s', 3)], count=3, stride=1, lst=True), F('b', u(W - 6), [('r', 6, W - 1)]),
                    F('c', {'k': 'bool'}, [('s', 5)])], 'array-interleaved-disjoint')
            two(W, [F('a', u(4), [('r', 0, 2), ('r', 2, 2)], lst=True), F('b', u(W - 3), [('r', 3, W - 1)])], 'list-names-bit-twice')
            two(W, [F('a', u(4), [('r', 0, 2), ('r', 2, 2)], count=2, stride=4, lst=True), F('b', u(W - 8), [('r', 8, W - 1)])] if W > 8 else
                   [F('a', u(4), [('r', 0, 2), ('r', 2, 2)], count=2, stride=4, lst=True)], 'array-element-names-bit-twice')
            two(W, [F('a', u(3), [('s', 1), ('s', 0), ('s', 1)], count=2, stride=2, lst=True), F('b', u(W - 4), [('r', 4, W - 1)])],
                'array-element-names-bit-twice-nonadjacent')
            if W >= 16:
                # a range-list array whose stride equals the width of one element (the elements interleave; they are not a solid block)
                two(W, [F('a', u(4), [('r', 0, 1), ('r', 8, 9)], count=2, stride=4, lst=True), F('b', u(2), [('r', 2, 3)])],
                    'list-array-stride-equals-width-disjoint')
                two(W, [F('a', u(4), [('r', 0, 1), ('r', 8, 9)], count=2, stride=4, lst=True), F('b', u(2), [('r', 8, 9)])],
                    'list-array-stride-equals-width-aliased')
            two(W, [F('a', {'k': 'bool'}, [('s', 0)], count=h), F('b', u(W - h), [('r', h, W - 1)])], 'bool-array')
            two(W, [F('a', {'k': 'bool'}, [('s', 0)], count=h), F('b', u(W - h + 1), [('r', h - 1, W - 1)])], 'bool-array-overlaps-field')
            two(W, [F('a', u(h), [('r', 0, h - 1)]), F('b', u(W - h), [('r', h, W - 1)], acc='')], 'field-without-access')
            if W >= 16:
                two(W, [F('a', {'k': 'bool'}, [('s', 3)], count=3, stride=4), F('b', u(4), [('r', W - 4, W - 1)])], 'bool-array-stride-4')
                two(W, [F('a', u(3), [('r', 0, 2)], count=3, stride=5), F('b', {'k': 'bool'}, [('s', W - 1)])], 'array-stride-gt-width')
            if W >= 64:
                two(W, [F('a', {'k': 'bool'}, [('s', 0)], count=40), F('b', u(W - 40), [('r', 40, W - 1)])], 'bool-array-40-elements')
                two(W, [F('a', u(1), [('s', 0)], count=33), F('b', u(W - 33), [('r', 33, W - 1)])], 'u1-array-33-elements')
        # default values at the boundaries of the base type, every form and syntax (C06)
        k = 0
        for W in ([8, 64, 128, 7, 24, 65, 100] if self.tier == 'quick' else [8, 16, 32, 64, 128, 1, 7, 9, 24, 33, 63, 65, 100, 127]):
            for value in sorted({0, 1, (1 << W) - 1, max(0, (1 << W) - 2), 1 << (W - 1), rng.getrandbits(W)}):
                k += 1
                form = ['lit', 'lit-hex', 'const', 'lit-bin', 'lit-underscore', 'const', 'lit-oct', 'lit-suffix', 'lit-hex-upper'][k % 9]
                fields = [F('lo', {'k': 'bool'}, [('s', 0)])] + ([F('hi', {'k': 'bool'}, [('s', W - 1)], acc='r')] if W > 1 else [])
                d = {'kind': 'bitfield', 'name': self.name('S'), 'base': W, 'fields': fields}
                if form == 'const':
                    d['default'] = {'form': 'const', 'name': 'DEF_%s' % d['name'], 'value': value}
                else:
                    dec = str(value)
                    text = {'lit': dec, 'lit-hex': hex(value), 'lit-bin': bin(value), 'lit-oct': oct(value),
                            'lit-hex-upper': '0x' + ('%X' % value),
                            'lit-underscore': '_'.join([dec[max(0, i - 3):i] for i in range(len(dec), 0, -3)][::-1]),
                            'lit-suffix': '%d_u%d' % (value, storage(W))}[form]
                    d['default'] = {'form': 'lit', 'value': value, 'text': text}
                if k % 4 == 0:
                    d['legacy'] = True
                self.add(d, 'F4c', 'accept', ['default-boundary', form, 'W=%d' % W])
        # names that coincide with names the macro uses internally (hygiene): default constants, field names
        cnames = ['MASK', 'CLEAR_MASK', 'ZERO', 'RAW', 'DEFAULT', 'DEFAULT_RAW_VALUE', 'VALUE', 'ONE', 'BITS', 'MAX']
        for k, cname in enumerate(cnames + cnames):
            # every name once over an arbitrary-int base and once over a native base
            W = [24, 7, 100, 12, 48, 65, 9, 33, 127, 17][k] if k < len(cnames) else [8, 16, 32, 64, 128][k % 5]
            v = rng.getrandbits(W) & ~1
            d = {'kind': 'bitfield', 'name': self.name('S'), 'base': W, 'module': True,
                 'default': {'form': 'const', 'name': cname, 'value': v},
                 'fields': [F('lo', {'k': 'bool'}, [('s', 0)]), F('rest', u(W - 1), [('r', 1, W - 1)] if W > 2 else [('s', 1)], acc='r')]}
            if cname in ('DEFAULT', 'DEFAULT_RAW_VALUE', 'ZERO'):
                # these are associated constants of the generated type: the user's module-level constant is a different item
                pass
            self.add(d, 'F8', 'accept', ['hygiene', 'const-named-' + cname])
        names = ['f', 'value', 'index', 'field_value', 'temp', 'mask', 'result', 'effective_index', 'extracted_bits', 'i', 's', 'v', 'x', 'raw',
                 'r#type', 'r#match', 'bits', 'one']
        fields = [F(nm, {'k': 'bool'} if k % 3 == 0 else u(2), [('s', 3 * k)] if k % 3 == 0 else [('r', 3 * k, 3 * k + 1)],
                    acc=['rw', 'r', 'rw'][k % 3]) for k, nm in enumerate(names)]
        self.add({'kind': 'bitfield', 'name': self.name('S'), 'base': 64, 'debug': True, 'fields': fields}, 'F8', 'accept',
                 ['hygiene', 'field-names'])
        # field names that look like accessor names: the getter of `set_point` is `set_point()`, its setters `with_set_point` / `set_set_point`
        names2 = ['_reserved1', '_scratch', '_pad', '__x', 'set_point', 'with_level', 'set_', 'with_', 'get_x', 'is_set', 'new_value', 'build_id', 'partial', 'default_value', 'zero',
                  'set_set', 'with_with', 'raw', 'value_raw', 'unset', 'setup', 'within']
        for accs in (['rw', 'r', 'rw'], ['r', 'rw', 'w']):
            fields = [F(nm, {'k': 'bool'} if k % 3 == 0 else u(2), [('s', 3 * k)] if k % 3 == 0 else [('r', 3 * k, 3 * k + 1)],
                        acc=accs[k % 3]) for k, nm in enumerate(names2)]
            self.add({'kind': 'bitfield', 'name': self.name('S'), 'base': 64, 'default': {'form': 'lit', 'value': 0}, 'fields': fields,
                      'debug': all('r' in a for a in accs)}, 'F8', 'accept', ['hygiene', 'accessor-like-field-names'])
        arr = [F(nm, u(2), [('r', 8 * k, 8 * k + 1)], count=2, stride=4) for k, nm in enumerate(['f', 'value', 'index', 'temp', 'result', 'mask'])]
        self.add({'kind': 'bitfield', 'name': self.name('S'), 'base': 64, 'default': {'form': 'lit', 'value': 5}, 'fields': arr}, 'F8', 'accept',
                 ['hygiene', 'array-field-names'])
        # every combination of the options of bitfield(..): default as literal / named constant, `=` / legacy `:`, with debug
        # before or after it
        k = 0
        for W in (16, 24, 128):
            for form in ('lit', 'const'):
                for rev in (False, True):
                    for legacy in (False, True):
                        k += 1
                        d = {'kind': 'bitfield', 'name': self.name('S'), 'base': W, 'debug': True, 'args_rev': rev, 'legacy': legacy,
                             'fields': [F('lo', u(4), [('r', 0, 3)]), F('flag', {'k': 'bool'}, [('s', W - 1)], acc='r')]}
                        v = (0x5A5A5A5A5A5A5A5A5A5A5A5A5A5A5A5A >> (128 - W)) | (1 << (W - 1))
                        d['default'] = {'form': 'lit', 'value': v, 'text': hex(v)} if form == 'lit' else \
                            {'form': 'const', 'name': 'RESET_%d' % k, 'value': v}
                        self.add(d, 'F8', 'accept', ['option-combination', form, 'debug-first' if rev else 'default-first',
                                                     'legacy' if legacy else 'eq'])
        # the declaration comes out of a macro_rules! macro and its default arrives as an `expr` / `literal` fragment
        for frag, form in (('expr', 'lit'), ('literal', 'lit'), ('expr', 'const'), ('ident', 'const')):
            for legacy in (False, True):
                d = {'kind': 'bitfield', 'name': self.name('S'), 'base': 24 if legacy else 32, 'legacy': legacy, 'macro_default': frag,
                     'fields': [F('lo', u(4), [('r', 0, 3)]), F('flag', {'k': 'bool'}, [('s', 7)], acc='r')]}
                d['default'] = {'form': 'lit', 'value': 0xC0FFE, 'text': '0xC_0FFE'} if form == 'lit' else \
                    {'form': 'const', 'name': 'VIA_MACRO_%s' % d['name'], 'value': 0xBEEF1}
                self.add(d, 'F8', 'accept', ['default-through-macro_rules', frag, form])
        # nothing writable, with a default: builder().build() is still offered (and is the default); also a field-less struct
        for W in (8, 24):
            self.add({'kind': 'bitfield', 'name': self.name('S'), 'base': W, 'default': {'form': 'lit', 'value': 0xA5},
                      'fields': [F('code', u(4), [('r', 0, 3)], acc='r'), F('busy', {'k': 'bool'}, [('s', 4)], acc='r'),
                                 F('level', u(3), [('r', 5, 7)], acc='r')]}, 'F8', 'accept', ['all-read-only-with-default'])
            self.add({'kind': 'bitfield', 'name': self.name('S'), 'base': W, 'default': {'form': 'lit', 'value': 0x5A}, 'fields': []},
                     'F8', 'accept', ['no-fields-with-default'])
            self.add({'kind': 'bitfield', 'name': self.name('S'), 'base': W, 'fields': [F('code', u(4), [('r', 0, 3)], acc='')]},
                     'F8', 'accept', ['no-accessible-field'])
        # range-list pieces wider than 64 bits
        self.add({'kind': 'bitfield', 'name': self.name('S'), 'base': 128,
                  'fields': [F('rotated', u(128), [('r', 32, 127), ('r', 0, 31)], lst=True),
                             F('payload', u(72), [('r', 60, 127), ('r', 0, 3)], lst=True)]}, 'F8', 'accept', ['list-piece-wider-than-64'])
        # two readable fields over exactly the same bits (a typed view and a raw view), under debug: both are printed
        self.add({'kind': 'bitfield', 'name': self.name('S'), 'base': 16, 'debug': True,
                  'fields': [F('operand', u(8), [('r', 8, 15)]), F('opcode', self.custom_enum(8), [('r', 0, 7)]),
                             F('opcode_raw', u(8), [('r', 0, 7)], acc='r'), F('version', u(4), [('r', 12, 15)], acc='r')]},
                 'F8', 'accept', ['same-bits-twice-under-debug'])
        # `#[doc(hidden)]` and `#[doc = ..]` are doc attributes like any other: passed through, and the field still shows in Debug
        self.add({'kind': 'bitfield', 'name': self.name('S'), 'base': 16, 'doc': True, 'debug': True,
                  'fields': [dict(F('a', u(8), [('r', 0, 7)]), doc=True, doc_text='#[doc(hidden)]'),
                             dict(F('b', {'k': 'bool'}, [('s', 8)]), doc=True, doc_text='#[doc = "the hidden flag"]'),
                             dict(F('c', u(7), [('r', 9, 15)]), doc=True, doc_after=True, doc_text='#[doc(hidden)]')]},
                 'F8', 'accept', ['doc-hidden'])
        # documentation written after the bit attribute
        dd = {'kind': 'bitfield', 'name': self.name('S'), 'base': 16, 'doc': True,
              'fields': [dict(F('a', u(8), [('r', 0, 7)]), doc=True, doc_after=True),
                         dict(F('b', {'k': 'bool'}, [('s', 8)], count=4), doc=True, doc_after=True),
                         dict(F('c', u(4), [('s', 12), ('r', 13, 15)], lst=True), doc=True)]}
        self.add(dd, 'F8', 'accept', ['doc-after-attribute'])
        # wide fields under debug; custom-typed fields at native widths; u128 halves swapped; byte arrays over lists
        self.add({'kind': 'bitfield', 'name': self.name('S'), 'base': 128, 'debug': True,
                  'fields': [F('wide', u(100), [('r', 0, 99)]), F('w65', u(65), [('r', 63, 127)], acc='r'), F('w127', u(127), [('r', 1, 127)], acc='r'),
                             F('s64', {'k': 'i', 'n': 64}, [('r', 64, 127)], acc='r')]}, 'F8', 'accept', ['debug-wide-fields'])
        for n in (8, 16, 32, 64):
            for W in sorted({n, 128 if n == 64 else 2 * n}):
                lo = W - n
                e = [('r', lo, W - 1)]
                self.add({'kind': 'bitfield', 'name': self.name('S'), 'base': W,
                          'fields': [F('en', self.custom_enum(n), e), F('nested', self.custom_nested(n), e, acc='rw'),
                                     F('plain', u(n), e, acc='r')]}, 'F8', 'accept', ['custom-native-width', 'n=%d' % n, 'W=%d' % W])
        self.add({'kind': 'bitfield', 'name': self.name('S'), 'base': 128,
                  'fields': [F('swapped', u(128), [('r', 64, 127), ('r', 0, 63)], lst=True)]}, 'F8', 'accept', ['u128-halves-swapped'])
        self.add({'kind': 'bitfield', 'name': self.name('S'), 'base': 100,
                  'fields': [F('split', u(72), [('r', 0, 7), ('r', 36, 99)], lst=True), F('mid', u(28), [('r', 8, 35)])]}, 'F8', 'accept',
                 ['segment-64-bits-wide'])
        two(16, [F('a', u(8), [('r', 0, 3), ('r', 8, 11)], count=2, stride=4, lst=True)], 'u8-array-over-list-covering-all-bits')
        two(32, [F('a', u(8), [('r', 0, 3), ('r', 16, 19)], count=4, stride=4, lst=True)], 'u8-array-over-list-covering-all-bits-32')
        two(8, [F('cmd', u(4), [('r', 0, 3)], acc='w'), F('status', u(4), [('r', 0, 3)], acc='r'), F('hi', u(4), [('r', 4, 7)])],
            'read-only-overlaps-earlier-writable')
        two(8, [F('cmd', u(4), [('r', 0, 3)], acc='w'), F('alias', u(2), [('r', 1, 2)], acc=''), F('hi', u(4), [('r', 4, 7)])],
            'no-access-overlaps-earlier-writable')
        # defaults that are not values of the base type (must be rejected)
        for W in (7, 24, 100, 8, 32):
            for v in ((1 << W), (1 << W) + 5):
                for form in ('lit', 'const'):
                    if W in (8, 32) and form == 'const':
                        # a named constant of type uW cannot hold the value at all
                        continue
                    d = {'kind': 'bitfield', 'name': self.name('S'), 'base': W, 'fields': [F('lo', {'k': 'bool'}, [('s', 0)])]}
                    d['default'] = {'form': form, 'value': v} if form == 'lit' else {'form': 'const', 'name': 'DEF_%s' % d['name'], 'value': v}
                    self.add(d, 'F4c', 'reject', ['default-out-of-range', form, 'W=%d' % W])
        # debug on things that must not compile with it (C19)
        self.add({'kind': 'bitfield', 'name': self.name('S'), 'base': 8, 'debug': True,
                  'fields': [F('a', u(4), [('r', 0, 3)], acc='w'), F('b', u(4), [('r', 4, 7)])]}, 'F4d', 'reject', ['debug-write-only'])
        self.add({'kind': 'bitfield', 'name': self.name('S'), 'base': 8, 'debug': True,
                  'fields': [F('a', u(2), [('r', 0, 1)], count=2), F('b', u(4), [('r', 4, 7)])]}, 'F4d', 'reject', ['debug-array'])
        self.add({'kind': 'bitfield', 'name': self.name('S'), 'base': 8, 'debug': True,
                  'fields': [F('a', u(4), [('r', 0, 3)], acc=''), F('b', u(4), [('r', 4, 7)])]}, 'F4d', 'reject', ['debug-no-access'])
        self.add({'kind': 'bitfield', 'name': self.name('S'), 'base': 8, 'debug': True,
                  'fields': [F('r#type', u(4), [('r', 0, 3)], acc='rw'), F('b', {'k': 'i', 'n': 8}, [('r', 0, 7)], acc='r')]}, 'F4d', 'accept',
                 ['debug-raw-ident'])

    # -- F6: enums ------------------------------------------------------------------------------
    def fam_enums(self):
        rng = self.rng
        q = self.tier == 'quick'
        maxexh = 6 if q else 8
        for n in range(1, maxexh + 1):
            d = self.enum_decl(n, True, family='F6')
            if rng.random() < 0.3:
                d['legacy'] = True
        for n in range(1, 65):      # every storage width
            self.enum_decl(n, False, nvariants=rng.choice([1, 2, 4]), family='F6')
            if n <= 6 and n >= 2:
                self.enum_decl(n, False, nvariants=(1 << n) - 1, family='F6')
        # conditional enums (cfg(all()) is live, cfg(any()) is stripped)
        for n in ([1, 2, 3] if q else [1, 2, 3, 4, 5, 8, 16]):
            k = min(1 << n, 4)
            discrs = rng.sample(range(1 << n), k)
            vs = []
            for i, x in enumerate(discrs):
                vs.append({'name': 'V%d' % i, 'discr': x, 'cfg': rng.choice([None, 'all', 'any'])})
            # more variants than values are legal only here; the extra ones are stripped
            if rng.random() < 0.7:
                # more variants than values only for small n (the list has 2^n + 1 entries)
                for j in range((1 << n) - k + 1 if n <= 5 else 3):
                    vs.append({'name': 'X%d' % j, 'discr': discrs[0], 'cfg': 'any'})
            self.add({'kind': 'enum', 'name': self.name('E'), 'bits': n, 'exh': 'conditional', 'variants': vs}, 'F6')
        # conditional enums around the 2^n boundary: exactly 2^n declared (one stripped / all live), 2^n - 1, 2^n + 1
        for n in (1, 2, 3):
            full = list(range(1 << n))
            for tag, vs in [
                ('2^n-one-stripped', [{'name': 'V%d' % i, 'discr': x, 'cfg': ('any' if i == len(full) - 1 else None)} for i, x in enumerate(full)]),
                ('2^n-all-live', [{'name': 'V%d' % i, 'discr': x, 'cfg': ('all' if i == 0 else None)} for i, x in enumerate(full)]),
                ('2^n-first-stripped', [{'name': 'V%d' % i, 'discr': x, 'cfg': ('any' if i == 0 else None)} for i, x in enumerate(full)]),
                ('2^n-1', [{'name': 'V%d' % i, 'discr': x, 'cfg': ('all' if i == 0 else None)} for i, x in enumerate(full[:-1])]),
                ('2^n+1', [{'name': 'V%d' % i, 'discr': x} for i, x in enumerate(full)] + [{'name': 'Alt', 'discr': 0, 'cfg': 'any'}]),
                ('alternatives-first-stripped', [{'name': 'Off', 'discr': 1, 'cfg': 'any'}, {'name': 'On', 'discr': 1, 'cfg': 'all'},
                                                 {'name': 'Zero', 'discr': 0}]),
                ('alternatives-first-live', [{'name': 'On', 'discr': 1, 'cfg': 'all'}, {'name': 'Off', 'discr': 1, 'cfg': 'any'},
                                             {'name': 'Zero', 'discr': 0}])]:
                if vs:
                    self.add({'kind': 'enum', 'name': self.name('E'), 'bits': n, 'exh': 'conditional', 'variants': vs}, 'F6', 'accept', ['conditional', tag])
        # literal spellings
        self.add({'kind': 'enum', 'name': self.name('E'), 'bits': 8, 'exh': None,
                  'variants': [{'name': 'A', 'discr': 31, 'discr_text': '0x1F'}, {'name': 'B', 'discr': 5, 'discr_text': '0b101'},
                               {'name': 'C', 'discr': 200, 'discr_text': '2_00'}]}, 'F6')

    # -- F7: invalid declarations (exactly one rule violated) ------------------------------------
    def invalid_enums(self):
        rng = self.rng
        q = self.tier == 'quick'

        def mk(n, exh, discrs, **kw):
            d = {'kind': 'enum', 'name': self.name('E'), 'bits': n, 'exh': exh,
                 'variants': [{'name': 'V%d' % i, 'discr': x} for i, x in enumerate(discrs)]}
            d.update(kw)
            return d
        for n in ([1, 2, 3] if q else [1, 2, 3, 4, 5, 6]):
            full = list(range(1 << n))
            # claims exhaustive but one value is missing
            self.add(mk(n, 'true', full[:-1]), 'F7e', 'reject', ['exh-true-missing-one'])
            # all values present but not declared exhaustive
            self.add(mk(n, 'false', full), 'F7e', 'reject', ['exh-false-but-full'])
            self.add(mk(n, None, full), 'F7e', 'reject', ['exh-omitted-but-full'])
            # too large discriminant (2^n), count below 2^n
            if n >= 2:
                self.add(mk(n, None, [0, 1 << n]), 'F7e', 'reject', ['discr-2^n'])
                self.add(mk(n, 'false', [(1 << n) - 1, (1 << n) + 1]), 'F7e', 'reject', ['discr-2^n+1'])
            # full count but the largest discriminant is out of range
            self.add(mk(n, 'true', full[:-1] + [1 << n]), 'F7e', 'reject', ['exh-true-discr-2^n'])
            # accepted neighbours of the above
            self.add(mk(n, 'true', full), 'F7e', 'accept', ['exh-true-full'])
            if n >= 2:
                self.add(mk(n, None, [0, (1 << n) - 1]), 'F7e', 'accept', ['discr-max'])
            # more variants than values without `conditional`
            d = mk(n, None, full)
            d['variants'].append({'name': 'Extra', 'discr': 0, 'cfg': 'any'})
            self.add(d, 'F7e', 'reject', ['too-many-not-conditional'])
            # cfg-gated variant without `conditional`
            d = mk(n, rng.choice([None, 'false']), [0])
            d['variants'][0]['cfg'] = 'all'
            self.add(d, 'F7e', 'reject', ['cfg-without-conditional'])
            d = mk(n, 'true', full)
            d['variants'][-1]['cfg'] = 'all'
            self.add(d, 'F7e', 'reject', ['cfg-with-exhaustive-true'])
            # the same two with a doc comment in front of the cfg attribute (the cfg is then not the variant's first attribute)
            d = mk(n, rng.choice([None, 'false']), [0])
            d['variants'][0].update(cfg='all', doc_first=True)
            self.add(d, 'F7e', 'reject', ['cfg-after-doc-without-conditional'])
            d = mk(n, 'true', full)
            d['variants'][-1].update(cfg='all', doc_first=True)
            self.add(d, 'F7e', 'reject', ['cfg-after-doc-with-exhaustive-true'])
        # missing / non-literal discriminants
        d = mk(3, None, [0, 1])
        d['variants'].append({'name': 'NoDiscr', 'discr': None})
        self.add(d, 'F7e', 'reject', ['missing-discriminant'])
        d = mk(3, None, [0, 1])
        d['variants'].append({'name': 'Expr', 'discr': None, 'discr_text': '1 + 1'})
        self.add(d, 'F7e', 'reject', ['non-literal-discriminant'])
        # a discriminant that arrives through a macro_rules! expr fragment is not a literal token for the macro: rejected,
        # whether the argument is a literal, an out-of-range literal or a named constant
        for arg in ('1', '9', 'TWO_%d'):
            d = mk(1, 'true', [0])
            d['repr'] = 'u8'
            d['variants'].append({'name': 'ViaMacro', 'discr': None, 'discr_text': '$v'})
            d['macro_arg'] = arg % len(self.decls) if '%' in arg else arg
            if '%' in arg:
                d['pre'] = ['pub const %s: u8 = 2;' % d['macro_arg']]
            self.add(d, 'F7e', 'reject', ['discriminant-through-macro_rules', arg])
        # an explicit #[repr(uX)] does not widen the range of discriminants: they must still be below 2^N
        for n, rp, hi, ok in ((4, 'u8', 15, True), (4, 'u8', 16, False), (1, 'u8', 2, False), (9, 'u16', 511, True), (9, 'u16', 512, False),
                              (7, 'u8', 128, False), (12, 'u16', 4096, False), (12, 'u16', 4095, True)):
            d = mk(n, None, [0, hi])
            d['repr'] = rp
            self.add(d, 'F7e', 'accept' if ok else 'reject', ['explicit-repr', 'u%d' % n, rp, 'max=%d' % hi])
        d = mk(3, None, [0, 1])
        d['variants'].append({'name': 'Neg', 'discr': None, 'discr_text': '-1'})
        self.add(d, 'F7e', 'reject', ['negative-discriminant'])
        # storage sizes outside 1..=64
        for n in (0, 65, 100):
            self.add(mk(n, None, [0]), 'F7e', 'reject', ['size-%d' % n])
        # storage class boundaries, accepted
        for n in (8, 9, 16, 17, 32, 33, 63, 64):
            self.add(mk(n, None, [0, (1 << n) - 1], **({'repr': 'u64'} if n == 64 else {})), 'F7e', 'accept', ['max-discr-at-boundary'])
            self.add(mk(n, None, [0, 1 << n] if n < 64 else [0, 1], **({'repr': 'u64'} if n >= 63 else {})), 'F7e',
                     'reject' if n < 64 else 'accept', ['discr-2^n-at-boundary'])

    def invalid_bitfields(self, count):
        rng = self.rng

        def one(W, f, expect, tag, **kw):
            d = {'kind': 'bitfield', 'name': self.name('S'), 'base': W, 'fields': [f]}
            d.update(kw)
            self.add(d, 'F7', expect, [tag])

        def fld(ty, entries, **kw):
            # the access specifier has no bearing on validity: vary it (r, w, rw, none)
            return self.field('x', ty, entries, acc=kw.pop('acc', self.rng_order.choice(['rw', 'rw', 'r', 'w', ''])), **kw)
        bases = [8, 16, 32, 64, 128, 9, 12, 24, 33, 63, 100]
        for k in range(count):
            W = bases[k % len(bases)]
            S = storage(W)
            n = rng.randint(1, min(W, 20))
            lo = rng.randint(0, W - n)
            u = {'k': 'u', 'n': n}
            # type one bit too wide / too narrow
            one(W, fld({'k': 'u', 'n': n + 1}, [('r', lo, lo + n - 1)] if n > 1 else [('s', lo)]), 'reject', 'type+1')
            if n > 1:
                one(W, fld({'k': 'u', 'n': n - 1}, [('r', lo, lo + n - 1)]), 'reject', 'type-1')
            # out of bounds: hi = W, W+1, S-1, S, S+8 ; and the accepted neighbour hi = W-1
            for hi in sorted({W, W + 1, S - 1, S, S + 8}):
                if hi >= W and hi - n + 1 >= 0:
                    one(W, fld(u, [('r', hi - n + 1, hi)] if n > 1 else [('s', hi)]), 'reject', 'hi=%s' % ('W' if hi == W else 'W+1' if hi == W + 1 else 'S-1' if hi == S - 1 else 'S' if hi == S else 'S+8'))
            one(W, fld(u, [('r', W - n, W - 1)] if n > 1 else [('s', W - 1)]), 'accept', 'hi=W-1')
            # strides so large that (count - 1) * stride overflows the macro's usize arithmetic (defect D6), or do not parse
            if k < 6:
                for st, tag in ((1 << 63, 'stride=2^63'), ((1 << 64) - 1, 'stride=2^64-1'), (1 << 32, 'stride=2^32'),
                                ((1 << 63) + 1, 'stride=2^63+1'), (1 << 64, 'stride=2^64')):
                    one(W, fld({'k': 'u', 'n': 1}, [('s', 0)], count=3, stride=st), 'reject', tag)
                one(W, fld({'k': 'u', 'n': 1}, [('s', 0)], count=5, stride=1 << 62), 'reject', 'count=5,stride=2^62')
            # bit positions so large that lower + 1 / upper + 1 overflow the macro's usize arithmetic (defect D7)
            if k < 4:
                M = (1 << 64) - 1
                one(W, fld({'k': 'bool'}, [('s', M)]), 'reject', 'bit=2^64-1')
                one(W, fld({'k': 'u', 'n': 1}, [('r', M, M)]), 'reject', 'bits=2^64-1..=2^64-1')
                one(W, fld({'k': 'u', 'n': 8}, [('r', 0, M)]), 'reject', 'bits=0..=2^64-1')
                one(W, fld({'k': 'bool'}, [('s', 65536)]), 'reject', 'bit=65536')
                one(W, fld({'k': 'bool'}, [('s', 65535)]), 'reject', 'bit=65535')
                one(W, fld({'k': 'u', 'n': 2}, [('s', 0), ('s', M)], lst=True), 'reject', 'list-with-2^64-1')
            # arrays of one element are not arrays; with an element as wide as the base there is no room for a mask either
            if k < 11:
                one(W, fld({'k': 'u', 'n': W}, [('r', 0, W - 1)] if W > 1 else [('s', 0)], count=1, acc='rw'), 'reject', 'one-element-array-full-width')
                one(W, fld({'k': 'u', 'n': W}, [('r', 0, W - 1)] if W > 1 else [('s', 0)], count=1, stride=W, acc='rw'), 'reject',
                    'one-element-array-full-width-stride')
            # bool out of bounds
            one(W, fld({'k': 'bool'}, [('s', W)]), 'reject', 'bool-bit=W')
            if S > W:
                one(W, fld({'k': 'bool'}, [('s', S - 1)]), 'reject', 'bool-bit=S-1')
            # reversed range
            if n > 1:
                one(W, fld(u, [('r', lo + n - 1, lo)]), 'reject', 'reversed')
                if W >= 2 * n + 2 and n >= 2:
                    # reversed entry whose arithmetic still adds up: [a..=a+n, hi..=lo] (later position) / first position
                    a = 0
                    e_good = ('r', a, a + n)            # n+1 bits
                    e_rev = ('r', a + n + 3, a + n + 2)  # "-0"... lower > upper by one => contributes 0 via usize arithmetic
                    if a + n + 3 < W:
                        one(W, fld({'k': 'u', 'n': n + 1}, [e_good, e_rev], lst=True), 'reject', 'reversed-later')
                        one(W, fld({'k': 'u', 'n': n + 1}, [e_rev, e_good], lst=True), 'reject', 'reversed-first')
            # bool over two bits
            if W >= 2:
                b = rng.randint(0, W - 2)
                one(W, fld({'k': 'bool'}, [('r', b, b + 1)]), 'reject', 'bool-2-bits')
                one(W, fld({'k': 'bool'}, [('r', b, b)]), 'accept', 'bool-range-1-bit')
            # arrays
            if W >= 4:
                m = rng.randint(1, max(1, W // 4))
                K = W // m
                base_e = [('r', 0, m - 1)] if m > 1 else [('s', 0)]
                el = {'k': 'u', 'n': m}
                one(W, fld(el, base_e, count=K), 'accept', 'array-fits-exactly')
                one(W, fld(el, base_e, count=K + 1), 'reject', 'array-one-too-many')
                one(W, fld(el, base_e, count=1), 'reject', 'array-K=1')
                one(W, fld(el, base_e, count=0), 'reject', 'array-K=0')
                if m > 1:
                    one(W, fld(el, base_e, count=2, stride=m - 1), 'reject', 'stride<width')
                one(W, fld(el, base_e, stride=m), 'reject', 'stride-on-scalar')
                if S > W and (W % m) != 0 and (K + 1) * m <= S:
                    one(W, fld(el, base_e, count=K + 1), 'reject', 'array-within-storage-beyond-base')
                # non-contiguous array without stride / with stride
                if m >= 2 and W >= 2 * (m + 2):
                    ents = [('s', 0), ('r', 2, m)] if m > 2 else [('s', 0), ('s', 2)]
                    one(W, fld(el, ents, count=2, lst=True), 'reject', 'list-array-no-stride')
                    one(W, fld(el, ents, count=2, stride=m + 2, lst=True), 'accept', 'list-array-stride')
            # bool arrays: stride 0 (invalid), 1 and 2 (valid)
            if W >= 8:
                b0 = rng.randint(0, W - 8)
                one(W, fld({'k': 'bool'}, [('s', b0)], count=4, stride=0), 'reject', 'bool-array-stride-0')
                one(W, fld({'k': 'bool'}, [('s', b0)], count=4, stride=1), 'accept', 'bool-array-stride-1')
                one(W, fld({'k': 'bool'}, [('s', b0)], count=4, stride=2), 'accept', 'bool-array-stride-2')
                one(W, fld({'k': 'u', 'n': 1}, [('s', b0)], count=4, stride=0), 'reject', 'u1-array-stride-0')
            # wrong keyword for the form
            f = fld(u, [('r', lo, lo + n - 1)])
            if n > 1:
                f['bits_kw'] = False
                one(W, f, 'reject', 'bit(a..=b)')
            f = fld({'k': 'u', 'n': 1}, [('s', lo)])
            f['bits_kw'] = True
            one(W, f, 'reject', 'bits(a)')
            # two ranges outside a list
            if W >= 4:
                f = fld({'k': 'u', 'n': 2}, [('s', 0), ('s', 2)], lst=False)
                f['bits_kw'] = rng.random() < 0.5
                one(W, f, 'reject', 'two-ranges-no-list')
            # custom type of the wrong width (rejected by rustc's type check, not by the macro)
            if 2 <= n <= 8:
                t = self.custom_enum(n)
                wrong = dict(t)
                one(W, fld(wrong, [('r', lo, lo + n - 1)] if n > 1 else [('s', lo)]), 'accept', 'custom-right-width')
                if lo + n < W:
                    w2 = dict(t)
                    w2['decl_n'] = n
                    # with at least one accessor: a field without any generates no code, its type is never used, and a type of
                    # the wrong width can be neither observed nor rejected there
                    f = fld(w2, [('r', lo, lo + n)], acc=self.rng_order.choice(['rw', 'r', 'w']))
                    one(W, f, 'reject', 'custom-wrong-width')
                    if lo + n + 1 < W and n + 1 <= 8:
                        # the type one bit WIDER than the field, write-only: the setter would spill into the next bit (defect D5)
                        t2 = dict(self.custom_enum(n + 1))
                        t2['decl_n'] = n + 1
                        one(W, fld(t2, [('r', lo, lo + n - 1)] if n > 1 else [('s', lo)], acc='w'), 'reject', 'custom-wider-than-field-write-only')
            if k < 8 and W >= 16:
                # both widths native: a 16-bit enum on an 8-bit write-only field, a 32-bit one on 16 bits, and the narrower ones
                for fw, tw in ((8, 16), (16, 32), (16, 8), (8, 64)):
                    if fw < W and tw <= 64:
                        t3 = dict(self.custom_enum(tw))
                        t3['decl_n'] = tw
                        one(W, fld(t3, [('r', 0, fw - 1)], acc='w'), 'reject', 'custom-native-width-mismatch-write-only')
        # malformed attribute token streams (expected verdict by fiat; no structured form)
        for text, tag in [('#[bits(0..=3, rx)]', 'unknown-ident'), ('#[bits(0..3, rw)]', 'exclusive-range'),
                          ('#[bits(0..=, rw)]', 'missing-upper'), ('#[bits(..=3, rw)]', 'missing-lower'),
                          ('#[bits(0..=3, rw, stride)]', 'stride-without-value'), ('#[bits(0..=3, stride = rw)]', 'stride-ident'),
                          ('#[bits(0=3, rw)]', 'equals-in-range'), ('#[bitx(0..=3, rw)]', 'unknown-attribute'),
                          ('#[bits(rw)]', 'no-range'), ('#[bits(0..=3 rw)]', 'missing-comma'),
                          ('#[bits(0x0..=3, rw)]', 'hex-literal'), ('#[bits([0..=1], [2..=3], rw)]', 'two-lists')]:
            f = self.field('x', {'k': 'u', 'n': 4}, [('r', 0, 3)])
            f['attr_text'] = text
            d = {'kind': 'bitfield', 'name': self.name('S'), 'base': 8, 'fields': [f], 'unstructured': True}
            self.add(d, 'F7d', 'reject', [tag])
        # unusual spellings the argument automaton accepts (the automaton, not a grammar, decides)
        for text, tag, cnt in [('#[bits(0..=3, rw,)]', 'trailing-comma', None), ('#[bits(rw, 0..=3)]', 'access-first', None),
                               ('#[bits(0..=3, r, w)]', 'r-then-w', None), ('#[bits(0..=3, rw, rw)]', 'access-twice', None),
                               ('#[bits(0..=1, rw, stride: 2)]', 'stride-colon', 2), ('#[bits(stride = 2, 0..=1, rw)]', 'stride-first', 2),
                               ('#[bits([0..=1, 2..=3,], rw)]', 'list-trailing-comma', None), ('#[bits([0..=3], rw)]', 'one-element-list', None),
                               ('#[bits(, 0..=3, rw)]', 'leading-comma', None)]:
            n = 4 if cnt is None else 2
            f = self.field('x', {'k': 'u', 'n': n}, [('r', 0, n - 1)], count=cnt)
            f['attr_text'] = text
            d = {'kind': 'bitfield', 'name': self.name('S'), 'base': 8, 'fields': [f], 'unstructured': True}
            self.add(d, 'F7d', 'accept', [tag])
        # unsupported base types
        for bt, tag in [('u0', 'base-u0'), ('u129', 'base-u129'), ('u200', 'base-u200'), ('i32', 'base-i32'), ('usize', 'base-usize'),
                        ('bool', 'base-bool')]:
            f = self.field('x', {'k': 'bool'}, [('s', 0)])
            self.add({'kind': 'bitfield', 'name': self.name('S'), 'base': 8, 'base_text': bt, 'fields': [f], 'unstructured': True},
                     'F7d', 'reject', [tag])

    # -- F7p: perturbed declarations (verdict differential: rustc = model = rule, whatever the verdict is) -----
    def perturbed_bitfields(self, count):
        """valid single-field declarations of every shape with ONE random perturbation each; the rule (valid_decl), the model
        of the macro (accept_decl) and rustc must agree on each, accepted or not"""
        rng = self.rng
        import copy
        made = 0
        guard = 0
        while made < count and guard < count * 20:
            guard += 1
            W = rng.choice([8, 16, 32, 64, 128, 7, 9, 12, 24, 33, 63, 65, 100, 127])
            S = storage(W)
            shape = rng.choice(['scalar', 'scalar', 'bool', 'list', 'list', 'array', 'array', 'boolarray', 'listarray'])
            if shape == 'scalar':
                n = rng.randint(1, min(W, 24))
                lo = rng.randint(0, W - n)
                f = self.field('x', self.type_for_width(n, allow_bool=False), [('r', lo, lo + n - 1)] if n > 1 else [('s', lo)])
            elif shape == 'bool':
                f = self.field('x', {'k': 'bool'}, [('s', rng.randint(0, W - 1))])
            elif shape == 'list':
                f = self.list_field(W, 'x')
            elif shape == 'array':
                f = self.array_field(W, 'x')
                if f is not None and f['ty']['k'] == 'bool':
                    f = None
            elif shape == 'boolarray':
                K = rng.randint(2, min(W, 8))
                lo = rng.randint(0, W - K)
                f = self.field('x', {'k': 'bool'}, [('s', lo)], count=K, stride=rng.choice([None, 1]))
            else:
                f = self.list_field(W, 'x', array=True)
            if f is None:
                continue
            f['acc'] = 'rw'
            f = copy.deepcopy(f)
            ents = f['entries']
            j = rng.randrange(len(ents))
            e = ents[j]
            lo_j, n_j = entry_range(e)
            kind = rng.choice(['shift', 'shift', 'shift', 'grow', 'reverse', 'type', 'count', 'stride', 'stride', 'permute', 'none'])
            tag = kind
            if kind == 'shift':
                # move entry j so that its last bit lands just around the base width or the storage width
                tgt = rng.choice([W - 1, W, W + 1, S - 1, S, S + 1, S + 7])
                nlo = tgt - n_j + 1
                if nlo < 0:
                    continue
                ents[j] = ['s', nlo] if e[0] == 's' else ['r', nlo, nlo + n_j - 1]
                tag = 'shift-entry-%d-of-%d-to-%s' % (j, len(ents), 'W%+d' % (tgt - W))
            elif kind == 'grow':
                if e[0] == 's':
                    ents[j] = ['r', e[1], e[1] + 1]
                else:
                    ents[j] = ['r', e[1], max(e[1], e[2] + rng.choice([-1, 1]))]
            elif kind == 'reverse':
                if e[0] == 's':
                    continue
                ents[j] = ['r', e[2], e[1]] if e[2] != e[1] else ['r', e[1] + 1, e[1]]
                tag = 'reverse-entry-%d-of-%d' % (j, len(ents))
            elif kind == 'type':
                t = f['ty']
                if t['k'] in ('u',):
                    nn = t['n'] + rng.choice([-1, 1])
                    if nn < 1 or nn > 128:
                        continue
                    f['ty'] = {'k': 'u', 'n': nn}
                elif t['k'] == 'bool':
                    f['ty'] = {'k': 'u', 'n': rng.choice([1, 2])}
                else:
                    f['ty'] = {'k': 'bool'}
            elif kind == 'count':
                if f.get('count') is None:
                    f['count'] = rng.choice([0, 1, 2])
                else:
                    f['count'] = rng.choice([0, 1, f['count'] + 1, f['count'] + 2, 2])
            elif kind == 'stride':
                if f.get('count') is None:
                    f['stride'] = rng.choice([1, total(f), 8])
                else:
                    n = total(f)
                    f['stride'] = rng.choice([None, 0, max(0, n - 1), n, n + 1, 1])
                tag = 'stride=%s' % f['stride']
            elif kind == 'permute':
                rng.shuffle(ents)
            d = {'kind': 'bitfield', 'name': self.name('S'), 'base': W, 'fields': [f]}
            self.add(d, 'F7p', 'model', [shape, tag])
            made += 1

    def perturbed_enums(self, count):
        rng = self.rng
        for k in range(count):
            n = rng.choice([1, 2, 2, 3, 3, 4, 5, 7, 8, 9, 15, 16, 17, 31, 32, 33, 63, 64])
            full = n <= 5 and rng.random() < 0.5
            if full:
                discrs = list(range(1 << n))
                rng.shuffle(discrs)
            else:
                kk = rng.randint(1, min((1 << n) - 1, 6)) if n > 1 else 1
                discrs = rng.sample(range(min(1 << n, 1 << 20)), kk) if n <= 20 else \
                    list({rng.getrandbits(n) for _ in range(kk)} | {(1 << n) - 1})
            exh = rng.choice(['true', 'false', None, 'conditional'])
            if rng.random() < 0.6:
                exh = 'true' if full else rng.choice(['false', None])
            vs = [{'name': 'V%d' % i, 'discr': x} for i, x in enumerate(discrs)]
            kind = rng.choice(['big', 'big', 'big', 'drop', 'add', 'cfg', 'none', 'exh'])
            tag = kind
            if kind == 'big':
                j = rng.randrange(len(vs))
                big = (1 << n) + rng.choice([0, 0, 1, 5])
                if n >= 64 or big in discrs:
                    continue
                vs[j]['discr'] = big
                tag = 'discr-2^n+-at-%d-of-%d' % (j, len(vs))
            elif kind == 'drop' and len(vs) > 1:
                vs.pop(rng.randrange(len(vs)))
            elif kind == 'add':
                free = [x for x in range(min(1 << n, 64)) if x not in discrs]
                if free:
                    vs.append({'name': 'Extra', 'discr': rng.choice(free)})
                else:
                    vs.append({'name': 'Extra', 'discr': discrs[0], 'cfg': 'any'})
            elif kind == 'cfg':
                vs[rng.randrange(len(vs))]['cfg'] = rng.choice(['all', 'any'])
            elif kind == 'exh':
                exh = rng.choice(['true', 'false', None, 'conditional'])
            d = {'kind': 'enum', 'name': self.name('E'), 'bits': n, 'exh': exh, 'variants': vs}
            if any(v.get('discr') is not None and v['discr'] >= (1 << 63) for v in vs):
                d['repr'] = 'u64'
            self.add(d, 'F7q', 'model', [tag, 'exh=%s' % exh])

    def exhaustive_small_slice(self):
        """every (lo, hi) in [0, 10]^2 on bases u8 and u9, type widths around hi-lo+1 (thorough tier: all widths <= 10)"""
        rng = self.rng
        q = self.tier == 'quick'
        for W in (8, 9):
            for lo in range(0, 11):
                for hi in range(0, 11):
                    widths = range(1, 11)
                    if q:
                        if rng.random() > 0.12:
                            continue
                        widths = [hi - lo + 1] if hi >= lo and rng.random() < 0.6 else [rng.randint(1, 10)]
                    for w in widths:
                        ok = lo <= hi and hi < W and w == hi - lo + 1
                        f = self.field('x', {'k': 'u', 'n': w}, [('r', lo, hi)], acc='rw')
                        self.add({'kind': 'bitfield', 'name': self.name('S'), 'base': W, 'fields': [f]}, 'F7x',
                                 'accept' if ok else 'reject', ['slice'])

    def fam_positions(self):
        """a field of a small width at EVERY position of the base: special cases keyed on one position (top bit, top-1,
        bit 63/64, first bit above a storage boundary) cannot hide between sampled positions"""
        q = self.tier == 'quick'
        F = self.field
        bases = [8, 16, 32, 64, 128, 24, 100] if q else [8, 16, 32, 64, 128, 7, 9, 24, 33, 65, 100, 127]
        widths = [('bool', 1), ('u', 2)] if q else [('bool', 1), ('u', 1), ('u', 2), ('u', 3), ('i', 8), ('u', 8), ('u', 9)]
        for W in bases:
            for kind, n in widths:
                if n > W:
                    continue
                fields = []
                for lo in range(0, W - n + 1):
                    ty = {'k': 'bool'} if kind == 'bool' else {'k': kind, 'n': n}
                    e = ('s', lo) if n == 1 else ('r', lo, lo + n - 1)
                    fields.append(F('p%d' % lo, ty, [e], acc='rw'))
                self.add({'kind': 'bitfield', 'name': self.name('S'), 'base': W, 'fields': fields, 'light': True}, 'F1p', 'accept',
                         ['every-position', '%s%d' % (kind, n), 'W=%d' % W])

    def fam_constants(self, consts):
        """declarations built around every integer literal that occurs in the macro's own source (read on this run): a
        special case keyed on a particular width, position, count or stride puts that number into the source, and with it
        into the corpus"""
        F = self.field
        u = lambda n: {'k': 'u', 'n': n}
        vals = sorted(set(c for k in consts for c in (k, k + 1) if 1 <= c <= 128))
        for c in vals:
            fields = [F('w', u(c), [('r', 0, c - 1)] if c > 1 else [('s', 0)]),
                      F('t', u(c), [('r', 128 - c, 127)] if c > 1 else [('s', 127)])]
            if c <= 127:
                fields.append(F('p', {'k': 'bool'}, [('s', c)]))
                fields.append(F('pr', {'k': 'bool'}, [('r', c, c)]))       # a bool written as a one-bit range
            if c + 8 <= 128:
                fields.append(F('q', u(8), [('r', c, c + 7)]))
                fields.append(F('qi', {'k': 'i', 'n': 8}, [('r', c, c + 7)]))
            # fields that straddle bit c (start below, end at or above): native and arbitrary widths, signed, enum, list piece
            for nm, ty, n in (('x2', u(2), 2), ('x8', u(8), 8), ('xi8', {'k': 'i', 'n': 8}, 8), ('x16', u(16), 16), ('x5', u(5), 5)):
                lo = c - n // 2
                if lo >= 0 and lo + n <= 128:
                    fields.append(F(nm, ty, [('r', lo, lo + n - 1)]))
            if c - 4 >= 8 and c + 4 <= 128:
                fields.append(F('xe8', self.custom_enum(8), [('r', c - 4, c + 3)]))
                fields.append(F('xl', u(16), [('r', 0, 7), ('r', c - 4, c + 3)], lst=True))
                fields.append(F('xa', u(8), [('r', c - 4 - 8, c - 4 - 1)], count=2))
            if 2 <= c and c + 2 <= 128:
                fields.append(F('l', u(4), [('r', 0, 1), ('r', c, c + 1)], lst=True))
                fields.append(F('lr', u(4), [('r', c, c + 1), ('r', 0, 1)], lst=True))
                fields.append(F('s', u(2), [('r', 0, 1)], count=2, stride=c))
                fields.append(F('sl', u(2), [('s', 0), ('s', c)], count=2, stride=1 if c > 2 else 4, lst=True))
            if 2 <= c:
                fields.append(F('a', {'k': 'bool'}, [('s', 0)], count=c))
                if 2 * c <= 128:
                    fields.append(F('a2', u(2), [('r', 0, 1)], count=c))
            if c <= 64:
                fields.append(F('e', self.custom_enum(c), [('r', 0, c - 1)] if c > 1 else [('s', 0)]))
            if c in NATIVE:
                fields.append(F('i', {'k': 'i', 'n': c}, [('r', 128 - c, 127)]))
            self.add({'kind': 'bitfield', 'name': self.name('S'), 'base': 128, 'fields': fields, 'light': True}, 'F9', 'accept',
                     ['source-constant', 'c=%d' % c])
            # the constant as a base width, with the constant as default, and one field up to the top bit
            fields = [F('all', u(c), [('r', 0, c - 1)] if c > 1 else [('s', 0)]), F('top', {'k': 'bool'}, [('s', c - 1)])]
            self.add({'kind': 'bitfield', 'name': self.name('S'), 'base': c, 'fields': fields, 'light': True, 'debug': True,
                      'default': {'form': 'lit', 'value': c % (1 << c)}}, 'F9', 'accept', ['source-constant-base', 'c=%d' % c])
            # one bit too many for the base: must be rejected
            if c <= 127:
                self.add({'kind': 'bitfield', 'name': self.name('S'), 'base': c,
                          'fields': [F('over', u(c + 1) if c + 1 != 1 else u(2), [('r', 0, c)])]}, 'F9', 'reject',
                         ['source-constant-over', 'c=%d' % c])
        for c in sorted(set(c for k in consts for c in (k, k + 1) if 1 <= c <= 64)):
            self.enum_decl(c, False, nvariants=2, family='F9')
        for c in sorted(set(c for k in consts for c in (k, k + 1) if 2 <= c <= 200)):
            # an enum with exactly c variants over the smallest width that holds them, and over one bit more
            n = max(1, (c - 1).bit_length())
            vs = [{'name': 'V%d' % i, 'discr': i} for i in range(c)]
            self.add({'kind': 'enum', 'name': self.name('E'), 'bits': n, 'exh': 'true' if c == (1 << n) else 'false', 'variants': vs},
                     'F9', 'accept', ['source-constant-variants', 'c=%d' % c])

    def fam_random(self, count):
        """unstructured mixtures: every feature sampled independently (base, element kind, layout, placement, access, options,
        documentation), so that combinations no systematic family lists still occur"""
        rng = random.Random('random-mixtures|%s' % self.rng_order.random())
        F = self.field
        made = 0
        attempts = 0
        while made < count and attempts < count * 20:
            attempts += 1
            W = rng.choice([8, 16, 32, 64, 128, 128, rng.randint(1, 127), rng.randint(65, 127), rng.randint(9, 63)])
            fields = []
            all_plain_readable = True
            for k in range(rng.randint(1, 6)):
                n = rng.choice([1, 1, 2, 3, 4, 5, 8, 8, 16, 16, 32, 64, rng.randint(1, 128)])
                if n > W:
                    continue
                kind = rng.choice(['u', 'u', 'i', 'bool', 'enum', 'enum', 'nested'])
                if kind == 'bool':
                    n, ty = 1, {'k': 'bool'}
                elif kind == 'i':
                    if n not in NATIVE:
                        continue
                    ty = {'k': 'i', 'n': n}
                elif kind == 'enum':
                    if n > 64:
                        continue
                    ty = self.custom_enum(n)
                elif kind == 'nested':
                    ty = self.custom_nested(n)
                else:
                    ty = {'k': 'u', 'n': n}
                layout = rng.choice(['single', 'single', 'array', 'strided', 'list', 'listarray'])
                if ty['k'] == 'bool' and layout in ('list', 'listarray'):
                    layout = 'array'
                count_, stride, entries, lst = None, None, None, None
                if layout == 'single':
                    lo = rng.choice([0, W - n, rng.randint(0, W - n), max(0, min(W - n, 64 - n // 2)), max(0, min(W - n, 63))])
                    entries = [('r', lo, lo + n - 1)] if (n > 1 or (ty['k'] != 'bool' and rng.random() < 0.5)) else [('s', lo)]
                elif layout in ('array', 'strided'):
                    stride_v = n if layout == 'array' else n + rng.choice([0, 1, 2, 3, 8])
                    maxc = (W - n) // stride_v + 1 if stride_v else 1
                    if maxc < 2:
                        continue
                    count_ = rng.choice([2, 2, min(3, maxc), maxc, min(maxc, 17), min(maxc, 33)])
                    span = (count_ - 1) * stride_v + n
                    lo = rng.choice([0, W - span, rng.randint(0, W - span)])
                    entries = [('r', lo, lo + n - 1)] if n > 1 else [('s', lo)]
                    stride = None if (layout == 'array' and rng.random() < 0.6) else stride_v
                else:
                    if n < 2:
                        continue
                    # split n bits into 2..3 pieces placed anywhere without overlap among themselves
                    cuts = sorted(rng.sample(range(1, n), min(n - 1, rng.choice([1, 1, 2]))))
                    sizes = [b - a for a, b in zip([0] + cuts, cuts + [n])]
                    room = W if layout == 'list' else W // 2
                    if sum(sizes) + len(sizes) > room:
                        continue
                    # choose disjoint starts inside `room`
                    starts, pos = [], 0
                    free = room - sum(sizes)
                    gaps = sorted(rng.randint(0, free) for _ in sizes)
                    prev = 0
                    for sz, g in zip(sizes, gaps):
                        starts.append(pos + (g - prev))
                        pos = starts[-1] + sz
                        prev = g
                    pieces = [('r', a, a + sz - 1) if sz > 1 or rng.random() < 0.5 else ('s', a) for a, sz in zip(starts, sizes)]
                    rng.shuffle(pieces)
                    entries, lst = pieces, True
                    if layout == 'listarray':
                        hi = max(e[-1] for e in pieces) + 1
                        lo0 = min(e[1] for e in pieces)
                        stride = rng.choice([hi - lo0, hi - lo0 + 1, hi])
                        maxc = (W - hi) // stride + 1
                        if maxc < 2:
                            continue
                        count_ = rng.choice([2, maxc])
                acc = rng.choice(['rw', 'rw', 'rw', 'r', 'w', ''])
                f = F('m%d' % k, ty, entries, acc=acc, count=count_, stride=stride, lst=lst, doc=rng.random() < 0.15)
                if rng.random() < 0.1:
                    f['doc_after'] = True
                fields.append(f)
                if count_ is not None or 'r' not in acc:
                    all_plain_readable = False
            if not fields:
                continue
            d = {'kind': 'bitfield', 'name': self.name('S'), 'base': W, 'fields': fields, 'light': rng.random() < 0.5}
            if any(f.get('doc') for f in fields):
                d['doc'] = True
                for f in fields:
                    f['doc'] = True
            r = rng.random()
            if r < 0.5:
                v = rng.choice([0, 1, (1 << W) - 1, 1 << (W - 1), rng.getrandbits(W)])
                d['default'] = {'form': 'lit', 'value': v, 'text': rng.choice([str(v), hex(v), bin(v)])} if rng.random() < 0.7 else \
                    {'form': 'const', 'name': 'MIX_%s' % d['name'], 'value': v}
                d['legacy'] = rng.random() < 0.2
            if all_plain_readable and rng.random() < 0.5:
                d['debug'] = True
            self.add(d, 'F11', 'model', ['random-mixture'])
            made += 1

    def fam_interactions(self):
        """feature interactions, systematically: every element kind x every layout (single, array, strided array, range list,
        range-list array) x two placements (up to the top bit; across bit 64 on wide bases) on arbitrary-int and native bases"""
        F = self.field
        u = lambda n: {'k': 'u', 'n': n}
        for W in (24, 64, 100, 128):
            kinds = [('u3', u(3), 3), ('u8', u(8), 8), ('i8', {'k': 'i', 'n': 8}, 8), ('bool', {'k': 'bool'}, 1),
                     ('enum3', self.custom_enum(3), 3), ('enum8', self.custom_enum(8), 8), ('nested4', self.custom_nested(4), 4),
                     ('i16', {'k': 'i', 'n': 16}, 16)]
            for kname, ty, n in kinds:
                places = [('top', W)] + ([('across64', 64 + (n + 1) // 2)] if W > 64 + 2 * n else [])     # straddling bit 63/64
                for pname, end in places:
                    fields = []
                    lo = end - n
                    # single
                    fields.append(F('single', dict(ty), [('r', lo, end - 1)] if n > 1 else [('s', lo)]))
                    # array of 2 (packed) and of 3 (stride n + 2), both ending at `end`
                    if end - 2 * n >= 0:
                        a0 = end - 2 * n
                        fields.append(F('arr', dict(ty), [('r', a0, a0 + n - 1)] if n > 1 else [('s', a0)], count=2))
                    if end - (2 * (n + 2) + n) >= 0:
                        a0 = end - (2 * (n + 2) + n)
                        fields.append(F('strided', dict(ty), [('r', a0, a0 + n - 1)] if n > 1 else [('s', a0)], count=3, stride=n + 2))
                    # range list: the low half of the value at the top, the high half at the bottom of the base
                    if n >= 2 and ty['k'] != 'bool':
                        h = n // 2
                        fields.append(F('split', dict(ty), [('r', end - h, end - 1), ('r', 0, n - h - 1)], lst=True))
                        # range-list array: two elements, second one ending at `end`
                        st = n + 1
                        if end - h - st >= n - h + st:
                            fields.append(F('splitarr', dict(ty), [('r', end - h - st, end - 1 - st), ('r', 0, n - h - 1)], count=2, stride=st, lst=True))
                    self.add({'kind': 'bitfield', 'name': self.name('S'), 'base': W, 'fields': fields,
                              'default': {'form': 'lit', 'value': ((1 << W) - 1) // 3}}, 'F10', 'accept',
                             ['interaction', kname, pname, 'W=%d' % W])

    def fam_exhaustive(self):
        """thorough tier: ALL 128 base widths (full-width field + top-bit bool, defaults in rotation), and ALL contiguous
        layouts (lo, hi) on 8- and 16-bit storage"""
        rng = self.rng
        F = self.field
        for W in range(1, 129):
            fields = [F('all', {'k': 'u', 'n': W}, [('r', 0, W - 1)] if W > 1 else [('s', 0)]),
                      F('top', {'k': 'bool'}, [('s', W - 1)])]
            d = {'kind': 'bitfield', 'name': self.name('S'), 'base': W, 'fields': fields}
            form = W % 4
            if form == 1:
                d['default'] = {'form': 'lit', 'value': rng.getrandbits(W)}
            elif form == 2:
                d['default'] = {'form': 'const', 'name': 'DEF_%s' % d['name'], 'value': rng.getrandbits(W)}
            elif form == 3:
                d['default'] = {'form': 'lit', 'value': (1 << W) - 1}
                d['legacy'] = True
            d['light'] = True
            self.add(d, 'F5', 'accept', ['all-bases', 'W=%d' % W])
        if self.tier == 'quick':
            return
        for W in (32, 64, 128, 24, 100):
            for where in ('low', 'top'):
                fields = []
                for n in range(1, W + 1):
                    lo = 0 if where == 'low' else W - n
                    fields.append(F('w%d' % n, {'k': 'u', 'n': n}, [('r', lo, lo + n - 1)] if n > 1 else [('s', lo)], acc='rw'))
                self.add({'kind': 'bitfield', 'name': self.name('S'), 'base': W, 'fields': fields, 'light': True}, 'F1w', 'accept',
                         ['every-width', where, 'W=%d' % W])
        for W in (8, 12, 16):
            for lo in range(W):
                fields = []
                for hi in range(lo, W):
                    n = hi - lo + 1
                    fields.append(F('f%d' % hi, self.type_for_width(n), [('r', lo, hi)] if n > 1 else [('s', lo)], acc='rw'))
                    if fields[-1]['ty']['k'] == 'bool':
                        fields[-1]['entries'] = [['s', lo]]
                        fields[-1]['bits_kw'] = False
                self.add({'kind': 'bitfield', 'name': self.name('S'), 'base': W, 'fields': fields}, 'F1x', 'accept', ['all-layouts', 'W=%d' % W])

    def generate(self):
        q = self.tier == 'quick'
        self.fam_single(42 if q else 200)
        self.fam_arrays(20 if q else 120)
        self.fam_lists(24 if q else 160)
        self.fam_structs(48 if q else 240)
        self.fam_positions()
        self.fam_exhaustive()
        self.fam_enums()
        self.invalid_enums()
        self.invalid_bitfields(6 if q else 40)
        self.perturbed_bitfields(150 if q else 900)
        self.perturbed_enums(80 if q else 400)
        self.exhaustive_small_slice()
        self.fam_constants(self.consts)
        self.fam_interactions()
        self.fam_random(160 if q else 1500)
        return self.decls


def generate(seed, tier, consts=()):
    return Gen(seed, tier, consts).generate()
