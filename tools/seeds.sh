#!/bin/bash
# usage: tools/seeds.sh <seed> ...   all checks for each seed; prints only non-OK lines and a summary
cd "$(dirname "$0")/.."
for s in "$@"; do
  out=$(VERIF_SEED=$s tools/allchecks.sh quick 2>&1)
  echo "seed $s: $(echo "$out" | grep -c '^OK') OK, $(echo "$out" | grep -c VIOLATION) violation lines"
  echo "$out" | grep -v '^OK' | head -20
done
