(** * ParseRegion.v — the numeric checks of [parse_field], isolated

    [Parse.accept_field] follows [parse_field] as a whole.  The part between [let number_of_bits = ...] and the
    bounds checks is pure arithmetic on (base width, ranges, declared type size, element count, stride); it is
    restated here as [region_checks], shown to be exactly the corresponding part of [accept_field]
    ([accept_field_region]), and it is the function against which the translation of that region of the macro's
    own source is proved equal on every run ([harness/bbv/srcmodel.py], [region_auto]). *)
From Coq Require Import NArith List Bool Lia ZifyBool ZifyNat ZifyN.
From BB Require Import Bits Spec Parse.
Import ListNotations.
Open Scope N_scope.

Definition list_max_or (l : list N) (d : N) : N :=
  match l with [] => d | _ => fold_right N.max 0 l end.

Definition list_min_or (l : list N) (d : N) : N :=
  match l with [] => d | x :: l' => fold_right N.min x l' end.

Definition highest_end (rs : list (N * N)) : N := fold_right (fun r m => N.max (snd r) m) 0 rs.

Lemma fold_max_map f (l : list (N * N)) :
  (forall r, f r = snd r) -> fold_right N.max 0 (map f l) = highest_end l.
Proof.
  intros Hf. unfold highest_end. induction l as [|x l IH]; cbn [map fold_right]; [reflexivity|].
  rewrite IH, Hf. reflexivity.
Qed.

Lemma list_max_or_highest rs f :
  (forall r, f r = snd r) -> list_max_or (map f rs) 0 = highest_end rs.
Proof.
  intros Hf. destruct rs as [|r rs]; [reflexivity|].
  change (list_max_or (map f (r :: rs)) 0) with (fold_right N.max 0 (map f (r :: rs))).
  apply fold_max_map, Hf.
Qed.

Definition bits_of (rs : list (N * N)) : N := fold_left (fun a r => a + snd r - fst r) rs 0.

(** [sz]: the size [parse_scalar_field] reports ([Some 0] bool, [None] custom type) *)
Definition region_checks (W : N) (rs : list (N * N)) (sz count stride : option N) : bool :=
  let number_of_bits := bits_of rs in
  let field_type_size := match sz with Some b => b | None => number_of_bits end in
  if (match sz with None => 128 <? number_of_bits | _ => false end) then false else
  let size_ok :=
    if field_type_size =? 0
    then (number_of_bits =? 1) && (List.length rs =? 1)%nat
    else number_of_bits =? field_type_size in
  if negb size_ok then false else
  match count with
  | Some k =>
      let stride_opt :=
        if (List.length rs =? 1)%nat
        then Some (match stride with Some s => s | None => number_of_bits end)
        else stride in
      match stride_opt with
      | None => false
      | Some s =>
          if (List.length rs =? 1)%nat && (s <? number_of_bits) then false else
          if W <? (k - 1) * s + highest_end rs then false else
          if k <? 2 then false else true
      end
  | None => if W <? highest_end rs then false else true
  end.

(** [accept_field] is: the attribute shape, the supported spelling of the type, [region_checks], and rustc's typing of
    a custom field *)
Lemma accept_field_region W f :
  accept_field W f =
  match (if (if f_list f then true else (match f_entries f with [_] => true | _ => false end))
         then parse_entries (f_list f) (f_bits_kw f) (f_entries f) else None) with
  | None => false
  | Some rs =>
      match rs with
      | [] => false
      | _ =>
        if (match f_count f, f_stride f with None, Some _ => true | _, _ => false end) then false else
        match type_size (f_ty f) with
        | None => false
        | Some sz =>
            region_checks W rs sz (f_count f) (f_stride f)
            && negb (match f_ty f with FCustom _ n _ => negb (n =? bits_of rs) | _ => false end)
        end
      end
  end.
Proof.
  unfold accept_field, region_checks, bits_of, highest_end.
  destruct (if (if f_list f then true else match f_entries f with [_] => true | _ => false end)
            then parse_entries (f_list f) (f_bits_kw f) (f_entries f) else None) as [rs|]; [|reflexivity].
  destruct rs as [|r rs]; [reflexivity|].
  destruct (match f_count f, f_stride f with None, Some _ => true | _, _ => false end); [reflexivity|].
  destruct (type_size (f_ty f)) as [sz|]; [|reflexivity].
  set (nb := fold_left (fun a r0 => a + snd r0 - fst r0) (r :: rs) 0).
  set (hi := fold_right (fun r0 m => N.max (snd r0) m) 0 (r :: rs)).
  set (len1 := (List.length (r :: rs) =? 1)%nat).
  destruct (match sz with None => 128 <? nb | Some _ => false end); [reflexivity|].
  destruct (negb (if (match sz with Some b => b | None => nb end) =? 0 then (nb =? 1) && len1
                  else nb =? (match sz with Some b => b | None => nb end))); [reflexivity|].
  destruct (match f_ty f with FCustom _ n _ => negb (n =? nb) | _ => false end).
  - cbn [negb]. rewrite andb_false_r. reflexivity.
  - cbn [negb]. rewrite andb_true_r. reflexivity.
Qed.

Lemma accept_field_region_true W f :
  accept_field W f = true ->
  exists rs sz, type_size (f_ty f) = Some sz /\ region_checks W rs sz (f_count f) (f_stride f) = true.
Proof.
  rewrite accept_field_region.
  destruct (if (if f_list f then true else match f_entries f with [_] => true | _ => false end)
            then parse_entries (f_list f) (f_bits_kw f) (f_entries f) else None) as [rs|]; [|discriminate].
  destruct rs as [|r rs]; [discriminate|].
  destruct (match f_count f, f_stride f with None, Some _ => true | _, _ => false end); [discriminate|].
  destruct (type_size (f_ty f)) as [sz|]; [|discriminate].
  intros H. apply andb_true_iff in H. destruct H as [H _]. exists (r :: rs), sz. split; [reflexivity|exact H].
Qed.

(** ** A finite grid for the report: where a re-translation first differs *)
Definition region_grid : list (N * list (N * N) * option N * option N * option N) :=
  let Ws := [8; 13; 128] in
  let rss := [[(0, 1)]; [(0, 4)]; [(4, 8)]; [(0, 8)]; [(5, 13)]; [(6, 14)]; [(0, 2); (4, 6)]; [(4, 8); (0, 4)]; [(0, 1); (3, 4)];
              [(0, 129)]; [(0, 128)]; [(12, 13)]; [(13, 14)]; [(8, 9)]; [(7, 8)]; []] in
  let szs := [Some 0; Some 1; Some 2; Some 4; Some 8; Some 128; None] in
  let counts := [None; Some 0; Some 1; Some 2; Some 3] in
  let strides := [None; Some 0; Some 1; Some 2; Some 4; Some 5; Some 8] in
  flat_map (fun W => flat_map (fun rs => flat_map (fun sz => flat_map (fun c => map (fun s => (W, rs, sz, c, s)) strides)
                                                                         counts) szs) rss) Ws.

(** the first grid point where they differ, with the model's verdict there *)
Definition region_first_diff (src : N -> list (N * N) -> option N -> option N -> option N -> bool) :=
  match find (fun x => match x with (W, rs, sz, c, s) => negb (Bool.eqb (src W rs sz c s) (region_checks W rs sz c s)) end)
             region_grid with
  | Some (W, rs, sz, c, s) => Some (W, rs, sz, c, s, region_checks W rs sz c s)
  | None => None
  end.

(** ** The equality proof for a re-translation: case analysis on every option and every comparison, linear arithmetic
    over the sums, the selected-bit count, the highest end and the (syntactically shared) products *)
Ltac region_split :=
  repeat match goal with
  | |- context[match ?o with Some _ => _ | None => _ end] => is_var o; destruct o
  | |- context[if ?c then _ else _] => let E := fresh "E" in destruct c eqn:E
  end.

Ltac region_hyps :=
  repeat match goal with
  | H : context[if ?c then _ else _] |- _ => let E := fresh "E" in destruct c eqn:E
  end.

Ltac region_auto f :=
  intros W rs sz count stride;
  unfold f, region_checks, bits_of;
  cbv beta zeta;
  rewrite ?(list_max_or_highest rs (fun r => snd r) (fun r => eq_refl));
  generalize (highest_end rs); intros hi;
  generalize (fold_left (fun a r => a + snd r - fst r) rs 0); intros nb;
  generalize (List.length rs); intros len;
  region_split; try reflexivity; exfalso; region_hyps; first [discriminate | lia].
