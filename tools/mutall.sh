#!/bin/bash
# usage: tools/mutall.sh <seed-id> ...   runs every check on each seeded change (target property first)
cd "$(dirname "$0")/.."
ALL="C01 C02 C03 C04 C05 C06 C07 C08 C09 C10 C11 C12 C13 C14 C15 C16 C17 C18 C19"
for id in "$@"; do
  prop="${id%%-*}"
  tools/mutant.py run /tmp/mut/$prop $id $prop $(echo $ALL | sed "s/$prop//") 2>&1 | grep -v "^WARNING"
done
