(** * EnumRegion.v — the arithmetic part of the bitenum validation, isolated

    [check_explicit_conditional] and the head of [check_explicit_exhaustive] (variant count against [2^N] and the
    declared exhaustiveness) are plain arithmetic; they are restated here, shown to be exactly the corresponding
    part of [Enum.enum_accept] ([enum_accept_region]), and are what the translation of those functions from the
    macro's own source is proved equal to on every run ([harness/bbv/srcmodel.py], [enum_auto]). *)
From Coq Require Import NArith List Bool Lia ZifyBool ZifyNat ZifyN.
From BB Require Import Bits Enum.
Import ListNotations.
Open Scope N_scope.

(** [check_explicit_conditional]: cfg-gated variants only under [exhaustive = conditional] *)
Definition enum_cfg_check (any_cfg : bool) (k : exh_kind) : bool :=
  negb (any_cfg && negb (is_conditional k)).

(** head of [check_explicit_exhaustive]: too many variants; the exhaustiveness claim against the count *)
Definition enum_count_checks (bits count : N) (k : exh_kind) : bool :=
  let max_count := 2 ^ bits in
  if (max_count <? count) && negb (is_conditional k) then false else
  if negb (exh_matches k (count =? max_count)) then false else true.

Lemma enum_accept_region e :
  enum_accept e =
  enum_cfg_check (existsb v_cfg (en_variants e)) (exh_of e)
  && enum_count_checks (en_bits e) (N.of_nat (List.length (en_variants e))) (exh_of e)
  && match max_discr (en_variants e) 0 with
     | None => false
     | Some m => if 2 ^ en_bits e <=? m then false else (1 <=? en_bits e) && (en_bits e <=? 64)
     end.
Proof.
  unfold enum_accept, enum_cfg_check, enum_count_checks.
  destruct (existsb v_cfg (en_variants e) && negb (is_conditional (exh_of e))); [reflexivity|].
  cbn [negb andb].
  destruct ((2 ^ en_bits e <? N.of_nat (List.length (en_variants e))) && negb (is_conditional (exh_of e))); [reflexivity|].
  destruct (negb (exh_matches (exh_of e) (N.of_nat (List.length (en_variants e)) =? 2 ^ en_bits e))); reflexivity.
Qed.

Lemma enum_accept_region_true e :
  enum_accept e = true ->
  enum_cfg_check (existsb v_cfg (en_variants e)) (exh_of e) = true /\
  enum_count_checks (en_bits e) (N.of_nat (List.length (en_variants e))) (exh_of e) = true.
Proof.
  rewrite enum_accept_region. intros H. apply andb_true_iff in H. destruct H as [H _].
  apply andb_true_iff in H. exact H.
Qed.

Definition enum_grid : list (N * N * exh_kind) :=
  flat_map (fun b => flat_map (fun c => map (fun k => (b, c, k)) [ExTrue; ExFalse; ExConditional])
                              [0; 1; 2; 3; 4; 5; 7; 8; 9; 255; 256; 257]) [0; 1; 2; 3; 8].

Definition enum_first_diff (src : N -> N -> exh_kind -> bool) :=
  match find (fun x => match x with (b, c, k) => negb (Bool.eqb (src b c k) (enum_count_checks b c k)) end) enum_grid with
  | Some (b, c, k) => Some (b, c, k, enum_count_checks b c k)
  | None => None
  end.

Ltac enum_split :=
  repeat match goal with
  | |- context[if ?c then _ else _] => let E := fresh "E" in destruct c eqn:E
  end.
Ltac enum_hyps :=
  repeat match goal with
  | H : context[if ?c then _ else _] |- _ => let E := fresh "E" in destruct c eqn:E
  end.

Ltac enum_auto f :=
  intros bits count kind;
  unfold f, enum_count_checks;
  cbv beta zeta;
  generalize (2 ^ bits); intros m;
  destruct kind; cbn [is_conditional exh_matches negb andb orb];
  enum_split; try reflexivity; exfalso; enum_hyps; first [discriminate | lia].
