"""Extra crates compiled against the real macro: programs that must fail to compile (C14, C17),
const-context evaluation (C15), and the no_std / missing_docs / unsafe_code regimes (C18)."""
import json, os, re, shutil, subprocess
from . import decls, runner
from .decls import *

DEP_TOML = '''[package]
name = "%s"
version = "0.1.0"
edition = "2021"

[workspace]

[dependencies]
corpus = { path = "../crate" }
arbitrary-int = "1.3.0"

[profile.dev]
overflow-checks = true
debug = false
'''


def _cargo_json(P, ws, cwd, args, env=None):
    e = {'CARGO_TARGET_DIR': ws.target, 'BITBYBIT_VERIF_DUMP_DIR': ws.path('dumps3')}
    os.makedirs(ws.path('dumps3'), exist_ok=True)
    if env:
        e.update(env)
    with P.cargo_lock():
        p = P.run(['cargo'] + args + ['--offline', '--message-format=json'], cwd=cwd, env=e, check=False, timeout=3000)
    msgs = []
    for line in p.stdout.splitlines():
        if not line.startswith('{'):
            continue
        try:
            m = json.loads(line)
        except ValueError:
            continue
        if m.get('reason') == 'compiler-message' and m['message'].get('level') == 'error':
            msgs.append(m)
    return p.returncode, msgs, p.stderr[-3000:]


def _error_lines(msgs, fname):
    """-> {line: [(code, message)]} for primary spans (followed through macro expansions) in file `fname`"""
    out = {}
    other = []
    for m in msgs:
        msg = m['message']
        if msg.get('message', '').startswith('aborting due to'):
            continue
        hit = False
        for s in msg.get('spans', []):
            if not s.get('is_primary'):
                continue
            cur = s
            while cur is not None:
                if cur['file_name'].endswith(fname):
                    out.setdefault(cur['line_start'], []).append(((msg.get('code') or {}).get('code'), msg.get('message')))
                    hit = True
                    break
                cur = (cur.get('expansion') or {}).get('span')
        if not hit:
            other.append(msg.get('message'))
    return out, other


# ------------------------------------------------------------------------------------------------
# programs that must not compile: absent accessors (C17), incomplete builder chains (C14)

def chain_calls(d):
    """[(method, is_array)] of the builder chain in declaration order"""
    return ['with_' + f['name'].replace('r#', '') for f in d['fields'] if 'w' in f['acc']]


def compile_fail(P, ws, ds, accepted, offered):
    """-> result dict; every probe is one line of src/main.rs with an expectation"""
    todo = [d for d in ds if d['kind'] == 'bitfield' and d['name'] in accepted and not d.get('unstructured')]
    lines = ['#![allow(warnings)]', 'use corpus::*;', 'fn any<T>() -> T { loop {} }']
    probes = []     # (line, decl, property, kind, expect_error)

    def probe(d, prop, kind, code, expect_error):
        lines.append('fn p%d() { %s }' % (len(probes), code))
        probes.append({'line': len(lines), 'decl': d['name'], 'property': prop, 'kind': kind, 'code': code,
                       'expect_error': expect_error})
    for d in todo:
        n = d['name']
        for f in d['fields']:
            g = f['name']
            w = 'with_' + g.replace('r#', '')
            s = 'set_' + g.replace('r#', '')
            probe(d, 'C17', 'getter of %s (%s)' % (g, f['acc'] or 'no access'), 'let _ = %s::%s;' % (n, g), 'r' not in f['acc'])
            probe(d, 'C17', 'with_ of %s (%s)' % (g, f['acc'] or 'no access'), 'let _ = %s::%s;' % (n, w), 'w' not in f['acc'])
            probe(d, 'C17', 'set_ of %s (%s)' % (g, f['acc'] or 'no access'), 'let _ = %s::%s;' % (n, s), 'w' not in f['acc'])
        off = offered.get(n, False)
        probe(d, 'C14', 'builder() %s' % ('offered' if off else 'not offered'), 'let _ = %s::builder;' % n, not off)
        if off:
            calls = chain_calls(d)
            full = ''.join('.%s(any())' % c for c in calls)
            probe(d, 'C14', 'complete chain', 'let _: %s = %s::builder()%s.build();' % (n, n, full), False)
            for k in range(len(calls)):
                pre = ''.join('.%s(any())' % c for c in calls[:k])
                probe(d, 'C14', 'build() after %d of %d fields' % (k, len(calls)), 'let _ = %s::builder()%s.build();' % (n, pre), True)
            for k in range(len(calls)):
                if len(calls) > 1:
                    drop = ''.join('.%s(any())' % c for j, c in enumerate(calls) if j != k)
                    probe(d, 'C14', 'chain without field %d' % k, 'let _ = %s::builder()%s.build();' % (n, drop), True)
            for k in range(len(calls) - 1):
                sw = list(calls)
                sw[k], sw[k + 1] = sw[k + 1], sw[k]
                probe(d, 'C14', 'fields %d and %d swapped' % (k, k + 1),
                      'let _ = %s::builder()%s.build();' % (n, ''.join('.%s(any())' % c for c in sw)), True)
            if calls:
                rep = ''.join('.%s(any())' % c for c in calls) + '.%s(any())' % calls[-1]
                probe(d, 'C14', 'last field supplied twice', 'let _ = %s::builder()%s.build();' % (n, rep), True)
    lines.append('fn main() {}')
    cdir = ws.path('cfail')
    shutil.rmtree(cdir, ignore_errors=True)
    os.makedirs(os.path.join(cdir, 'src'))
    open(os.path.join(cdir, 'Cargo.toml'), 'w').write(DEP_TOML % 'cfail')
    shutil.copy(P.lockfile(), os.path.join(cdir, 'Cargo.lock'))
    open(os.path.join(cdir, 'src', 'main.rs'), 'w').write('\n'.join(lines) + '\n')
    rc, msgs, stderr = _cargo_json(P, ws, cdir, ['check'])
    errs, other = _error_lines(msgs, 'main.rs')
    mism = []
    for p in probes:
        e = errs.get(p['line'], [])
        got = bool(e)
        if got != p['expect_error']:
            mism.append(dict(p, what=('compiles although it must not' if p['expect_error'] else 'does not compile although it must'),
                             rustc=e[:2]))
        elif got and not any(c in ('E0599', 'E0308', 'E0277', 'E0282', 'E0283') for c, _ in e):
            mism.append(dict(p, what='fails to compile for an unexpected reason', rustc=e[:2]))
    if other and not errs:
        raise RuntimeError('compile-fail crate: unattributed errors: %s\n%s' % (other[:3], stderr))
    return {'probes': len(probes), 'expected_errors': sum(1 for p in probes if p['expect_error']),
            'by_property': {k: sum(1 for p in probes if p['property'] == k) for k in ('C14', 'C17')},
            'samples': [{'code': p['code'], 'expect_error': p['expect_error'], 'kind': p['kind']} for p in probes[:3] + probes[-3:]],
            'mismatches': mism[:100], 'n_mismatches': len(mism), 'unattributed': other[:5]}


# ------------------------------------------------------------------------------------------------
# const context (C15)

def to_u128(f, by_name, expr):
    """getter result -> u128 in a form usable in const context"""
    t = f['ty']
    if t['k'] == 'bool':
        return '(%s) as u128' % expr
    if t['k'] == 'u':
        return '(%s) as u128' % expr if t['n'] in NATIVE else '(%s).value() as u128' % expr
    if t['k'] == 'i':
        return '((%s) as u%d) as u128' % (expr, t['n'])
    n = t['n']
    rv = lambda e: runner.raw_ty_to_u128(n, e)
    if t.get('opt'):
        return 'match %s { Ok(e) => %s, Err(b) => (1u128 << 127) | (b as u128) }' % (expr, rv('e.raw_value()'))
    return rv('(%s).raw_value()' % expr)


def const_arg(f, by_name, v):
    """a value of the field's type from the literal v, usable in const context"""
    t = f['ty']
    if t['k'] == 'bool':
        return 'true' if v else 'false'
    if t['k'] == 'u':
        return '%du%d' % (v, t['n']) if t['n'] in NATIVE else 'u%d::new(%d)' % (t['n'], v)
    if t['k'] == 'i':
        return '(%du%d as i%d)' % (v, t['n'], t['n'])
    n = t['n']
    raw = '%du%d' % (v, n) if n in NATIVE else 'u%d::new(%d)' % (n, v)
    target = by_name.get(t['name'])
    made = '%s::new_with_raw_value(%s)' % (t['name'], raw)
    if target is not None and target['kind'] == 'enum' and target.get('exh') != 'true':
        return 'match %s { Ok(e) => e, Err(_) => panic!() }' % made
    return made


def const_crate(P, ws, ds, accepted, builders, by_name, seed, tier):
    import random
    from . import cases
    todo = [d for d in ds if d['kind'] == 'bitfield' and d['name'] in accepted and not d.get('unstructured')]
    enums = [d for d in ds if d['kind'] == 'enum' and d['name'] in accepted]
    L = ['#![allow(warnings)]', 'use corpus::*;', 'use std::hint::black_box;',
         'fn report(name: &str, c: &[u128], r: &[u128]) { if c == r { println!("ok {} {}", name, c.iter().map(|x| format!("{:x}", x)).collect::<Vec<_>>().join(",")); } '
         'else { println!("DIFF {} const={:x?} runtime={:x?}", name, c, r); } }']
    names = []
    nvals = 0
    for d in todo:
        n = d['name']
        rng = random.Random('const|%s|%s' % (seed, n))
        W = d['base']
        for scen in range(2 if tier == 'quick' else 6):
            r0 = rng.getrandbits(W)
            base = ('%du%d' % (r0, W)) if W in NATIVE else 'u%d::new(%d)' % (W, r0)
            body = ['let x = %s::new_with_raw_value(%s);' % (n, 'RAW' if True else base)]
            outs = []
            for f in d['fields']:
                if cases.writable_ok(f):
                    i = rng.randrange(fcount(f))
                    v = rng.choice(cases.values_for(rng, f, by_name))
                    idx = '%d, ' % i if f.get('count') is not None else ''
                    body.append('let x = x.with_%s(%s%s);' % (f['name'].replace('r#', ''), idx, const_arg(f, by_name, v)))
            for f in d['fields']:
                if 'r' in f['acc']:
                    i = rng.randrange(fcount(f))
                    outs.append(to_u128(f, by_name, 'x.%s(%s)' % (f['name'], i if f.get('count') is not None else '')))
            outs.append(runner.base_to_u128(d, 'x.raw_value()'))
            outs.append(runner.base_to_u128(d, '%s::ZERO.raw_value()' % n))
            if d.get('default') is not None:
                outs.append(runner.base_to_u128(d, '%s::DEFAULT.raw_value()' % n))
            if n in builders:
                args = []
                for f in d['fields']:
                    if 'w' in f['acc']:
                        vals = cases.values_for(rng, f, by_name)
                        wn = 'with_' + f['name'].replace('r#', '')
                        if f.get('count') is None:
                            args.append('.%s(%s)' % (wn, const_arg(f, by_name, rng.choice(vals))))
                        else:
                            args.append('.%s([%s])' % (wn, ', '.join(const_arg(f, by_name, rng.choice(vals)) for _ in range(f['count']))))
                outs.append(runner.base_to_u128(d, '%s::builder()%s.build().raw_value()' % (n, ''.join(args))))
            ident = '%s_%d' % (n, scen)
            rawty = 'u%d' % W
            L.append('const fn c_%s(RAW: %s) -> [u128; %d] { %s [%s] }' % (ident, rawty, len(outs), ' '.join(body), ', '.join(outs)))
            L.append('const C_%s: [u128; %d] = c_%s(%s);' % (ident, len(outs), ident, base))
            names.append((ident, base))
            nvals += len(outs)
    for d in enums:
        n = d['name']
        rng = random.Random('constenum|%s|%s' % (seed, n))
        nb = d['bits']
        xs = [0, (1 << nb) - 1] + [v['discr'] for v in d['variants'][:3] if v.get('discr') is not None and v.get('cfg') != 'any'] + \
             [rng.getrandbits(nb) for _ in range(2)]
        xs = [x for x in xs if 0 <= x < (1 << nb)]
        outs = []
        for x in xs:
            raw = '%du%d' % (x, nb) if nb in (8, 16, 32, 64) else 'u%d::new(%d)' % (nb, x)
            conv = lambda e: ('(%s) as u128' % e) if nb in (8, 16, 32, 64) else '(%s).value() as u128' % e
            if d.get('exh') == 'true':
                outs.append(conv('%s::new_with_raw_value(%s).raw_value()' % (n, raw)))
            else:
                outs.append('match %s::new_with_raw_value(%s) { Ok(v) => %s, Err(b) => (1u128 << 127) | (b as u128) }' % (
                    n, raw, conv('v.raw_value()')))
        L.append('const fn c_%s(RAW: u8) -> [u128; %d] { [%s] }' % (n, len(outs), ', '.join(outs)))
        L.append('const C_%s: [u128; %d] = c_%s(0);' % (n, len(outs), n))
        names.append((n, '0'))
        nvals += len(outs)
    L.append('fn main() {')
    for ident, base in names:
        L.append('    report("%s", &C_%s, &c_%s(black_box(%s)));' % (ident, ident, ident, base))
    L.append('}')
    cdir = ws.path('cconst')
    shutil.rmtree(cdir, ignore_errors=True)
    os.makedirs(os.path.join(cdir, 'src'))
    open(os.path.join(cdir, 'Cargo.toml'), 'w').write(DEP_TOML % 'cconst')
    shutil.copy(P.lockfile(), os.path.join(cdir, 'Cargo.lock'))
    open(os.path.join(cdir, 'src', 'main.rs'), 'w').write('\n'.join(L) + '\n')
    rc, msgs, stderr = _cargo_json(P, ws, cdir, ['build'])
    mism = []
    if rc != 0:
        errs, other = _error_lines(msgs, 'main.rs')
        src = L
        for ln, e in sorted(errs.items())[:20]:
            text = src[ln - 1][:200] if ln - 1 < len(src) else ''
            m = re.search(r'c_(\w+?)(_\d+)?\(', text)
            mism.append({'decl': m.group(1) if m else '?', 'what': 'not usable in const context', 'line': text, 'rustc': e[:2]})
        if not mism:
            raise RuntimeError('const crate does not build:\n%s\n%s' % (other[:3], stderr))
        return {'items': len(names), 'values': nvals, 'mismatches': mism, 'n_mismatches': len(mism), 'ran': False}
    p = subprocess.run([os.path.join(ws.target, 'debug', 'cconst')], stdout=subprocess.PIPE, stderr=subprocess.PIPE, text=True, timeout=600)
    if p.returncode != 0:
        raise RuntimeError('const crate run failed: ' + p.stderr[-2000:])
    ok = 0
    sample = []
    for line in p.stdout.splitlines():
        if line.startswith('ok '):
            ok += 1
            if len(sample) < 3:
                sample.append(line)
        elif line.startswith('DIFF '):
            nm = line.split()[1]
            mism.append({'decl': re.sub(r'_\d+$', '', nm), 'what': 'compile-time and run-time results differ', 'line': line})
    if ok + len(mism) != len(names):
        raise RuntimeError('const crate printed %d lines for %d items' % (ok + len(mism), len(names)))
    return {'items': len(names), 'values': nvals, 'agree': ok, 'samples': sample, 'mismatches': mism[:50], 'n_mismatches': len(mism),
            'ran': True}


# ------------------------------------------------------------------------------------------------
# #![no_std], #![deny(missing_docs)], #![forbid(unsafe_code)] (C18)

NOSTD_TOML = '''[package]
name = "cnostd"
version = "0.1.0"
edition = "2021"

[workspace]

[dependencies]
bitbybit = { path = "%s/bitbybit", features = ["verif_hooks"] }
arbitrary-int = "1.3.0"
'''


def documented(d):
    d = json.loads(json.dumps(d))
    d['doc'] = True
    if d['kind'] == 'bitfield':
        for f in d['fields']:
            f['doc'] = True
        if d.get('default', {}) and d['default'].get('form') == 'const':
            pass
    return d


def regimes_crate(P, ws, ds, accepted):
    """one lib crate per regime containing documented copies of the accepted declarations"""
    todo = [documented(d) for d in ds if d['name'] in accepted and not d.get('unstructured')]
    res = {'declarations': len(todo), 'regimes': {}, 'mismatches': []}
    for regime, header in (('no_std', '#![no_std]'), ('missing_docs', '#![deny(missing_docs)]\n//! crate docs'),
                           ('unsafe_code', '#![forbid(unsafe_code)]'),
                           ('all', '#![no_std]\n#![deny(missing_docs)]\n#![forbid(unsafe_code)]\n//! crate docs')):
        lines = header.split('\n') + ['#[allow(unused_imports)]', 'use arbitrary_int::*;']
        spans = {}
        for d in todo:
            first = len(lines) + 1
            body = decls.rust_decl(d)
            # named default constants need a doc comment of their own under deny(missing_docs)
            body = [('/// constant\n' + l) if l.startswith('pub const ') else l for l in body]
            lines += '\n'.join(body).split('\n')
            spans[d['name']] = (first, len(lines))
        cdir = ws.path('cnostd_' + regime)
        shutil.rmtree(cdir, ignore_errors=True)
        os.makedirs(os.path.join(cdir, 'src'))
        open(os.path.join(cdir, 'Cargo.toml'), 'w').write(NOSTD_TOML % P.REPO)
        shutil.copy(P.lockfile(), os.path.join(cdir, 'Cargo.lock'))
        open(os.path.join(cdir, 'src', 'lib.rs'), 'w').write('\n'.join(lines) + '\n')
        rc, msgs, stderr = _cargo_json(P, ws, cdir, ['check', '--lib'])
        errs, other = _error_lines(msgs, 'lib.rs')
        n = 0
        for ln, e in sorted(errs.items()):
            who = [nm for nm, (a, b) in spans.items() if a <= ln <= b]
            n += 1
            if len(res['mismatches']) < 50:
                res['mismatches'].append({'decl': who[0] if who else '?', 'what': 'does not compile under ' + regime, 'rustc': e[:2]})
        if rc != 0 and not errs:
            raise RuntimeError('regime crate %s failed without attributable errors: %s\n%s' % (regime, other[:3], stderr))
        res['regimes'][regime] = {'errors': n}
    res['n_mismatches'] = len(res['mismatches'])
    return res
