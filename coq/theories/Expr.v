(** * Expr.v — the fragment of Rust emitted by the macros, and its semantics.

    [expr] is a deep embedding of exactly the expression forms that
    [bitbybit/src/bitfield/codegen.rs] and [mod.rs] paste into accessor bodies.
    The translator ([harness/xlate] + [harness/gen/translate.py]) maps the *real*
    expansion of every corpus declaration into this type on every run.

    [eval] is a dynamically typed big-step semantics with two profiles
    ([checked = true]: overflow checks on, as in the dev profile;
     [checked = false]: wrapping, as in release).  Every wrap is explicit.
    [Stuck] means "ill-typed or outside the fragment" and is never a value.

    This file is a hand-written model of rustc's integer semantics and of
    arbitrary-int 1.3.0 ([extract_uS], [new], [value]); it is validated on every run by
    differential execution against the compiled code (the behavioural tie). *)
From BB Require Import Bits.
From Coq Require Export String.
Open Scope N_scope.

(** ** Types and values *)

Inductive ity :=
| TU (w : N)        (* u8 u16 u32 u64 u128 *)
| TI (w : N)        (* i8 .. i128; values are carried as two's-complement patterns *)
| TUsize            (* usize, 64 bits on the host *)
| TAU (st n : N)    (* arbitrary_int::UInt<u{st}, n> *)
| TLit.             (* integer literal without suffix: adopts the type of its context *)

Definition width (t : ity) : N :=
  match t with TU w | TI w => w | TUsize => 64 | TAU _ n => n | TLit => 128 end.

Definition ity_eqb (a b : ity) : bool :=
  match a, b with
  | TU x, TU y | TI x, TI y => x =? y
  | TUsize, TUsize | TLit, TLit => true
  | TAU s n, TAU s' n' => (s =? s') && (n =? n')
  | _, _ => false
  end.

Lemma ity_eqb_eq a b : ity_eqb a b = true -> a = b.
Proof.
  destruct a, b; cbn; intros H; try discriminate; try reflexivity.
  - f_equal; lia.
  - f_equal; lia.
  - apply andb_prop in H. destruct H. f_equal; lia.
Qed.
Lemma ity_eqb_refl a : ity_eqb a a = true.
Proof. destruct a; cbn; rewrite ?N.eqb_refl; reflexivity. Qed.

Inductive value :=
| VInt (t : ity) (n : N)               (* bit pattern, [n < 2^width t] *)
| VBool (b : bool)
| VCustom (ty : string) (raw : value). (* a value of the user type [ty] whose raw value is [raw]:
                                          [ty::new_with_raw_value(raw)] / an object with [raw_value() = raw] *)

Fixpoint wf_value (v : value) : Prop :=
  match v with
  | VInt t n => n < 2 ^ width t
  | VBool _ => True
  | VCustom _ r => wf_value r
  end.

Inductive res (A : Type) := Ok (x : A) | Panic | Stuck.
Arguments Ok {A} x.
Arguments Panic {A}.
Arguments Stuck {A}.

Definition bind {A B} (r : res A) (f : A -> res B) : res B :=
  match r with Ok x => f x | Panic => Panic | Stuck => Stuck end.

Lemma bind_ok {A B} (r : res A) (f : A -> res B) y :
  bind r f = Ok y -> exists x, r = Ok x /\ f x = Ok y.
Proof. destruct r; cbn; intros H; try discriminate. eauto. Qed.

(** ** Syntax *)

Inductive binop := OShl | OShr | OAnd | OOr | OXor | OAdd | OSub | OMul | OLt | ONe | OEq.

Inductive expr :=
| ERaw                                    (* self.raw_value *)
| EIdx                                    (* index *)
| EArg                                    (* field_value (accessors) / value (new_with_raw_value) *)
| EVar (x : string)                       (* effective_index, temp, MASK, CLEAR_MASK, extracted_bits, ... *)
| ELit (t : ity) (n : N)
| EBool (b : bool)
| EBin (op : binop) (a b : expr)
| ENot (a : expr)
| ECast (a : expr) (t : ity)
| EIf (c a b : expr)
| ELet (x : string) (a body : expr)       (* let x = a; body   and   const X: T = a; body *)
| EAssert (c body : expr)                 (* assert!(c); body *)
| EExtract (src n : N) (a start : expr)   (* arbitrary_int::u{n}::extract_u{src}(a, start) *)
| EUNew (st n : N) (a : expr)             (* UInt::<u{st}, n>::new(a)   /   u{n}::new(a) *)
| EUValue (a : expr)                      (* a.value() *)
| ECustomNew (ty : string) (a : expr)     (* ty::new_with_raw_value(a) *)
| ECustomRaw (a : expr)                   (* a.raw_value() on a user type *)
| EUnsupported (tokens : string)
| EWrapBin (op : binop) (a b : expr)      (* a.wrapping_shl(b), wrapping_shr, wrapping_add, wrapping_sub, wrapping_mul:
                                             the operator with overflow checks off, whatever the profile *)
| EDebugAssert (c body : expr).           (* debug_assert!(c); body — the condition is evaluated only when debug
                                             assertions are on (they are in the checked profile) *)

(** ** Semantics *)

(** Smallest native width holding [n] bits: the storage type of [arbitrary_int::u{n}]
    and of a bitfield over [u{n}]. *)
Definition storage (n : N) : N :=
  if n <=? 8 then 8 else if n <=? 16 then 16 else if n <=? 32 then 32
  else if n <=? 64 then 64 else 128.

(** operand types of a binary operator: a literal takes the other side's type *)
Definition unify (a b : ity) : option ity :=
  match a, b with
  | TLit, TLit => None          (* rustc would fall back to i32; never emitted *)
  | TLit, t | t, TLit => Some t
  | _, _ => if ity_eqb a b then Some a else None
  end.

(** types on which the emitted code computes *)
Definition is_uint (t : ity) : bool := match t with TU _ | TUsize => true | _ => false end.
Definition is_shift_amount (t : ity) : bool := match t with TU _ | TUsize | TLit => true | _ => false end.

(** arithmetic on two patterns of the unsigned type [t] *)
Definition arith (checked : bool) (op : binop) (t : ity) (x y : N) : res value :=
  let w := width t in
  match op with
  | OAnd => Ok (VInt t (N.land x y))
  | OOr => Ok (VInt t (N.lor x y))
  | OXor => Ok (VInt t (N.lxor x y))
  | OAdd => if x + y <? 2 ^ w then Ok (VInt t (x + y))
            else if checked then Panic else Ok (VInt t (wrap w (x + y)))
  | OSub => if y <=? x then Ok (VInt t (x - y))
            else if checked then Panic else Ok (VInt t (wrap w (x + 2 ^ w - y)))
  | OMul => if x * y <? 2 ^ w then Ok (VInt t (x * y))
            else if checked then Panic else Ok (VInt t (wrap w (x * y)))
  | OLt => Ok (VBool (x <? y))
  | ONe => Ok (VBool (negb (x =? y)))
  | OEq => Ok (VBool (x =? y))
  | OShl | OShr => Stuck
  end.

Definition shift (checked : bool) (left : bool) (t : ity) (x s : N) : res value :=
  let w := width t in
  let go (k : N) := if left then wrap w (N.shiftl x k) else N.shiftr x k in
  if s <? w then Ok (VInt t (go s))
  else if checked then Panic else Ok (VInt t (go (s mod w))).

Definition binop_eval (checked : bool) (op : binop) (a b : value) : res value :=
  match a, b with
  | VInt ta x, VInt tb y =>
      match op with
      | OShl | OShr =>
          if is_uint ta && is_shift_amount tb
          then shift checked (match op with OShl => true | _ => false end) ta x y
          else Stuck
      | _ =>
          match unify ta tb with
          | Some t => if is_uint t && (x <? 2 ^ width t) && (y <? 2 ^ width t)
                      then arith checked op t x y else Stuck
          | None => Stuck
          end
      end
  | _, _ => Stuck
  end.

Definition is_int_target (t : ity) : bool := match t with TU _ | TI _ | TUsize => true | _ => false end.

Definition cast_eval (v : value) (t : ity) : res value :=
  if negb (is_int_target t) then Stuck else
  let w' := width t in
  match v with
  | VInt (TU w) x => Ok (VInt t (wrap w' x))
  | VInt TUsize x => Ok (VInt t (wrap w' x))
  | VInt (TI w) x =>
      if w' <=? w then Ok (VInt t (wrap w' x))
      else if N.testbit x (w - 1) then Ok (VInt t (wrap w' (x + (2 ^ w' - 2 ^ w))))
      else Ok (VInt t x)
  | VBool b => Ok (VInt t (wrap w' (if b then 1 else 0)))
  | _ => Stuck
  end.

Definition not_eval (v : value) : res value :=
  match v with
  | VInt t x => if is_int_target t then Ok (VInt t (notw (width t) x)) else Stuck
  | VBool b => Ok (VBool (negb b))
  | _ => Stuck
  end.

Definition extract_eval (src n : N) (a s : value) : res value :=
  match a, s with
  | VInt (TU w) x, VInt ts k =>
      if (w =? src) && (match ts with TUsize | TLit => true | _ => false end) then
        if k + n <=? src then Ok (VInt (TAU (storage n) n) (bitsN k n x)) else Panic
      else Stuck
  | _, _ => Stuck
  end.

Definition unew_eval (st n : N) (a : value) : res value :=
  match a with
  | VInt t x =>
      if (match t with TU w => w =? st | TLit => x <? 2 ^ st | _ => false end) then
        if x <? 2 ^ n then Ok (VInt (TAU st n) x) else Panic
      else Stuck
  | _ => Stuck
  end.

Definition uvalue_eval (a : value) : res value :=
  match a with
  | VInt (TAU st n) x => if n <=? st then Ok (VInt (TU st) x) else Stuck
  | _ => Stuck
  end.

Record env := mkEnv {
  e_S : N;            (* width of the storage integer behind self.raw_value *)
  e_raw : N;          (* self.raw_value *)
  e_idx : N;          (* index (arrays) *)
  e_arg : value;      (* field_value / value *)
  e_vars : list (string * value)
}.

Fixpoint lookup {A} (x : string) (l : list (string * A)) : option A :=
  match l with
  | [] => None
  | (y, v) :: l' => if String.eqb x y then Some v else lookup x l'
  end.

Definition bind_var (x : string) (v : value) (ρ : env) : env :=
  mkEnv (e_S ρ) (e_raw ρ) (e_idx ρ) (e_arg ρ) ((x, v) :: e_vars ρ).

Section Eval.
Variable checked : bool.

Fixpoint eval (ρ : env) (e : expr) : res value :=
  match e with
  | ERaw => Ok (VInt (TU (e_S ρ)) (e_raw ρ))
  | EIdx => Ok (VInt TUsize (e_idx ρ))
  | EArg => Ok (e_arg ρ)
  | EVar x => match lookup x (e_vars ρ) with Some v => Ok v | None => Stuck end
  | ELit t n => if n <? 2 ^ width t then Ok (VInt t n) else Stuck
  | EBool b => Ok (VBool b)
  | EBin op a b => bind (eval ρ a) (fun x => bind (eval ρ b) (fun y => binop_eval checked op x y))
  | ENot a => bind (eval ρ a) not_eval
  | ECast a t => bind (eval ρ a) (fun x => cast_eval x t)
  | EIf c a b => bind (eval ρ c) (fun x =>
      match x with VBool true => eval ρ a | VBool false => eval ρ b | _ => Stuck end)
  | ELet x a body => bind (eval ρ a) (fun v => eval (bind_var x v ρ) body)
  | EAssert c body => bind (eval ρ c) (fun x =>
      match x with VBool true => eval ρ body | VBool false => Panic | _ => Stuck end)
  | EExtract src n a s => bind (eval ρ a) (fun x => bind (eval ρ s) (fun k => extract_eval src n x k))
  | EUNew st n a => bind (eval ρ a) (unew_eval st n)
  | EUValue a => bind (eval ρ a) uvalue_eval
  | ECustomNew ty a => bind (eval ρ a) (fun v => Ok (VCustom ty v))
  | ECustomRaw a => bind (eval ρ a) (fun v => match v with VCustom _ r => Ok r | _ => Stuck end)
  | EUnsupported _ => Stuck
  | EWrapBin op a b => bind (eval ρ a) (fun x => bind (eval ρ b) (fun y => binop_eval false op x y))
  | EDebugAssert c body =>
      if checked then
        bind (eval ρ c) (fun x =>
          match x with VBool true => eval ρ body | VBool false => Panic | _ => Stuck end)
      else eval ρ body
  end.
End Eval.
