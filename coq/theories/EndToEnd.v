(** * EndToEnd.v — whatever the model of [parse_field] accepts, the model of [codegen.rs] implements as the
      abstract register: getters, any history of writes, the raw value. *)
From BB Require Import Bits Expr Sym Spec Validate Parse ParseCorrect Prog History Gen GenCorrect.
Open Scope N_scope.

Theorem macro_model_end_to_end : forall d,
  accept_decl d = true ->
  Forall (fun f => nodup_bits (ranges f) = true /\ count f < 2 ^ 64) (d_fields d) ->
  (* every getter *)
  (forall c f i raw, In f (d_fields d) -> i < count f -> raw < 2 ^ d_W d ->
     eval c (mk_env (d_W d) raw i (VBool false)) (gen_getter (storage (d_W d)) f)
     = Ok (present (f_ty f) (spec_get f i raw)))
  (* every finite history of writes *)
  /\ (forall c ops raw, Forall (hop_ok d) ops -> raw < 2 ^ d_W d ->
        model_run c d raw ops = Ok (run (map hop_wop ops) raw) /\ run (map hop_wop ops) raw < 2 ^ d_W d)
  (* the raw value in and out *)
  /\ (forall c raw, raw < 2 ^ d_W d ->
        eval c (mk_env (d_W d) raw 0 (VBool false)) (gen_raw_value (storage (d_W d)) (d_W d)) = Ok (VInt (base_ty (d_W d)) raw)).
Proof.
  intros d Ha HF. rewrite accept_decl_iff_valid in Ha.
  destruct (valid_decl_parts d Ha) as (HW & Hvf & _ & _). rewrite forallb_forall in Hvf. rewrite Forall_forall in HF.
  split; [|split].
  - intros c f i raw Hin Hi Hraw. destruct (HF f Hin) as [Hn Hc].
    now apply model_getter_correct; try apply Hvf.
  - intros c ops raw Hops Hraw. apply model_history; try assumption.
    rewrite Forall_forall. intros f Hin. now destruct (HF f Hin).
  - intros c raw Hraw. now apply gen_raw_value_correct.
Qed.

Print Assumptions macro_model_end_to_end.
