"""Stages shared by all checks, cached per (repo tree, tier, seed) under /verif/.work/<key>/.

  corpus -> Rust crate -> [real macro + rustc: verdicts, dumps] -> xlate -> Coq case shards -> coqc
"""
import hashlib, json, os, re, shutil, subprocess, sys, time, fcntl
from concurrent.futures import ThreadPoolExecutor
from . import corpus, decls, translate

VERIF = os.path.dirname(os.path.dirname(os.path.dirname(os.path.abspath(__file__))))
REPO = os.environ.get('VERIF_REPO', '/repo')
WORK = os.path.join(VERIF, '.work')
COQ = os.path.join(VERIF, 'coq')
XLATE_DIR = os.path.join(VERIF, 'harness', 'xlate')
CARGO_ENV = {'CARGO_NET_OFFLINE': 'true', 'CARGO_INCREMENTAL': '0'}
NSHARDS = 16
CHUNK = 400      # scenarios per vm_compute term


def lockfile():
    """the repository's Cargo.lock (untracked there); a copy shipped with the framework is used when it is absent"""
    p = os.path.join(REPO, 'Cargo.lock')
    return p if os.path.exists(p) else os.path.join(VERIF, 'harness', 'Cargo.lock.fallback')


def log(*a):
    print('[bbv]', *a, file=sys.stderr, flush=True)


def run(cmd, cwd=None, env=None, timeout=1800, check=True, capture=True):
    e = dict(os.environ)
    e.update(CARGO_ENV)
    if env:
        e.update(env)
    t0 = time.time()
    p = subprocess.run(cmd, cwd=cwd, env=e, timeout=timeout, stdout=subprocess.PIPE if capture else None,
                       stderr=subprocess.PIPE if capture else None, text=True)
    if check and p.returncode != 0:
        raise RuntimeError('command failed (%d): %s\n%s\n%s' % (p.returncode, ' '.join(cmd), (p.stdout or '')[-3000:],
                                                               (p.stderr or '')[-3000:]))
    return p


def repo_tree_hash():
    h = hashlib.sha256()
    roots = [os.path.join(REPO, 'bitbybit', 'src'), os.path.join(REPO, 'bitbybit', 'Cargo.toml'),
             os.path.join(REPO, 'Cargo.toml'), os.path.join(REPO, 'Cargo.lock')]
    files = []
    for r in roots:
        if os.path.isdir(r):
            for dp, dn, fn in os.walk(r):
                for f in fn:
                    files.append(os.path.join(dp, f))
        elif os.path.exists(r):
            files.append(r)
    for f in sorted(files):
        h.update(os.path.relpath(f, REPO).encode())
        h.update(b'\0')
        h.update(open(f, 'rb').read())
        h.update(b'\0')
    return h.hexdigest()


def framework_hash():
    h = hashlib.sha256()
    h.update(open(os.path.join(COQ, '_CoqProject'), 'rb').read())
    for root in (os.path.join(VERIF, 'harness', 'bbv'), os.path.join(COQ, 'theories'),
                 os.path.join(XLATE_DIR, 'src')):
        for dp, dn, fn in os.walk(root):
            if '__pycache__' in dp:
                continue
            for f in sorted(fn):
                if f.endswith(('.py', '.v', '.rs')):
                    h.update(f.encode())
                    h.update(open(os.path.join(dp, f), 'rb').read())
    return h.hexdigest()


class Workspace:
    def __init__(self, tier, seed, extra=''):
        self.tier = tier
        self.seed = seed
        self.repo_hash = repo_tree_hash()
        key = hashlib.sha256(('%s|%s|%s|%s|%s' % (self.repo_hash, framework_hash(), tier, seed, extra)).encode()).hexdigest()[:20]
        self.key = key
        self.dir = os.path.join(WORK, key)
        os.makedirs(self.dir, exist_ok=True)
        self.target = os.path.join(WORK, 'target')
        os.makedirs(self.target, exist_ok=True)
        self._lock = None

    def path(self, *a):
        return os.path.join(self.dir, *a)

    def lock(self):
        self._lock = open(self.path('.lock'), 'w')
        fcntl.flock(self._lock, fcntl.LOCK_EX)

    def unlock(self):
        if self._lock:
            fcntl.flock(self._lock, fcntl.LOCK_UN)
            self._lock.close()
            self._lock = None

    def done(self, stage):
        return os.path.exists(self.path(stage + '.done'))

    def mark(self, stage, data=None):
        with open(self.path(stage + '.done'), 'w') as f:
            json.dump(data if data is not None else {}, f)

    def load(self, stage):
        return json.load(open(self.path(stage + '.done')))


# ------------------------------------------------------------------------------------------------
# stage: framework build (Coq theories, xlate)

def ensure_framework():
    """build the Coq development and the translator if needed (idempotent, locked)"""
    os.makedirs(WORK, exist_ok=True)
    with open(os.path.join(WORK, '.framework.lock'), 'w') as lk:
        fcntl.flock(lk, fcntl.LOCK_EX)
        stamp = os.path.join(WORK, 'framework.stamp')
        fh = framework_hash()
        if os.path.exists(stamp) and open(stamp).read() == fh and \
                os.path.exists(os.path.join(WORK, 'xlate-target', 'release', 'xlate')):
            return
        t0 = time.time()
        log('building Coq development')
        run(['coq_makefile', '-f', '_CoqProject', '-o', 'Makefile'], cwd=COQ, timeout=120)
        p = run(['make', '-j16'], cwd=COQ, timeout=3000, check=False)
        open(os.path.join(WORK, 'coq-build.log'), 'w').write((p.stdout or '') + (p.stderr or ''))
        if p.returncode != 0:
            raise RuntimeError('Coq build failed:\n' + (p.stdout or '')[-2000:] + (p.stderr or '')[-4000:])
        log('building xlate')
        run(['cargo', 'build', '--release', '--offline'], cwd=XLATE_DIR,
            env={'CARGO_TARGET_DIR': os.path.join(WORK, 'xlate-target')}, timeout=1800)
        open(stamp, 'w').write(fh)
        log('framework built in %.1fs' % (time.time() - t0))


class cargo_lock:
    """the cargo target directory is shared by all workspaces: serialise build + copy of its artefacts"""
    def __enter__(self):
        os.makedirs(WORK, exist_ok=True)
        self.f = open(os.path.join(WORK, '.cargo.lock'), 'w')
        fcntl.flock(self.f, fcntl.LOCK_EX)

    def __exit__(self, *a):
        fcntl.flock(self.f, fcntl.LOCK_UN)
        self.f.close()


def xlate_bin():
    return os.path.join(WORK, 'xlate-target', 'release', 'xlate')


# ------------------------------------------------------------------------------------------------
# stage: corpus

def source_constants():
    """every integer literal (1..=200) that occurs in the macro's source files of the tree under test"""
    out = set()
    root = os.path.join(REPO, 'bitbybit', 'src')
    for dp, dn, fn in os.walk(root):
        for f in fn:
            if f.endswith('.rs') and f != 'verif_hooks.rs':
                txt = open(os.path.join(dp, f), errors='replace').read()
                for m in re.finditer(r'(?<![\w.])(0x[0-9a-fA-F_]+|0b[01_]+|[0-9][0-9_]*)(?:_?(?:u|i)(?:8|16|32|64|128|size))?\b', txt):
                    t = m.group(1).replace('_', '')
                    try:
                        v = int(t, 0) if t.startswith(('0x', '0b')) else int(t)
                    except ValueError:
                        continue
                    if 1 <= v <= 200:
                        out.add(v)
    return sorted(out)


def stage_corpus(ws):
    if ws.done('corpus'):
        return json.load(open(ws.path('corpus.json')))
    consts = source_constants()
    ds = corpus.generate(ws.seed, ws.tier, consts)
    json.dump(ds, open(ws.path('corpus.json'), 'w'))
    ws.mark('corpus', {'n': len(ds), 'source_constants': consts})
    log('corpus: %d declarations; integer literals in the macro source: %s' % (len(ds), consts))
    return ds


# ------------------------------------------------------------------------------------------------
# stage: real macro + rustc (verdicts, dumps)

CARGO_TOML = '''[package]
name = "corpus"
version = "0.1.0"
edition = "2021"

[workspace]

[dependencies]
bitbybit = { path = "%s/bitbybit", features = ["verif_hooks"] }
arbitrary-int = "1.3.0"

[profile.dev]
overflow-checks = true
debug-assertions = true
opt-level = 0
debug = false

[profile.release]
overflow-checks = false
debug-assertions = false
opt-level = 3
debug = false
'''

LIB_HEADER = '''#![allow(warnings)]
pub use arbitrary_int::*;
'''


def write_lib(ws, ds, skip=(), crate='crate'):
    """-> {name: (first_line, last_line)}"""
    lines = LIB_HEADER.rstrip('\n').split('\n')
    spans = {}
    for d in ds:
        if d['name'] in skip:
            continue
        first = len(lines) + 1
        lines.append('// ---- %s' % d['name'])
        lines += decls.rust_decl(d)
        spans[d['name']] = (first, len(lines))
    os.makedirs(ws.path(crate, 'src'), exist_ok=True)
    open(ws.path(crate, 'src', 'lib.rs'), 'w').write('\n'.join(lines) + '\n')
    return spans


def deps_of(d):
    out = set()
    if d['kind'] == 'bitfield':
        for f in d['fields']:
            if f['ty']['k'] == 'custom':
                out.add(f['ty']['name'])
    return out


def cargo_check(ws, spans, crate='crate', dumps='dumps', extra=()):
    """-> ({name: [messages]}, [unattributed])"""
    with cargo_lock():
        p = run(['cargo', 'check', '--offline', '--lib', '--message-format=json'] + list(extra), cwd=ws.path(crate),
                env={'BITBYBIT_VERIF_DUMP_DIR': ws.path(dumps), 'CARGO_TARGET_DIR': ws.target}, check=False, timeout=3000)
    errs = {}
    other = []
    for line in p.stdout.splitlines():
        if not line.startswith('{'):
            continue
        try:
            m = json.loads(line)
        except ValueError:
            continue
        if m.get('reason') != 'compiler-message':
            continue
        if m.get('target', {}).get('name') not in ('corpus', 'corpusrel'):
            if m['message'].get('level') == 'error':
                other.append({'msg': m['message'].get('message'), 'target': m.get('target', {}).get('name')})
            continue
        msg = m['message']
        if msg.get('level') != 'error':
            continue
        prim = [s for s in msg.get('spans', []) if s.get('is_primary')]
        if not prim:
            if msg.get('message', '').startswith('aborting due to'):
                continue
            other.append({'msg': msg.get('message')})
            continue
        hit = None
        for s in prim:
            # follow macro expansion back to the call site inside the corpus file
            chain = []
            cur = s
            while cur is not None:
                chain.append(cur)
                cur = (cur.get('expansion') or {}).get('span')
            for c in chain:
                if not c['file_name'].endswith('lib.rs'):
                    continue
                ln = c['line_start']
                for name, (a, b) in spans.items():
                    if a <= ln <= b:
                        hit = name
                        break
                if hit:
                    break
            if hit:
                break
        if hit:
            errs.setdefault(hit, []).append({'msg': msg.get('message'), 'code': (msg.get('code') or {}).get('code'),
                                             'line': prim[0]['line_start']})
        else:
            other.append({'msg': msg.get('message'), 'spans': [(s['file_name'], s['line_start']) for s in prim]})
    return errs, other, p.returncode, p.stderr[-2000:]


def stage_verdicts(ws, ds):
    """compile the corpus with the real macro; multi-pass so that a later-phase error is never masked"""
    if ws.done('verdicts'):
        return ws.load('verdicts')
    t0 = time.time()
    shutil.rmtree(ws.path('crate'), ignore_errors=True)
    shutil.rmtree(ws.path('dumps'), ignore_errors=True)
    os.makedirs(ws.path('crate', 'src'))
    os.makedirs(ws.path('dumps'))
    open(ws.path('crate', 'Cargo.toml'), 'w').write(CARGO_TOML % REPO)
    shutil.copy(lockfile(), ws.path('crate', 'Cargo.lock'))
    rejected = {}
    cascade = set()
    unattributed = []
    passes = 0
    while True:
        passes += 1
        skip = set(rejected) | cascade
        spans = write_lib(ws, ds, skip)
        errs, other, rc, stderr = cargo_check(ws, spans)
        if other:
            unattributed += other
        if rc == 0:
            break
        if not errs:
            raise RuntimeError('cargo check failed without attributable errors:\n%s\n%s' % (other, stderr))
        for name, msgs in errs.items():
            rejected[name] = msgs
        # declarations that use a rejected type cannot be judged on their own
        changed = True
        while changed:
            changed = False
            for d in ds:
                if d['name'] not in rejected and d['name'] not in cascade and \
                        deps_of(d) & (set(rejected) | cascade):
                    cascade.add(d['name'])
                    changed = True
        if passes > 12:
            raise RuntimeError('verdict passes do not converge')
    dumped = set()
    for f in os.listdir(ws.path('dumps')):
        m = re.fullmatch(r'(bitfield|bitenum)\.(.+)\.rs', f)
        if m:
            dumped.add(m.group(2))
    res = {'rejected': rejected, 'cascade': sorted(cascade), 'unattributed': unattributed, 'passes': passes,
           'dumped': sorted(dumped), 'accepted': [d['name'] for d in ds if d['name'] not in rejected and d['name'] not in cascade],
           'wall_s': time.time() - t0}
    ws.mark('verdicts', res)
    log('verdicts: %d accepted, %d rejected, %d cascade, %d passes, %.1fs' % (
        len(res['accepted']), len(rejected), len(cascade), passes, res['wall_s']))
    return res


# ------------------------------------------------------------------------------------------------
# stage: the decision functions of the macro, translated from its source and proved equal to the model's

SLICE_FILES = ['bitfield/mod.rs', 'bit_size.rs', 'bitenum.rs', 'bitfield/parsing.rs']


def probe_check(ws, lib):
    """compile one small library against the real macro -> (accepted, first error messages)"""
    pdir = ws.path('srcslice', 'probe')
    os.makedirs(os.path.join(pdir, 'src'), exist_ok=True)
    open(os.path.join(pdir, 'Cargo.toml'), 'w').write(CARGO_TOML % REPO)
    shutil.copy(lockfile(), os.path.join(pdir, 'Cargo.lock'))
    open(os.path.join(pdir, 'src', 'lib.rs'), 'w').write(lib)
    with cargo_lock():
        p = run(['cargo', 'check', '--offline', '--lib', '--message-format=json'], cwd=pdir,
                env={'CARGO_TARGET_DIR': ws.target}, check=False, timeout=1200)
    msgs = []
    for line in p.stdout.splitlines():
        if line.startswith('{'):
            try:
                m = json.loads(line)
            except ValueError:
                continue
            if m.get('reason') == 'compiler-message' and m['message'].get('level') == 'error' and \
                    not m['message'].get('message', '').startswith('aborting due to'):
                msgs.append(m['message'].get('message'))
    return p.returncode == 0, msgs[:3]


def stage_srcslice(ws):
    if ws.done('srcslice'):
        return ws.load('srcslice')
    from . import srcmodel
    from concurrent.futures import ThreadPoolExecutor
    t0 = time.time()
    sdir = ws.path('srcslice')
    shutil.rmtree(sdir, ignore_errors=True)
    os.makedirs(sdir)
    xl = {}
    for rel in SLICE_FILES:
        p = run([xlate_bin(), os.path.join(REPO, 'bitbybit', 'src', rel)], check=False, timeout=120)
        try:
            j = json.loads(p.stdout.splitlines()[0])
            if j.get('ok'):
                xl[rel] = j
        except (ValueError, IndexError):
            pass
    units = srcmodel.generate(xl)

    def compile_unit(iu):
        i, u = iu
        if 'coq' not in u:
            u['status'] = 'untranslatable'
            return
        f = os.path.join(sdir, 'U%d.v' % i)
        open(f, 'w').write(u['coq'])
        u['file'] = f
        try:
            p = subprocess.run(['coqc', '-noglob', '-Q', os.path.join(COQ, 'theories'), 'BB', f], stdout=subprocess.PIPE,
                               stderr=subprocess.PIPE, text=True, timeout=600)
            out, err, rc = p.stdout, p.stderr, p.returncode
        except subprocess.TimeoutExpired:
            out, err, rc = '', 'coqc timed out', 124
        m = re.search(r'first_diff = (.*?)\n\s+: ', out, re.S)
        u['first_diff'] = None if m is None or re.sub(r'None|[(),\s]', '', m.group(1)) == '' else ' '.join(m.group(1).split())
        u['assumptions'] = 'closed' if 'Closed under the global context' in out else None
        # proved: the for-all theorem checked.  differs: Coq exhibits an argument on which the translated function and the
        # model disagree.  unproved: no such argument among those enumerated, but the proof script did not go through.
        u['status'] = 'proved' if rc == 0 and u['assumptions'] == 'closed' and u['first_diff'] is None else \
            'differs' if u['first_diff'] is not None else 'unproved'
        if u['status'] != 'proved':
            u['coqc'] = (err or out)[-1500:]
        del u['coq']
    with ThreadPoolExecutor(8) as ex:
        list(ex.map(compile_unit, enumerate(units)))
    # a unit that no longer checks: look for a declaration on which the real macro departs from the documented rules
    for u in units:
        if u['status'] == 'proved':
            continue
        u['probes'] = 0
        u['witness'] = None
        for pr in srcmodel.probes_for(u['label'], u.get('first_diff')):
            u['probes'] += 1
            acc, msgs = probe_check(ws, pr['lib'])
            if acc != pr['expect_accept']:
                u['witness'] = {'what': pr['what'] + (' — but it is rejected' if pr['expect_accept'] else ' — but it compiles'),
                                'program': pr['lib'], 'rustc': msgs}
                break
    res = {'units': units, 'wall_s': time.time() - t0,
           'proved': sum(1 for u in units if u['status'] == 'proved'), 'n': len(units)}
    ws.mark('srcslice', res)
    log('source slice: %d/%d functions translated from the source and proved equal to the model for every argument, %.1fs' % (
        res['proved'], res['n'], res['wall_s']))
    return res


# ------------------------------------------------------------------------------------------------
# stage: translate dumps

def stage_xlate(ws, names):
    """-> {name: xlate json}"""
    out = ws.path('xlate.jsonl')
    if not ws.done('xlate'):
        files = []
        for n in names:
            for kind in ('bitfield', 'bitenum'):
                p = ws.path('dumps', '%s.%s.rs' % (kind, n))
                if os.path.exists(p):
                    files.append(p)
        open(ws.path('xlate.list'), 'w').write('\n'.join(files) + '\n')
        p = run([xlate_bin(), '--list', ws.path('xlate.list')], timeout=600)
        open(out, 'w').write(p.stdout)
        ws.mark('xlate', {'n': len(files)})
    res = {}
    for line in open(out):
        j = json.loads(line)
        m = re.search(r'(bitfield|bitenum)\.(.+)\.rs$', j['file'])
        res[m.group(2)] = j
    return res


def has_doc(attrs):
    return any(a['path'] == 'doc' for a in attrs)


def coq_program(name, xj):
    """xlate json of one bitfield expansion -> Coq `program` term"""
    if not xj.get('ok'):
        return '(mkProgram %s 0 [])' % translate.cstr(name)
    storage = 0
    fns = []
    for it in xj['items']:
        if it['kind'] == 'struct' and it['name'] == name:
            if len(it['fields']) == 1 and it['fields'][0]['name'] == 'raw_value':
                m = re.fullmatch(r'u(\d+)', it['fields'][0]['ty'])
                if m:
                    storage = int(m.group(1))
        if it['kind'] == 'impl' and it['self_ty'] == name and it['trait'] is None:
            for fi in it['items']:
                if fi['kind'] != 'fn':
                    continue
                selfk = ''
                params = []
                for p in fi['params']:
                    if 'self' in p:
                        selfk = p['self']
                    elif 'name' in p:
                        params.append((p['name'], translate.canon_ty(p['ty'])))
                    else:
                        params.append(('?', p.get('other', '?')))
                if fi.get('unsafe') or fi.get('async') or fi.get('generics'):
                    body = '(BOther "qualifiers")'
                else:
                    body = translate.tr_fn_body(fi, name)
                fns.append('(mkFn %s %s %s %s %s [%s] %s\n      %s)' % (
                    translate.cstr(fi['name']), decls.coq_bool(fi['vis'] == 'pub'), decls.coq_bool(fi['const']),
                    decls.coq_bool(has_doc(fi['attrs'])), translate.cstr(selfk),
                    '; '.join('(%s, %s)' % (translate.cstr(a), translate.cstr(b)) for a, b in params),
                    translate.cstr(translate.canon_ty(fi['ret'])), body))
    return '(mkProgram %s %d [\n    %s])' % (translate.cstr(name), storage, ';\n    '.join(fns))


# ------------------------------------------------------------------------------------------------
# stage: Coq obligations

CASE_HEADER = '''From BB Require Import Bits Expr Sym Spec Validate Enum Prog History Builder Surface Gen.
Open Scope N_scope.
Open Scope string_scope.
Set Printing Width 100000.
Set Printing Depth 1000000.
'''


def stage_obligations(ws, ds, verdicts, xl):
    """-> {name: [(label, ok)]} for every accepted bitfield declaration"""
    if ws.done('obligations'):
        return ws.load('obligations')
    t0 = time.time()
    cdir = ws.path('coq')
    shutil.rmtree(cdir, ignore_errors=True)
    os.makedirs(cdir)
    acc = set(verdicts['accepted'])
    todo = [d for d in ds if d['name'] in acc and d['name'] in xl and not d.get('unstructured')]
    shards = [todo[i::NSHARDS] for i in range(NSHARDS)]
    shards = [s for s in shards if s]

    def do_shard(k):
        sh = shards[k]
        src = [CASE_HEADER]
        entries = []
        synt = []
        for d in sh:
            if d['kind'] == 'bitfield':
                synt.append('(%s, syntactic_match d_%s p_%s)' % (translate.cstr(d['name']), d['name'], d['name']))
                src.append('Definition d_%s : decl :=\n  %s.' % (d['name'], decls.coq_decl(d)))
                src.append('Definition p_%s : program :=\n  %s.' % (d['name'], coq_program(d['name'], xl[d['name']])))
                src.append('Definition x_%s : extras :=\n  %s.' % (d['name'], translate.coq_extras(d['name'], xl[d['name']])))
                entries.append('(%s, all_obligations_of d_%s p_%s x_%s)' % (translate.cstr(d['name']), d['name'], d['name'], d['name']))
            else:
                src.append('Definition e_%s : enum_decl :=\n  %s.' % (d['name'], decls.coq_enum(d)))
                src.append('Definition ep_%s : enum_prog :=\n  %s.' % (d['name'], translate.coq_enum_prog(d['name'], xl[d['name']])))
                entries.append('(%s, check_enum e_%s ep_%s)' % (translate.cstr(d['name']), d['name'], d['name']))
        src.append('Definition all_obligations : list (string * list (string * bool)) := [\n  %s].' % ';\n  '.join(entries))
        src.append('Definition report := Eval vm_compute in all_obligations.')
        src.append('Print report.')
        src.append('Definition syntactic : list (string * list (string * bool)) := Eval vm_compute in [\n  %s].' % ';\n  '.join(synt))
        src.append('Print syntactic.')
        src.append('Theorem run_ok : forallb (fun r => forallb snd (snd r)) all_obligations = true.')
        src.append('Proof. vm_compute. reflexivity. Qed.')
        fn = os.path.join(cdir, 'cases_%d.v' % k)
        open(fn, 'w').write('\n'.join(src) + '\n')
        p = run(['coqc', '-noglob', '-Q', os.path.join(COQ, 'theories'), 'BB', fn], cwd=cdir, check=False, timeout=3000)
        return k, p.returncode, p.stdout, p.stderr

    res = {}
    kernel_ok = {}
    syn = {}
    with ThreadPoolExecutor(max_workers=16) as ex:
        for k, rc, out, err in ex.map(do_shard, range(len(shards))):
            open(os.path.join(cdir, 'cases_%d.out' % k), 'w').write(out + '\n---- stderr\n' + err)
            parsed = parse_report(out)
            for name, obs in (parse_report(out, 'syntactic') or []):
                syn[name] = obs
            if parsed is None:
                raise RuntimeError('cannot parse coqc output of shard %d:\n%s\n%s' % (k, out[-2000:], err[-3000:]))
            for name, obs in parsed:
                res[name] = obs
                kernel_ok[name] = (rc == 0)
            if rc != 0 and all(ok for _, obs in parsed for _, ok in obs):
                raise RuntimeError('coqc failed on shard %d although no obligation fails:\n%s' % (k, err[-3000:]))
    nsyn = sum(len(v) for v in syn.values())
    out = {'obligations': res, 'kernel_ok': kernel_ok, 'wall_s': time.time() - t0, 'shards': len(shards),
           'syntactic_match': {'bodies': nsyn, 'identical_to_model': sum(1 for v in syn.values() for _, ok in v if ok),
                               'differing': [[n, l] for n, v in syn.items() for l, ok in v if not ok][:20]}}
    ws.mark('obligations', out)
    log('obligations: %d programs, %d obligations, %d failing, %.1fs; generator model: %d of %d bodies syntactically identical' % (
        len(res), sum(len(v) for v in res.values()), sum(1 for v in res.values() for _, ok in v if not ok),
        out['wall_s'], out['syntactic_match']['identical_to_model'], nsyn))
    return out


def stage_decisions(ws, ds):
    """the rule (valid_decl / valid_enum) and the model of the macro's decision (accept_decl / enum_accept),
    evaluated inside Coq for every structured declaration -> {name: [valid, accept]}"""
    if ws.done('decisions'):
        return ws.load('decisions')
    t0 = time.time()
    cdir = ws.path('coqd')
    shutil.rmtree(cdir, ignore_errors=True)
    os.makedirs(cdir)
    todo = [d for d in ds if not d.get('unstructured')]
    # malformed attribute strings: the model of the argument parser (Tokens.v) gives its own verdict
    tok_todo = []
    for d in ds:
        if d.get('unstructured') and d['kind'] == 'bitfield' and not d.get('base_text') and len(d['fields']) == 1 \
                and d['fields'][0].get('attr_text'):
            t = decls.attr_tokens(d['fields'][0]['attr_text'])
            if t is not None:
                tok_todo.append((d, t))
    src = ['From BB Require Import Bits Spec Parse Tokens Enum Builder Surface.', 'From Coq Require Import String.', 'Open Scope string_scope.', 'Open Scope N_scope.',
           'Set Printing Width 100000.', 'Set Printing Depth 1000000.']
    entries = []
    for d in todo:
        if d['kind'] == 'bitfield':
            entries.append('(let d := %s in (%s, valid_decl d, accept_decl d, if accept_decl d then offered d else false))' % (
                decls.coq_decl(d), translate.cstr(d['name'])))      # the builder masks of a rejected declaration can be astronomically large
        else:
            entries.append('(let e := %s in (%s, valid_enum e, enum_accept e, false))' % (decls.coq_enum(d), translate.cstr(d['name'])))
    for d, (aname, toks) in tok_todo:
        known = aname in ('bit', 'bits')
        f = d['fields'][0]
        entries.append('(%s, false, %s, false)' % (translate.cstr(d['name']),
                       '(tokens_accepted %s %s %s)' % (decls.coq_bool(aname == 'bits'), decls.coq_bool(f.get('count') is not None), toks)
                       if known else 'false'))
    src.append('Definition decisions := Eval vm_compute in [\n  %s].' % ';\n  '.join(entries))
    src.append('Print decisions.')
    fn = os.path.join(cdir, 'decisions.v')
    open(fn, 'w').write('\n'.join(src) + '\n')
    p = run(['coqc', '-noglob', '-Q', os.path.join(COQ, 'theories'), 'BB', fn], cwd=cdir, timeout=3000)
    res = {}
    for m in re.finditer(r'\("([^"]*)",\s*(true|false),\s*(true|false),\s*(true|false)\)', p.stdout):
        res[m.group(1)] = [m.group(2) == 'true', m.group(3) == 'true', m.group(4) == 'true']
    if len(res) != len(todo) + len(tok_todo):
        raise RuntimeError('cannot parse decisions output (%d of %d)' % (len(res), len(todo) + len(tok_todo)))
    out = {'decisions': res, 'wall_s': time.time() - t0}
    ws.mark('decisions', out)
    return out


def parse_report(out, what='report'):
    m = re.search(what + r'\s*=\s*(\[.*?\])\s*:\s*list', out, re.S)
    if not m:
        return None
    txt = m.group(1)
    res = []
    # [("S1", [("get:f0", true); ...]); ...]
    for dm in re.finditer(r'\("([^"]*)",\s*\[(.*?)\]\)', txt, re.S):
        obs = [(a, b == 'true') for a, b in re.findall(r'\("([^"]*)",\s*(true|false)\)', dm.group(2))]
        res.append((dm.group(1), obs))
    return res


# ------------------------------------------------------------------------------------------------
# stage: behaviour (compiled real code in two profiles  vs  eval of the translation  vs  Spec.v)

def parse_coq_lists(txt):
    """'[([1; (-1)%Z], [..], [..]); ...]' -> python lists"""
    txt = txt.replace('%Z', '').replace('%N', '')
    txt = re.sub(r'\((-\d+)\)', r'\1', txt)
    txt = txt.replace(';', ',').replace('(', '[').replace(')', ']')
    return json.loads(txt)


def has_builder(xj, name):
    for it in xj.get('items', []):
        if it['kind'] == 'impl' and it['self_ty'] == name and it['trait'] is None:
            if any(fi['kind'] == 'fn' and fi['name'] == 'builder' for fi in it['items']):
                return True
    return False


def cargo_errors(cmd, cwd, env, fname):
    """run a cargo command with JSON messages -> (rc, {line of `fname`: [(code, message)]}, other messages, stderr tail)"""
    with cargo_lock():
        p = run(cmd + ['--message-format=json'], cwd=cwd, env=env, check=False, timeout=3000)
    errs, other = {}, []
    for line in p.stdout.splitlines():
        if not line.startswith('{'):
            continue
        try:
            m = json.loads(line)
        except ValueError:
            continue
        if m.get('reason') != 'compiler-message' or m['message'].get('level') != 'error':
            continue
        msg = m['message']
        if msg.get('message', '').startswith('aborting due to'):
            continue
        hit = False
        for sp in msg.get('spans', []):
            if not sp.get('is_primary'):
                continue
            cur = sp
            while cur is not None:
                if cur['file_name'].endswith(fname):
                    errs.setdefault(cur['line_start'], []).append(((msg.get('code') or {}).get('code'), msg.get('message')))
                    hit = True
                    break
                cur = (cur.get('expansion') or {}).get('span')
        if not hit:
            other.append(msg.get('message'))
    return p.returncode, errs, other, p.stderr[-3000:]


def build_runner(ws, todo, by_name, enums=(), builders=()):
    """build src/bin/runner.rs for the declarations in `todo` in the dev and release profiles.
    The runner uses every declaration through the API its declaration calls for; a declaration whose expansion no
    longer offers that API makes its part of the runner fail to compile: it is dropped and reported.
    -> {name: [rustc messages]} of the dropped declarations"""
    os.makedirs(ws.path('crate', 'src', 'bin'), exist_ok=True)
    from . import runner
    env = {'BITBYBIT_VERIF_DUMP_DIR': ws.path('dumps2'), 'CARGO_TARGET_DIR': ws.target}
    os.makedirs(ws.path('dumps2'), exist_ok=True)
    dropped = {}
    for attempt in range(8):
        t2 = [d for d in todo if d['name'] not in dropped]
        e2 = [d for d in enums if d['name'] not in dropped]
        text = runner.runner_source(t2, by_name, e2, builders)
        open(ws.path('crate', 'src', 'bin', 'runner.rs'), 'w').write(text)
        rc, errs, other, stderr = cargo_errors(['cargo', 'build', '--offline', '--bin', 'runner'], ws.path('crate'), env, 'runner.rs')
        if rc == 0:
            break
        spans = runner.owner_spans(text)
        new = {}
        src_lines = text.split('\n')
        for ln, e in errs.items():
            for nm, (a, b) in spans.items():
                if a <= ln <= b:
                    new.setdefault(nm, []).append({'line': src_lines[ln - 1].strip()[:300], 'rustc': e[:2]})
        if not new:
            raise RuntimeError('runner does not build and the errors cannot be attributed:\n%s\n%s' % (other[:3], stderr))
        dropped.update(new)
    else:
        raise RuntimeError('runner does not build after dropping %d declarations' % len(dropped))
    with cargo_lock():
        run(['cargo', 'build', '--offline', '--release', '--bin', 'runner'], cwd=ws.path('crate'), env=env, timeout=3000)
        run(['cargo', 'build', '--offline', '--bin', 'runner'], cwd=ws.path('crate'), env=env, timeout=3000)
        shutil.copy(os.path.join(ws.target, 'debug', 'runner'), ws.path('runner-dev'))
        shutil.copy(os.path.join(ws.target, 'release', 'runner'), ws.path('runner-release'))
    return dropped


def behaviour_compare(ws, todo, allcases, by_name, xl, subdir, max_mism=200):
    """run `allcases` ({decl name: [(r0, ops)]}) on the compiled real code (dev, release), on eval of the
    translated expansion (checked, unchecked) and on Spec.v; -> result dict with mismatches"""
    from . import cases
    bins = {'dev': ws.path('runner-dev'), 'release': ws.path('runner-release')}
    lines = []
    for d in todo:
        fidx = {f['name']: k for k, f in enumerate(d['fields'])}
        lines.append('D %s' % d['name'])
        for r0, ops in allcases[d['name']]:
            lines.append('N %x' % r0)
            for o in ops:
                if o[0] == 'G':
                    lines.append('G %d %d' % (fidx[o[1]], o[2]))
                elif o[0] in 'WS':
                    lines.append('%s %d %d %x' % (o[0], fidx[o[1]], o[2], o[3]))
                elif o[0] == 'B':
                    lines.append('B ' + ' '.join('%x' % x for x in o[1]))
                elif o[0] == 'I':
                    lines.append('I')
                else:
                    lines.append('R')
    cdir = ws.path(subdir)
    shutil.rmtree(cdir, ignore_errors=True)
    os.makedirs(cdir)
    cf = os.path.join(cdir, 'cases.txt')
    open(cf, 'w').write('\n'.join(lines) + '\n')
    outs = {}
    for prof, b in bins.items():
        p = subprocess.run([b], stdin=open(cf), stdout=subprocess.PIPE, stderr=subprocess.PIPE, text=True, timeout=3000)
        if p.returncode != 0:
            raise RuntimeError('runner (%s) failed: %s' % (prof, p.stderr[-2000:]))
        o = p.stdout.split('\n')
        if o and o[-1] == '':
            o.pop()
        if len(o) != len(lines):
            raise RuntimeError('runner (%s) produced %d lines for %d inputs' % (prof, len(o), len(lines)))
        outs[prof] = o
    rust = {}
    pos = 0
    for d in todo:
        pos += 1  # D
        per = []
        for r0, ops in allcases[d['name']]:
            pos += 1  # N
            per.append({p: outs[p][pos:pos + len(ops)] for p in outs})
            pos += len(ops)
        rust[d['name']] = per
    # the same cases through the translation and the specification, inside Coq
    order = sorted(todo, key=lambda d: -sum(len(o) + 1 for _, o in allcases[d['name']]))
    shards = [[] for _ in range(NSHARDS)]
    load = [0] * NSHARDS
    for d in order:
        k = load.index(min(load))
        shards[k].append(d)
        load[k] += sum(len(o) + 1 for _, o in allcases[d['name']])
    shards = [s for s in shards if s]

    def do_shard(k):
        sh = shards[k]
        src = [CASE_HEADER.replace('Surface Gen.', 'Surface Gen Run.')]
        for d in sh:
            src.append('Definition d_%s : decl :=\n  %s.' % (d['name'], decls.coq_decl(d)))
            src.append('Definition p_%s : program :=\n  %s.' % (d['name'], coq_program(d['name'], xl[d['name']])))
            sc = allcases[d['name']]
            # a single huge term overflows coqc's stack: evaluate in chunks
            for ci in range(0, max(len(sc), 1), CHUNK):
                part = sc[ci:ci + CHUNK]
                src.append("Definition r_%s__%d := Eval vm_compute in map (fun '(r0, ops) => run3 d_%s p_%s r0 ops) [\n  %s]." % (
                    d['name'], ci // CHUNK, d['name'], d['name'],
                    ';\n  '.join('(%d, [%s])' % (r0, '; '.join(cases.coq_op(o) for o in ops)) for r0, ops in part)))
                src.append('Print r_%s__%d.' % (d['name'], ci // CHUNK))
        fn = os.path.join(cdir, 'behav_%d.v' % k)
        open(fn, 'w').write('\n'.join(src) + '\n')
        p = run(['coqc', '-noglob', '-Q', os.path.join(COQ, 'theories'), 'BB', fn], cwd=cdir, check=False, timeout=3000)
        return k, p.returncode, p.stdout, p.stderr

    model = {}
    with ThreadPoolExecutor(max_workers=16) as ex:
        for k, rc, out, err in ex.map(do_shard, range(len(shards))):
            if rc != 0:
                raise RuntimeError('coqc failed on behaviour shard %d:\n%s' % (k, err[-3000:]))
            parts = {}
            for m in re.finditer(r'r_(\w+?)__(\d+)\s*=\s*(\[.*?\])\s*:\s*list', out, re.S):
                parts.setdefault(m.group(1), {})[int(m.group(2))] = parse_coq_lists(m.group(3))
            for nm, pp in parts.items():
                model[nm] = [x for ci in sorted(pp) for x in pp[ci]]
    mism = []
    n_ops = 0
    n_scen = 0
    stats = {'G': 0, 'W': 0, 'S': 0, 'R': 0, 'B': 0, 'I': 0, 'panic': 0, 'ok': 0, 'err': 0}
    distinct = set()

    def norm(s):
        if s == 'P':
            return -1, None
        if s.startswith('ok:'):
            return int(s[3:], 16), 'ok'
        if s.startswith('err:'):
            return int(s[4:], 16), 'err'
        if s in ('M', '?'):
            return -3, None
        return int(s, 16), None

    for d in todo:
        name = d['name']
        fbn = {f['name']: f for f in d['fields']}
        mres = model.get(name)
        if mres is None or len(mres) != len(allcases[name]):
            mism.append({'decl': name, 'what': 'model output missing'})
            continue
        for si, (r0, ops) in enumerate(allcases[name]):
            n_scen += 1
            chk, unchk, spec = mres[si]
            rs = rust[name][si]
            for oi, o in enumerate(ops):
                n_ops += 1
                stats[o[0]] += 1
                rd, tagd = norm(rs['dev'][oi])
                rr, tagr = norm(rs['release'][oi])
                ec = chk[oi] if oi < len(chk) else None
                eu = unchk[oi] if oi < len(unchk) else None
                sp = spec[oi] if oi < len(spec) else None
                bad = None
                if rd != sp or rr != sp:
                    bad = 'compiled code differs from the specification (Spec.v)'
                elif rd != rr or tagd != tagr:
                    bad = 'dev and release builds differ'
                elif rd != ec or rr != eu:
                    bad = 'compiled code differs from eval of the translated expansion'
                if rd == -1:
                    stats['panic'] += 1
                if tagd is not None and bad is None:
                    stats[tagd] += 1
                    f = fbn[o[1]]
                    ed = by_name.get(f['ty']['name'])
                    if ed is not None and ed['kind'] == 'enum':
                        valid = rd in cases.enum_valid_values(ed)
                        if (tagd == 'ok') != valid:
                            bad = 'Option<enum> getter returned %s for raw bits %d' % (tagd, rd)
                if o[0] == 'B':
                    distinct.add((name, 'builder', tuple(o[1])))
                elif o[0] not in 'RI' and (o[0] == 'G' or o[3] != 0 or r0 != 0):
                    distinct.add((name, o[1], o[0]))
                if bad:
                    concrete = bad.startswith(('compiled code differs from the specification', 'dev and release', 'Option<enum>'))
                    n_conc = sum(1 for x in mism if x is not None and x.get('_c'))
                    n_other = sum(1 for x in mism if x is not None and not x.get('_c'))
                    if (concrete and n_conc < max_mism) or (not concrete and n_other < max(1, max_mism // 4)):
                        mism.append({'_c': concrete, 'decl': name, 'scenario': si, 'r0': r0, 'ops': [list(x) for x in ops[:oi + 1]], 'op_index': oi,
                                     'field': o[1] if o[0] in 'GWS' else None, 'op': o[0], 'what': bad,
                                     'rust_dev': rs['dev'][oi], 'rust_release': rs['release'][oi],
                                     'eval_checked': ec, 'eval_unchecked': eu, 'spec': sp})
                    else:
                        mism.append(None)
                    break
    n_m = len(mism)
    mism = [m for m in mism if m is not None]
    mism.sort(key=lambda m: not m.get('_c', True))        # mismatches against the specification first
    for m in mism:
        m.pop('_c', None)
    return {'programs': len(todo), 'scenarios': n_scen, 'ops': n_ops, 'stats': stats, 'distinct': len(distinct),
            'mismatches': mism, 'n_mismatches': n_m}


def enum_inputs(d, rng, tier):
    n = d['bits']
    lim = 8 if tier == 'quick' else 14
    if n <= lim:
        return list(range(1 << n))
    m = (1 << n) - 1
    xs = {0, 1, m, m - 1, m >> 1, 1 << (n - 1)}
    for v in d['variants']:
        if v.get('discr') is not None:
            for y in (v['discr'] - 1, v['discr'], v['discr'] + 1):
                if 0 <= y <= m:
                    xs.add(y)
    for _ in range(20 if tier == 'quick' else 200):
        xs.add(rng.getrandbits(n))
    return sorted(xs)


def enum_compare(ws, enums, xl, tier, seed):
    """bitenum conversions: compiled code (dev, release) vs enum_new on the declaration vs the translated match"""
    import random

    def numeric(d):
        # an enum that should have been rejected (a discriminant that is not a literal) may be accepted by a changed macro:
        # its verdict is reported; its conversions cannot be tabulated
        try:
            for v in d['variants']:
                decls.discr_value(v)
            return True
        except (ValueError, TypeError):
            return False
    enums = [d for d in enums if numeric(d)]
    if not enums:
        return {'enums': 0, 'conversions': 0, 'mismatches': [], 'n_mismatches': 0}
    inputs = {}
    lines = []
    for d in enums:
        rng = random.Random('enum|%s|%s' % (seed, d['name']))
        xs = enum_inputs(d, rng, tier)
        inputs[d['name']] = xs
        lines.append('E %s' % d['name'])
        lines.append('V')
        for x in xs:
            lines.append('X %x' % x)
    cdir = ws.path('coqe')
    shutil.rmtree(cdir, ignore_errors=True)
    os.makedirs(cdir)
    cf = os.path.join(cdir, 'cases.txt')
    open(cf, 'w').write('\n'.join(lines) + '\n')
    outs = {}
    for prof in ('dev', 'release'):
        p = subprocess.run([ws.path('runner-' + prof)], stdin=open(cf), stdout=subprocess.PIPE, stderr=subprocess.PIPE, text=True,
                           timeout=3000)
        if p.returncode != 0:
            raise RuntimeError('runner (%s) failed: %s' % (prof, p.stderr[-2000:]))
        o = p.stdout.split('\n')
        if o and o[-1] == '':
            o.pop()
        if len(o) != len(lines):
            raise RuntimeError('runner (%s) produced %d lines for %d inputs' % (prof, len(o), len(lines)))
        outs[prof] = o
    shards = [enums[i::NSHARDS] for i in range(NSHARDS)]
    shards = [s for s in shards if s]

    def do_shard(k):
        src = ['From BB Require Import Bits Enum.', 'From Coq Require Import String.', 'Open Scope N_scope.', 'Open Scope string_scope.',
               'Set Printing Width 100000.', 'Set Printing Depth 1000000.']
        for d in shards[k]:
            n = d['name']
            src.append('Definition e_%s : enum_decl := %s.' % (n, decls.coq_enum(d)))
            src.append('Definition ep_%s : enum_prog := %s.' % (n, translate.coq_enum_prog(n, xl[n])))
            src.append('Definition r_%s := Eval vm_compute in map (fun x => (encode_new e_%s (enum_new e_%s x), '
                       'encode_new e_%s (ep_new ep_%s (live_name e_%s) x))) [%s].' % (n, n, n, n, n, n, '; '.join(str(x) for x in inputs[n])))
            src.append('Print r_%s.' % n)
        fn = os.path.join(cdir, 'enum_%d.v' % k)
        open(fn, 'w').write('\n'.join(src) + '\n')
        p = run(['coqc', '-noglob', '-Q', os.path.join(COQ, 'theories'), 'BB', fn], cwd=cdir, check=False, timeout=3000)
        return k, p.returncode, p.stdout, p.stderr

    model = {}
    with ThreadPoolExecutor(max_workers=16) as ex:
        for k, rc, out, err in ex.map(do_shard, range(len(shards))):
            if rc != 0:
                raise RuntimeError('coqc failed on enum shard %d:\n%s' % (k, err[-3000:]))
            for m in re.finditer(r'r_(\w+)\s*=\s*(\[.*?\])\s*:\s*list', out, re.S):
                model[m.group(1)] = parse_coq_lists(m.group(2))
    mism = []
    nconv = 0
    stats = {'ok': 0, 'err': 0, 'panic': 0, 'variants': 0}
    pos = 0
    for d in enums:
        n = d['name']
        pos += 1  # E
        vnames = [v['name'] for v in d['variants']]
        # raw values of the variants that exist
        expect_raws = ','.join('%s=%x' % (v['name'], decls.discr_value(v)) for v in d['variants'] if v.get('cfg') != 'any')
        for prof in outs:
            if outs[prof][pos] != expect_raws:
                mism.append({'decl': n, 'what': 'raw_value() of the variants differs from the discriminants', 'profile': prof,
                             'rust': outs[prof][pos], 'expected': expect_raws})
        stats['variants'] += len(vnames)
        pos += 1
        for xi, x in enumerate(inputs[n]):
            nconv += 1
            t1, a1, (t2, a2) = model[n][xi]

            def show(t, a):
                return 'ok:%s' % vnames[a] if t == 0 and a < len(vnames) else 'err:%x' % a if t == 1 else 'P'
            m1, m2 = show(t1, a1), show(t2, a2)
            rd, rr = outs['dev'][pos], outs['release'][pos]
            if rd.startswith('ok'):
                stats['ok'] += 1
            elif rd.startswith('err'):
                stats['err'] += 1
            else:
                stats['panic'] += 1
            if not (rd == rr == m1 == m2):
                if len(mism) < 100:
                    mism.append({'decl': n, 'x': x, 'what': 'new_with_raw_value(x) differs', 'rust_dev': rd, 'rust_release': rr,
                                 'model_decl': m1, 'model_translated': m2})
            pos += 1
    return {'enums': len(enums), 'conversions': nconv, 'stats': stats, 'mismatches': mism, 'n_mismatches': len(mism)}


def release_verdicts(ws, ds, verdicts):
    """the declarations rejected by the dev-profile build (macro compiled with overflow checks) must also be rejected
    when the proc-macro is compiled the way `cargo build --release` compiles it (no overflow checks)
    -> {'checked': n, 'accepted_in_release': [names]}"""
    rej = set(verdicts['rejected'])
    by_name = {d['name']: d for d in ds}
    need = set()
    for n in rej:
        need |= deps_of(by_name[n])
    sub = [d for d in ds if (d['name'] in rej or (d['name'] in need and d['name'] in verdicts['accepted']))]
    if not rej:
        return {'checked': 0, 'accepted_in_release': []}
    shutil.rmtree(ws.path('crate_rel'), ignore_errors=True)
    os.makedirs(ws.path('crate_rel', 'src'))
    os.makedirs(ws.path('dumps_rel'), exist_ok=True)
    open(ws.path('crate_rel', 'Cargo.toml'), 'w').write((CARGO_TOML % REPO).replace('name = "corpus"', 'name = "corpusrel"'))
    shutil.copy(lockfile(), ws.path('crate_rel', 'Cargo.lock'))
    still = {}
    for _ in range(12):
        spans = write_lib(ws, sub, set(still), crate='crate_rel')
        errs, other, rc, stderr = cargo_check(ws, spans, crate='crate_rel', dumps='dumps_rel', extra=['--release'])
        errs = {k: v for k, v in errs.items()}
        if rc == 0 or not errs:
            break
        still.update(errs)
    # "corpusrel" target name differs from "corpus": cargo_check filters on the target name
    accepted = sorted(n for n in rej if n not in still)
    return {'checked': len(rej), 'accepted_in_release': accepted}


def stage_extra(ws, ds, verdicts, xl, dec, api_mismatch=()):
    """crates that must fail to compile (C14, C17), const-context evaluation (C15), no_std / docs / unsafe regimes (C18)"""
    if ws.done('extra'):
        return ws.load('extra')
    from . import crates
    import sys as _sys
    t0 = time.time()
    P = _sys.modules[__name__]
    by_name = {d['name']: d for d in ds}
    acc = set(n for n in verdicts['accepted'] if n in xl and n not in api_mismatch)
    offered = {n: v[2] for n, v in dec.items()}
    builders = set(d['name'] for d in ds if d['kind'] == 'bitfield' and d['name'] in acc and has_builder(xl[d['name']], d['name']))
    res = {'cfail': crates.compile_fail(P, ws, ds, acc, offered),
           'const': crates.const_crate(P, ws, ds, acc, builders, by_name, ws.seed, ws.tier),
           'regimes': crates.regimes_crate(P, ws, ds, acc),
           'release_verdicts': release_verdicts(ws, ds, verdicts)}
    res['wall_s'] = time.time() - t0
    ws.mark('extra', res)
    log('extra: %d must-not-compile probes (%d mismatches); const: %d items, %d values (%d mismatches); regimes: %s (%d mismatches); '
        'release-built macro: %d rejected declarations re-checked, %d accepted; %.1fs' % (
        res['cfail']['probes'], res['cfail']['n_mismatches'], res['const']['items'], res['const']['values'], res['const']['n_mismatches'],
        res['regimes']['regimes'], res['regimes']['n_mismatches'], res['release_verdicts']['checked'],
        len(res['release_verdicts']['accepted_in_release']), res['wall_s']))
    return res


def coq_string_lit(t):
    return '"' + t.replace('"', '""') + '"'


def facts_compare(ws, todo, by_name, seed):
    """static facts (size, alignment, ZERO, DEFAULT, Default::default(), new()) and the text `debug` prints:
    compiled code (dev, release) vs the model (Coq: storage, init_value, DebugFmt.v)"""
    import random
    from . import cases
    if not todo:
        return {'programs': 0, 'debug_texts': 0, 'mismatches': [], 'n_mismatches': 0}
    lines = []
    raws = {}
    for d in todo:
        lines.append('D %s' % d['name'])
        lines.append('Q')
        if d.get('debug'):
            rng = random.Random('dbg|%s|%s' % (seed, d['name']))
            raws[d['name']] = cases.raws_for(rng, d['base'], None, k_random=4)
            for r in raws[d['name']]:
                lines.append('N %x' % r)
                lines.append('F')
    cdir = ws.path('coqf')
    shutil.rmtree(cdir, ignore_errors=True)
    os.makedirs(cdir)
    cf = os.path.join(cdir, 'cases.txt')
    open(cf, 'w').write('\n'.join(lines) + '\n')
    outs = {}
    for prof in ('dev', 'release'):
        p = subprocess.run([ws.path('runner-' + prof)], stdin=open(cf), stdout=subprocess.PIPE, stderr=subprocess.PIPE, text=True,
                           timeout=3000)
        if p.returncode != 0:
            raise RuntimeError('runner (%s) failed: %s' % (prof, p.stderr[-2000:]))
        o = p.stdout.split('\n')
        if o and o[-1] == '':
            o.pop()
        if len(o) != len(lines):
            raise RuntimeError('runner (%s) produced %d lines for %d inputs' % (prof, len(o), len(lines)))
        outs[prof] = o
    mism = []
    # walk the outputs
    pos = 0
    facts = {}
    texts = {}
    for d in todo:
        pos += 1
        facts[d['name']] = {p: outs[p][pos] for p in outs}
        pos += 1
        texts[d['name']] = []
        for r in raws.get(d['name'], []):
            pos += 1
            texts[d['name']].append({p: outs[p][pos] for p in outs})
            pos += 1
    shards = [todo[i::NSHARDS] for i in range(NSHARDS)]
    shards = [s for s in shards if s]

    def do_shard(k):
        src = ['From BB Require Import Bits Expr Spec Enum Builder Surface DebugFmt Run.', 'From Coq Require Import String.',
               'Open Scope string_scope.', 'Open Scope N_scope.', 'Set Printing Width 100000.', 'Set Printing Depth 1000000.']
        for d in shards[k]:
            n = d['name']
            src.append('Definition d_%s : decl := %s.' % (n, decls.coq_decl(d)))
            checks = []
            if d.get('debug'):
                env = []
                seen = set()

                def add_deps(x):
                    for dep in sorted(deps_of(x)):
                        if dep in seen or dep not in by_name:
                            continue
                        seen.add(dep)
                        t = by_name[dep]
                        if t['kind'] == 'enum':
                            env.append('(%s, TyEnum %s)' % (translate.cstr(dep), decls.coq_enum(t)))
                        else:
                            env.append('(%s, TyStruct %s)' % (translate.cstr(dep), decls.coq_decl(t)))
                            add_deps(t)
                add_deps(d)
                src.append('Definition env_%s : list (string * tydef) := [%s].' % (n, ';\n  '.join(env)))
                for r, t in zip(raws[n], texts[n]):
                    got = t['dev']
                    if ' ||| ' in got:
                        a, b = got.split(' ||| ', 1)
                        a = a.replace('\\n', '\n')
                        b = b.replace('\\n', '\n')
                        checks.append('String.eqb (debug_compact env_%s d_%s %d) %s && String.eqb (debug_pretty env_%s d_%s %d) %s' % (
                            n, n, r, coq_string_lit(a), n, n, r, coq_string_lit(b)))
                    else:
                        checks.append('false')
            src.append('Definition f_%s : N * N * list bool := Eval vm_compute in (storage (d_W d_%s), init_value d_%s, [%s]).' % (
                n, n, n, '; '.join(checks)))
            src.append('Print f_%s.' % n)
        fn = os.path.join(cdir, 'facts_%d.v' % k)
        open(fn, 'w').write('\n'.join(src) + '\n')
        p = run(['coqc', '-noglob', '-Q', os.path.join(COQ, 'theories'), 'BB', fn], cwd=cdir, check=False, timeout=3000)
        return k, p.returncode, p.stdout, p.stderr

    model = {}
    with ThreadPoolExecutor(max_workers=16) as ex:
        for k, rc, out, err in ex.map(do_shard, range(len(shards))):
            if rc != 0:
                raise RuntimeError('coqc failed on facts shard %d:\n%s' % (k, err[-3000:]))
            for m in re.finditer(r'f_(\w+)\s*=\s*\((\d+),\s*(\d+),\s*\[([^\]]*)\]\)', out):
                model[m.group(1)] = (int(m.group(2)), int(m.group(3)), [x.strip() == 'true' for x in m.group(4).split(';') if x.strip()])
    ntext = 0
    for d in todo:
        n = d['name']
        if n not in model:
            mism.append({'decl': n, 'what': 'model output missing'})
            continue
        st, init, oks = model[n]
        dv = '%x' % init if d.get('default') is not None else '-'
        exp = '%d %d 0 0 %s %s %s' % (st // 8, st // 8, dv, dv, dv)
        for p in outs:
            if facts[n][p] != exp:
                mism.append({'decl': n, 'what': 'size/alignment/ZERO/DEFAULT/Default::default()/new() differ from the model', 'profile': p,
                             'rust': facts[n][p], 'expected': exp,
                             'format': 'size_of align_of ZERO.raw const-ZERO.raw DEFAULT.raw Default::default().raw new().raw'})
        for k, r in enumerate(raws.get(n, [])):
            ntext += 1
            if texts[n][k]['dev'] != texts[n][k]['release']:
                mism.append({'decl': n, 'what': 'debug text differs between dev and release', 'raw': r, 'rust': texts[n][k]})
            elif k >= len(oks) or not oks[k]:
                mism.append({'decl': n, 'what': 'debug text differs from the model (DebugFmt.v)', 'raw': r, 'rust': texts[n][k]['dev']})
    return {'programs': len(todo), 'debug_programs': len(raws), 'debug_texts': ntext, 'mismatches': mism[:100], 'n_mismatches': len(mism)}


def stage_behaviour(ws, ds, verdicts, xl):
    if ws.done('behaviour'):
        return ws.load('behaviour')
    import random
    from . import cases
    t0 = time.time()
    by_name = {d['name']: d for d in ds}
    acc = set(verdicts['accepted'])
    todo = [d for d in ds if d['kind'] == 'bitfield' and d['name'] in acc and d['name'] in xl and not d.get('unstructured')]
    enums = [d for d in ds if d['kind'] == 'enum' and d['name'] in acc and d['name'] in xl and d.get('macro_arg') is None
             and all(v.get('discr') is not None or str(v.get('discr_text') or '').replace('_', '')[:1].isdigit() for v in d['variants'])]
    builders = set(d['name'] for d in todo if has_builder(xl[d['name']], d['name']))
    dropped = build_runner(ws, todo, by_name, enums, builders)
    todo = [d for d in todo if d['name'] not in dropped]
    enums = [d for d in enums if d['name'] not in dropped]
    t_build = time.time() - t0
    allcases = {}
    for d in todo:
        rng = random.Random('%s|%s' % (ws.seed, d['name']))
        allcases[d['name']] = cases.gen_cases(d, by_name, rng, ws.tier, d['name'] in builders)
    res = behaviour_compare(ws, todo, allcases, by_name, xl, 'coqb')
    res['enum'] = enum_compare(ws, enums, xl, ws.tier, ws.seed)
    res['facts'] = facts_compare(ws, todo, by_name, ws.seed)
    res['api_mismatch'] = dropped
    res['wall_s'] = time.time() - t0
    res['build_s'] = t_build
    ws.mark('behaviour', res)
    log('behaviour: %d programs, %d scenarios, %d ops, %d mismatches; %d enums, %d conversions, %d mismatches; '
        'facts: %d programs, %d debug texts, %d mismatches; %.1fs (build %.1fs)' % (
        res['programs'], res['scenarios'], res['ops'], res['n_mismatches'], res['enum']['enums'], res['enum']['conversions'],
        res['enum']['n_mismatches'], res['facts']['programs'], res['facts']['debug_texts'], res['facts']['n_mismatches'],
        res['wall_s'], t_build))
    return res
