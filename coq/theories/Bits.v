(** * Bits.v — bit-level lemmas over [N] shared by the whole development.

    Everything bit-level goes through [N.testbit] extensionality ([N.bits_inj]) and
    the [*_spec] lemmas below; [wrap w x = x mod 2^w] is the only place where an
    unbounded [N] is cut down to a machine width. *)
From Coq Require Export NArith ZArith List Lia Bool ZifyBool ZifyN.
Export ListNotations.
Open Scope N_scope.

Arguments N.ones : simpl never.
Arguments N.add : simpl never.
Arguments N.sub : simpl never.
Arguments N.mul : simpl never.
Arguments N.pow : simpl never.
Arguments N.ltb : simpl never.
Arguments N.leb : simpl never.
Arguments N.eqb : simpl never.
Arguments N.shiftl : simpl never.
Arguments N.shiftr : simpl never.
Arguments N.land : simpl never.
Arguments N.lor : simpl never.
Arguments N.lxor : simpl never.
Arguments N.ldiff : simpl never.
Arguments N.testbit : simpl never.
Arguments N.modulo : simpl never.
Arguments N.div : simpl never.

Lemma pow2_pos k : 0 < 2 ^ k.
Proof. apply N.neq_0_lt_0, N.pow_nonzero; lia. Qed.

Lemma testbit_small x k i : x < 2 ^ k -> k <= i -> N.testbit x i = false.
Proof.
  intros Hx Hk. destruct (N.eq_dec x 0) as [->|Hnz]; [apply N.bits_0|].
  apply N.bits_above_log2. apply N.log2_lt_pow2; [lia|].
  eapply N.lt_le_trans; [exact Hx|]. apply N.pow_le_mono_r; lia.
Qed.

(** A number all of whose bits from [k] up are zero is below [2^k]. *)
Lemma small_of_testbit x k : (forall i, k <= i -> N.testbit x i = false) -> x < 2 ^ k.
Proof.
  intros H. destruct (N.eq_dec x 0) as [->|Hnz]; [apply pow2_pos|].
  apply N.log2_lt_pow2; [lia|].
  destruct (N.lt_ge_cases (N.log2 x) k) as [Hlt|Hge]; [exact Hlt|].
  specialize (H _ Hge). rewrite N.bit_log2 in H by exact Hnz. discriminate.
Qed.

Definition wrap (w x : N) : N := N.land x (N.ones w).

Lemma wrap_spec w x i : N.testbit (wrap w x) i = (i <? w) && N.testbit x i.
Proof.
  unfold wrap. rewrite N.land_spec.
  destruct (N.ltb_spec i w).
  - rewrite N.ones_spec_low by lia. now rewrite andb_true_r.
  - rewrite N.ones_spec_high by lia. now rewrite andb_false_r.
Qed.

Lemma wrap_mod w x : wrap w x = x mod 2 ^ w.
Proof. unfold wrap. apply N.land_ones. Qed.

Lemma wrap_lt w x : wrap w x < 2 ^ w.
Proof. rewrite wrap_mod. apply N.mod_lt. apply N.pow_nonzero. lia. Qed.

Lemma wrap_small w x : x < 2 ^ w -> wrap w x = x.
Proof. intros H. rewrite wrap_mod. now apply N.mod_small. Qed.

Lemma wrap_wrap w x : wrap w (wrap w x) = wrap w x.
Proof. apply wrap_small, wrap_lt. Qed.

Lemma ones_lt n : N.ones n < 2 ^ n.
Proof. rewrite N.ones_equiv. pose proof (pow2_pos n). lia. Qed.

Lemma shl1_ones n : N.shiftl 1 n - 1 = N.ones n.
Proof. unfold N.ones. now rewrite N.pred_sub. Qed.

Lemma pow2_mono a b : a <= b -> 2 ^ a <= 2 ^ b.
Proof. intros. apply N.pow_le_mono_r; lia. Qed.

Lemma pow2_lt_mono a b : a < b -> 2 ^ a < 2 ^ b.
Proof. intros. apply N.pow_lt_mono_r; lia. Qed.

(** [bitsN lo n x]: the [n] bits of [x] starting at bit [lo]. *)
Definition bitsN (lo n x : N) : N := N.land (N.shiftr x lo) (N.ones n).

Lemma bitsN_spec lo n x i :
  N.testbit (bitsN lo n x) i = (i <? n) && N.testbit x (i + lo).
Proof.
  unfold bitsN. rewrite N.land_spec, N.shiftr_spec by lia.
  destruct (N.ltb_spec i n).
  - rewrite N.ones_spec_low by lia. now rewrite andb_true_r.
  - rewrite N.ones_spec_high by lia. now rewrite andb_false_r.
Qed.

Lemma bitsN_lt lo n x : bitsN lo n x < 2 ^ n.
Proof.
  apply small_of_testbit. intros i Hi. rewrite bitsN_spec.
  destruct (N.ltb_spec i n); [lia|reflexivity].
Qed.

(** complement within a width *)
Definition notw (w x : N) : N := N.lxor (wrap w x) (N.ones w).

Lemma notw_spec w x i : N.testbit (notw w x) i = (i <? w) && negb (N.testbit x i).
Proof.
  unfold notw. rewrite N.lxor_spec, wrap_spec.
  destruct (N.ltb_spec i w).
  - rewrite N.ones_spec_low by lia. cbn. now rewrite xorb_true_r.
  - rewrite N.ones_spec_high by lia. reflexivity.
Qed.

Lemma notw_lt w x : notw w x < 2 ^ w.
Proof.
  apply small_of_testbit. intros i Hi. rewrite notw_spec.
  destruct (N.ltb_spec i w); [lia|reflexivity].
Qed.

Lemma land_lt_l x y k : x < 2 ^ k -> N.land x y < 2 ^ k.
Proof.
  intros H. apply small_of_testbit. intros i Hi. rewrite N.land_spec.
  now rewrite (testbit_small x k i).
Qed.
Lemma land_lt_r x y k : y < 2 ^ k -> N.land x y < 2 ^ k.
Proof. rewrite N.land_comm. apply land_lt_l. Qed.
Lemma lor_lt x y k : x < 2 ^ k -> y < 2 ^ k -> N.lor x y < 2 ^ k.
Proof.
  intros Hx Hy. apply small_of_testbit. intros i Hi. rewrite N.lor_spec.
  now rewrite (testbit_small x k i), (testbit_small y k i).
Qed.
Lemma lxor_lt x y k : x < 2 ^ k -> y < 2 ^ k -> N.lxor x y < 2 ^ k.
Proof.
  intros Hx Hy. apply small_of_testbit. intros i Hi. rewrite N.lxor_spec.
  now rewrite (testbit_small x k i), (testbit_small y k i).
Qed.
Lemma shiftr_lt x s k : x < 2 ^ k -> N.shiftr x s < 2 ^ k.
Proof.
  intros Hx. apply small_of_testbit. intros i Hi. rewrite N.shiftr_spec by lia.
  apply (testbit_small x k); [exact Hx|lia].
Qed.

(** two's complement interpretation of an [n]-bit pattern *)
Definition sint (n x : N) : Z :=
  if x <? 2 ^ (n - 1) then Z.of_N x else (Z.of_N x - Z.of_N (2 ^ n))%Z.

(** pattern of a signed integer in [n] bits *)
Definition of_sint (n : N) (z : Z) : N := Z.to_N (z mod Z.of_N (2 ^ n))%Z.

Lemma add_disjoint_lor a b : N.land a b = 0 -> a + b = N.lor a b.
Proof. intros H. rewrite N.add_nocarry_lxor by exact H. now apply N.lxor_lor. Qed.
