#!/bin/bash
# usage: tools/benignall.sh <id> ...   applies each harmless rewrite in its scratch worktree and runs all 19 checks: all must stay silent
cd "$(dirname "$0")/.."
for id in "$@"; do
  wt=$(python3 -c "import json;print(json.load(open('seeded/$id/meta.json'))['worktree'])")
  tools/mutant.py run $wt $id C01 C02 C03 C04 C05 C06 C07 C08 C09 C10 C11 C12 C13 C14 C15 C16 C17 C18 C19 2>&1 | grep -v "^WARNING"
done
