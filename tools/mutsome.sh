#!/bin/bash
# usage: tools/mutsome.sh <worktree-suffix> <checks,comma> <seed-id> ...   (worktree = /tmp/mut/<Cxx><suffix>)
cd "$(dirname "$0")/.."
suf="$1"; extra="$2"; shift 2
for id in "$@"; do
  prop="${id%%-*}"
  tools/mutant.py run /tmp/mut/$prop$suf $id $prop ${extra//,/ } 2>&1 | grep -v "^WARNING"
done
