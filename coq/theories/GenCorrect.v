(** * GenCorrect.v — the model of the code generator (Gen.v) meets the abstract register (Spec.v)
      for EVERY field declaration: all storage widths, positions, widths, array counts, strides
      and range-list lengths, every raw value, argument and in-range index, both build profiles.

    No bound anywhere: the range-list cases are by induction over the list with the running
    target offset generalised, the bit-level facts go through [N.testbit] extensionality. *)
From BB Require Import Bits Expr Sym Spec Validate Prog History Builder Gen.
From Coq Require Import String.
Open Scope N_scope.

(** ** evaluation lemmas for the operators of the templates *)

Lemma pow2_gt1 S : 1 <= S -> 1 < 2 ^ S.
Proof. intros H. apply N.pow_gt_1; lia. Qed.

Lemma pow2_64_val : 2 ^ 64 = 18446744073709551616.
Proof. reflexivity. Qed.

Section Ops.
Variable c : bool.

Lemma bin_and S x y : x < 2 ^ S -> y < 2 ^ S ->
  binop_eval c OAnd (VInt (TU S) x) (VInt (TU S) y) = Ok (VInt (TU S) (N.land x y)).
Proof.
  intros Hx Hy. unfold binop_eval, unify. cbn [ity_eqb]. rewrite N.eqb_refl. cbn [is_uint width andb].
  destruct (N.ltb_spec x (2 ^ S)); [|lia]. destruct (N.ltb_spec y (2 ^ S)); [|lia]. reflexivity.
Qed.

Lemma bin_or S x y : x < 2 ^ S -> y < 2 ^ S ->
  binop_eval c OOr (VInt (TU S) x) (VInt (TU S) y) = Ok (VInt (TU S) (N.lor x y)).
Proof.
  intros Hx Hy. unfold binop_eval, unify. cbn [ity_eqb]. rewrite N.eqb_refl. cbn [is_uint width andb].
  destruct (N.ltb_spec x (2 ^ S)); [|lia]. destruct (N.ltb_spec y (2 ^ S)); [|lia]. reflexivity.
Qed.

Lemma bin_sub S x y : x < 2 ^ S -> y <= x ->
  binop_eval c OSub (VInt (TU S) x) (VInt (TU S) y) = Ok (VInt (TU S) (x - y)).
Proof.
  intros Hx Hy. unfold binop_eval, unify. cbn [ity_eqb]. rewrite N.eqb_refl. cbn [is_uint width andb].
  destruct (N.ltb_spec x (2 ^ S)); [|lia]. destruct (N.ltb_spec y (2 ^ S)); [|lia]. cbn [andb arith width].
  destruct (N.leb_spec y x); [reflexivity|lia].
Qed.

Lemma bin_shl S x k : k < S ->
  binop_eval c OShl (VInt (TU S) x) (VInt TUsize k) = Ok (VInt (TU S) (wrap S (N.shiftl x k))).
Proof.
  intros Hk. unfold binop_eval. cbn [is_uint is_shift_amount andb]. unfold shift. cbn [width].
  destruct (N.ltb_spec k S); [reflexivity|lia].
Qed.

Lemma bin_shr S x k : k < S ->
  binop_eval c OShr (VInt (TU S) x) (VInt TUsize k) = Ok (VInt (TU S) (N.shiftr x k)).
Proof.
  intros Hk. unfold binop_eval. cbn [is_uint is_shift_amount andb]. unfold shift. cbn [width].
  destruct (N.ltb_spec k S); [reflexivity|lia].
Qed.

Lemma bin_ne0 S x : x < 2 ^ S ->
  binop_eval c ONe (VInt (TU S) x) (VInt TLit 0) = Ok (VBool (negb (x =? 0))).
Proof.
  intros Hx. unfold binop_eval, unify. cbn [is_uint width andb].
  destruct (N.ltb_spec x (2 ^ S)); [|lia]. pose proof (pow2_pos S).
  destruct (N.ltb_spec 0 (2 ^ S)); [|lia]. reflexivity.
Qed.

Lemma bin_usz (op : binop) a b r :
  a < 2 ^ 64 -> b < 2 ^ 64 ->
  arith c op TUsize a b = r ->
  (match op with OShl | OShr => False | _ => True end) ->
  binop_eval c op (VInt TUsize a) (VInt TUsize b) = r.
Proof.
  intros Ha Hb Hr Hop. unfold binop_eval, unify. cbn [ity_eqb is_uint width andb].
  destruct (N.ltb_spec a (2 ^ 64)); [|lia]. destruct (N.ltb_spec b (2 ^ 64)); [|lia].
  destruct op; try contradiction; exact Hr.
Qed.

Lemma bin_mul_usz a b : a < 2 ^ 64 -> b < 2 ^ 64 -> a * b < 2 ^ 64 ->
  binop_eval c OMul (VInt TUsize a) (VInt TUsize b) = Ok (VInt TUsize (a * b)).
Proof.
  intros Ha Hb Hab. apply bin_usz; try assumption; [|exact I]. cbn [arith width].
  destruct (N.ltb_spec (a * b) (2 ^ 64)); [reflexivity|lia].
Qed.

Lemma bin_add_usz a b : a < 2 ^ 64 -> b < 2 ^ 64 -> a + b < 2 ^ 64 ->
  binop_eval c OAdd (VInt TUsize a) (VInt TUsize b) = Ok (VInt TUsize (a + b)).
Proof.
  intros Ha Hb Hab. apply bin_usz; try assumption; [|exact I]. cbn [arith width].
  destruct (N.ltb_spec (a + b) (2 ^ 64)); [reflexivity|lia].
Qed.

Lemma bin_lt_usz a b : a < 2 ^ 64 -> b < 2 ^ 64 ->
  binop_eval c OLt (VInt TUsize a) (VInt TUsize b) = Ok (VBool (a <? b)).
Proof. intros Ha Hb. apply bin_usz; try assumption; [reflexivity|exact I]. Qed.
End Ops.

(** ** one evaluation step per constructor (so that proofs never unfold [eval] on a whole template) *)

Section Steps.
Variable c : bool.
Variable ρ : env.

Lemma ev_bin op a b x y : eval c ρ a = Ok x -> eval c ρ b = Ok y ->
  eval c ρ (EBin op a b) = binop_eval c op x y.
Proof. intros Ha Hb. cbn [eval]. now rewrite Ha, Hb. Qed.

Lemma ev_not a x : eval c ρ a = Ok x -> eval c ρ (ENot a) = not_eval x.
Proof. intros Ha. cbn [eval]. now rewrite Ha. Qed.

Lemma ev_cast a t x : eval c ρ a = Ok x -> eval c ρ (ECast a t) = cast_eval x t.
Proof. intros Ha. cbn [eval]. now rewrite Ha. Qed.

Lemma ev_if cnd a b (bv : bool) : eval c ρ cnd = Ok (VBool bv) ->
  eval c ρ (EIf cnd a b) = if bv then eval c ρ a else eval c ρ b.
Proof. intros Hc. cbn [eval]. rewrite Hc. now destruct bv. Qed.

Lemma ev_let x a body v : eval c ρ a = Ok v ->
  eval c ρ (ELet x a body) = eval c (bind_var x v ρ) body.
Proof. intros Ha. cbn [eval]. now rewrite Ha. Qed.

Lemma ev_assert cnd body (bv : bool) : eval c ρ cnd = Ok (VBool bv) ->
  eval c ρ (EAssert cnd body) = if bv then eval c ρ body else Panic.
Proof. intros Hc. cbn [eval]. rewrite Hc. now destruct bv. Qed.

Lemma ev_extract src n a s x k : eval c ρ a = Ok x -> eval c ρ s = Ok k ->
  eval c ρ (EExtract src n a s) = extract_eval src n x k.
Proof. intros Ha Hs. cbn [eval]. now rewrite Ha, Hs. Qed.

Lemma ev_uvalue a x : eval c ρ a = Ok x -> eval c ρ (EUValue a) = uvalue_eval x.
Proof. intros Ha. cbn [eval]. now rewrite Ha. Qed.

Lemma ev_customnew ty a x : eval c ρ a = Ok x -> eval c ρ (ECustomNew ty a) = Ok (VCustom ty x).
Proof. intros Ha. cbn [eval]. now rewrite Ha. Qed.

Lemma ev_customraw a ty r : eval c ρ a = Ok (VCustom ty r) -> eval c ρ (ECustomRaw a) = Ok r.
Proof. intros Ha. cbn [eval]. now rewrite Ha. Qed.

Lemma ev_var x v : lookup x (e_vars ρ) = Some v -> eval c ρ (EVar x) = Ok v.
Proof. intros H. cbn [eval]. now rewrite H. Qed.
End Steps.

(** ** the pieces of the templates *)

Lemma eval_usz c ρ n : n < 2 ^ 64 -> eval c ρ (usz n) = Ok (VInt TUsize n).
Proof.
  intros H. unfold usz. cbn [eval width]. destruct (N.ltb_spec n (2 ^ 64)); [reflexivity|lia].
Qed.

Section Pieces.
Variable c : bool.
Variable S : N.
Hypothesis HS1 : 1 <= S.
Hypothesis HS128 : S <= 128.


Lemma eval_one ρ : eval c ρ (one S) = Ok (VInt (TU S) 1).
Proof.
  unfold one. cbn [eval width]. pose proof (pow2_gt1 S HS1).
  destruct (N.ltb_spec 1 (2 ^ S)); [reflexivity|lia].
Qed.

(** [1 << k] *)
Lemma eval_one_shl ρ pe k : eval c ρ pe = Ok (VInt TUsize k) -> k < S ->
  eval c ρ (EBin OShl (one S) pe) = Ok (VInt (TU S) (2 ^ k)).
Proof.
  intros Hp Hk. rewrite (ev_bin c ρ OShl _ _ _ _ (eval_one ρ) Hp), bin_shl by exact Hk.
  rewrite N.shiftl_1_l, wrap_small; [reflexivity|]. now apply pow2_lt_mono.
Qed.

(** [(1 << n) - 1] *)
Lemma eval_lowmask ρ n : n < S -> eval c ρ (lowmask S n) = Ok (VInt (TU S) (N.ones n)).
Proof.
  intros Hn. unfold lowmask.
  assert (Hn64 : n < 2 ^ 64).
  { rewrite pow2_64_val. lia. }
  rewrite (ev_bin c ρ OSub _ _ _ _ (eval_one_shl ρ (usz n) n (eval_usz c ρ n Hn64) Hn) (eval_one ρ)).
  rewrite bin_sub.
  - now rewrite N.ones_equiv, N.pred_sub.
  - now apply pow2_lt_mono.
  - pose proof (pow2_pos n). lia.
Qed.
End Pieces.

(** ** getters *)

Lemma land_pow2_ne0 x k : negb (N.land x (2 ^ k) =? 0) = N.testbit x k.
Proof.
  destruct (N.testbit x k) eqn:B.
  - destruct (N.eqb_spec (N.land x (2 ^ k)) 0) as [E|]; [|reflexivity].
    assert (T : N.testbit (N.land x (2 ^ k)) k = true) by (rewrite N.land_spec, B, N.pow2_bits_true; reflexivity).
    rewrite E, N.bits_0 in T. discriminate.
  - assert (E : N.land x (2 ^ k) = 0).
    { apply N.bits_inj. intros j. rewrite N.land_spec, N.bits_0, N.pow2_bits_eqb.
      destruct (N.eqb_spec k j) as [->|]; [now rewrite B|now rewrite andb_false_r]. }
    now rewrite E.
Qed.

Lemma gather_single lo n x : gather [(lo, n)] x = bitsN lo n x.
Proof. cbn [gather]. now rewrite N.shiftl_0_l, N.lor_0_r. Qed.

Lemma bitsN_0_small n x : x < 2 ^ n -> bitsN 0 n x = x.
Proof. intros H. unfold bitsN. rewrite N.shiftr_0_r. fold (wrap n x). now apply wrap_small. Qed.

Section Getter.
Variable c : bool.
Variable S : N.
Hypothesis HS1 : 1 <= S.
Hypothesis HS128 : S <= 128.

Record env_ok (ρ : env) (raw i : N) : Prop := {
  eo_S : e_S ρ = S;
  eo_raw : e_raw ρ = raw;
  eo_idx : e_idx ρ = i;
  eo_raw_lt : raw < 2 ^ S;
  eo_idx_lt : i < 2 ^ 64
}.

Lemma eval_raw ρ raw i : env_ok ρ raw i -> eval c ρ ERaw = Ok (VInt (TU S) raw).
Proof. intros [H1 H2 _ _ _]. cbn [eval]. now rewrite H1, H2. Qed.

Lemma eval_idx ρ raw i : env_ok ρ raw i -> eval c ρ EIdx = Ok (VInt TUsize i).
Proof. intros [_ _ H3 _ _]. cbn [eval]. now rewrite H3. Qed.

Lemma env_ok_bind ρ raw i x v : env_ok ρ raw i -> env_ok (bind_var x v ρ) raw i.
Proof. intros [H1 H2 H3 H4 H5]. constructor; assumption. Qed.

(** the shift of an element: [0] for a plain field, [index * stride] for an array *)
Definition shift_of (arr : option (N * N)) (i : N) : N :=
  match arr with None => 0 | Some (_, s) => i * s end.

Lemma eval_pos ρ raw i arr lo :
  env_ok ρ raw i ->
  (match arr with Some (_, s) => s < 2 ^ 64 | None => True end) ->
  shift_of arr i < 2 ^ 64 -> lo < 2 ^ 64 -> lo + shift_of arr i < 2 ^ 64 ->
  eval c ρ (pos arr lo) = Ok (VInt TUsize (lo + shift_of arr i)).
Proof.
  intros E Hs Hsh Hlo Hsum. destruct arr as [[k s]|]; cbn [pos shift_of] in *.
  - rewrite (ev_bin c ρ OAdd _ _ (VInt TUsize lo) (VInt TUsize (i * s))).
    + now apply bin_add_usz.
    + now apply eval_usz.
    + rewrite (ev_bin c ρ OMul _ _ _ _ (eval_idx ρ raw i E) (eval_usz c ρ s Hs)).
      apply bin_mul_usz; [apply E|exact Hs|exact Hsh].
  - rewrite N.add_0_r. now apply eval_usz.
Qed.

(** one term of [getter_packed]: [((raw >> p) & ((1 << n) - 1)) << off] *)
Lemma eval_packed_term ρ raw i pe p n off :
  env_ok ρ raw i -> eval c ρ pe = Ok (VInt TUsize p) ->
  p < S -> 1 <= n -> n < S -> off + n <= S ->
  eval c ρ (EBin OShl (EBin OAnd (EBin OShr ERaw pe) (lowmask S n)) (usz off))
  = Ok (VInt (TU S) (N.shiftl (bitsN p n raw) off)) /\ N.shiftl (bitsN p n raw) off < 2 ^ S.
Proof.
  intros E Hp Hps Hn1 Hn Hoff.
  assert (Hoff64 : off < 2 ^ 64) by (rewrite pow2_64_val; lia).
  assert (Hlt : N.shiftl (bitsN p n raw) off < 2 ^ S).
  { apply small_of_testbit. intros j Hj. destruct (N.lt_ge_cases j off).
    - now rewrite N.shiftl_spec_low.
    - rewrite N.shiftl_spec_high' by lia. rewrite bitsN_spec.
      destruct (N.ltb_spec (j - off) n); [lia|reflexivity]. }
  split; [|exact Hlt].
  rewrite (ev_bin c ρ OShl _ _ (VInt (TU S) (bitsN p n raw)) (VInt TUsize off)).
  - rewrite bin_shl by lia. now rewrite wrap_small.
  - rewrite (ev_bin c ρ OAnd _ _ (VInt (TU S) (N.shiftr raw p)) (VInt (TU S) (N.ones n))).
    + rewrite bin_and; [reflexivity|apply shiftr_lt; apply E|].
      eapply N.lt_trans; [apply ones_lt|]. now apply pow2_lt_mono.
    + rewrite (ev_bin c ρ OShr _ _ _ _ (eval_raw ρ raw i E) Hp). now apply bin_shr.
    + now apply eval_lowmask.
  - now apply eval_usz.
Qed.

Lemma eval_or_all ρ : forall l vs acc a,
  eval c ρ acc = Ok (VInt (TU S) a) -> a < 2 ^ S ->
  Forall2 (fun e v => eval c ρ e = Ok (VInt (TU S) v) /\ v < 2 ^ S) l vs ->
  eval c ρ (or_all acc l) = Ok (VInt (TU S) (fold_left N.lor vs a)) /\ fold_left N.lor vs a < 2 ^ S.
Proof.
  induction l as [|e l IH]; intros vs acc a Ha Hlt HF; inversion HF as [|e' v l' vs' [He Hv] HF']; subst;
    cbn [or_all fold_left]; [auto|].
  apply IH; [|now apply lor_lt|exact HF'].
  rewrite (ev_bin c ρ OOr _ _ _ _ Ha He). now apply bin_or.
Qed.

(** the values of the terms of [getter_packed] *)
Fixpoint packed_vals (rs : list range) (sh off raw : N) : list N :=
  match rs with
  | [] => []
  | (lo, n) :: rs' => N.shiftl (bitsN (lo + sh) n raw) off :: packed_vals rs' sh (off + n) raw
  end.

Lemma fold_lor_packed sh raw : forall rs off a,
  fold_left N.lor (packed_vals rs sh off raw) a
  = N.lor a (N.shiftl (gather (shift_ranges sh rs) raw) off).
Proof.
  induction rs as [|[lo n] rs IH]; intros off a; cbn [packed_vals fold_left shift_ranges map gather].
  - now rewrite N.shiftl_0_l, N.lor_0_r.
  - fold (shift_ranges sh rs). rewrite IH, N.shiftl_lor, N.shiftl_shiftl, N.lor_assoc.
    now rewrite (N.add_comm n off).
Qed.

(** every range of the element lies inside the storage and is narrower than it *)
Definition ranges_fit (rs : list range) (sh : N) : Prop :=
  Forall (fun r => 1 <= snd r /\ snd r < S /\ fst r + sh + snd r <= S) rs.

Lemma packed_terms_vals ρ raw i arr :
  env_ok ρ raw i ->
  (match arr with Some (_, s) => s < 2 ^ 64 | None => True end) ->
  shift_of arr i < 2 ^ 64 ->
  forall rs off, ranges_fit rs (shift_of arr i) -> off + total rs <= S ->
  Forall2 (fun e v => eval c ρ e = Ok (VInt (TU S) v) /\ v < 2 ^ S)
          (packed_terms S arr rs off) (packed_vals rs (shift_of arr i) off raw).
Proof.
  intros E Hs Hsh. induction rs as [|[lo n] rs IH]; intros off HF Htot; cbn [packed_terms packed_vals]; [constructor|].
  inversion HF as [|r rs' (H1 & H2 & H3) HF']; subst. cbn [fst snd total] in *.
  constructor.
  - apply (eval_packed_term ρ raw i _ (lo + shift_of arr i) n off E); try lia.
    apply (eval_pos ρ raw i arr lo E Hs Hsh); rewrite pow2_64_val; lia.
  - apply IH; [exact HF'|lia].
Qed.

Lemma eval_getter_packed ρ raw i arr rs :
  env_ok ρ raw i ->
  (match arr with Some (_, s) => s < 2 ^ 64 | None => True end) ->
  shift_of arr i < 2 ^ 64 ->
  rs <> [] -> ranges_fit rs (shift_of arr i) -> total rs <= S ->
  eval c ρ (getter_packed S arr rs) = Ok (VInt (TU S) (gather (shift_ranges (shift_of arr i) rs) raw)).
Proof.
  intros E Hs Hsh Hne HF Htot. destruct rs as [|[lo n] rs]; [congruence|].
  assert (H0 : 0 + total ((lo, n) :: rs) <= S) by (rewrite N.add_0_l; exact Htot).
  pose proof (packed_terms_vals ρ raw i arr E Hs Hsh ((lo, n) :: rs) 0 HF H0) as HV.
  unfold getter_packed. cbn [packed_terms packed_vals ors] in *.
  inversion HV as [|e v l vs [He Hv] HV']; subst.
  destruct (eval_or_all ρ _ _ _ _ He Hv HV') as [-> _]. f_equal. f_equal.
  rewrite fold_lor_packed. cbn [shift_ranges map gather]. fold (shift_ranges (shift_of arr i) rs).
  rewrite N.shiftl_0_r. reflexivity.
Qed.

Lemma storage_native n : is_native n = true -> storage n = n.
Proof.
  unfold is_native. intros H.
  destruct (N.eqb_spec n 8) as [E|]; [now rewrite E|]. destruct (N.eqb_spec n 16) as [E|]; [now rewrite E|].
  destruct (N.eqb_spec n 32) as [E|]; [now rewrite E|]. destruct (N.eqb_spec n 64) as [E|]; [now rewrite E|].
  destruct (N.eqb_spec n 128) as [E|]; [now rewrite E|]. discriminate.
Qed.

Lemma gather_lt_S rs x : total rs <= S -> gather rs x < 2 ^ S.
Proof. intros H. eapply N.lt_le_trans; [apply gather_lt|]. now apply pow2_mono. Qed.

(** G2/G3: a field carried by a primitive integer *)
Lemma getter_regular ρ raw i arr rs (pt : ity) :
  env_ok ρ raw i ->
  (match arr with Some (_, s) => s < 2 ^ 64 | None => True end) ->
  shift_of arr i < 2 ^ 64 ->
  rs <> [] -> Forall (fun r => 1 <= snd r /\ fst r + shift_of arr i + snd r <= S) rs -> total rs <= S ->
  (match pt with TU w | TI w => w = total rs | _ => False end) ->
  eval c ρ (match rs with
            | [(lo, n)] => if n =? S then ECast ERaw pt else ECast (getter_packed S arr rs) pt
            | _ => ECast (getter_packed S arr rs) pt
            end)
  = Ok (VInt pt (gather (shift_ranges (shift_of arr i) rs) raw)).
Proof.
  intros E Hs Hsh Hne HF Htot Hpt.
  set (g := gather (shift_ranges (shift_of arr i) rs) raw).
  assert (Hg : g < 2 ^ total rs).
  { unfold g. rewrite <- (total_shift (shift_of arr i) rs). apply gather_lt. }
  assert (Cast : forall e, eval c ρ e = Ok (VInt (TU S) g) -> eval c ρ (ECast e pt) = Ok (VInt pt g)).
  { intros e He. rewrite (ev_cast c ρ e pt _ He). unfold cast_eval.
    destruct pt as [w|w| | |]; try contradiction; subst w; cbn [is_int_target negb width];
      now rewrite wrap_small. }
  assert (Packed : Forall (fun r => snd r < S) rs ->
                   eval c ρ (ECast (getter_packed S arr rs) pt) = Ok (VInt pt g)).
  { intros Hn. apply Cast. apply (eval_getter_packed ρ raw i arr rs E Hs Hsh Hne); [|exact Htot].
    unfold ranges_fit. rewrite Forall_forall in *. intros r Hr. specialize (HF r Hr). specialize (Hn r Hr). lia. }
  destruct rs as [|[lo n] [|r2 rs']]; [congruence| |].
  - inversion HF as [|r rs'' [H1 H2] _]; subst. cbn [fst snd total] in *.
    destruct (N.eqb_spec n S) as [->|Hne'].
    + (* the field is the whole storage integer *)
      apply Cast. rewrite (eval_raw ρ raw i E). f_equal. f_equal. unfold g.
      assert (lo = 0 /\ shift_of arr i = 0) as [-> ->] by lia.
      cbn [shift_ranges map]. rewrite gather_single. cbn [fst]. rewrite N.add_0_r.
      symmetry. apply bitsN_0_small. apply E.
    + apply Packed. constructor; [cbn [snd]; lia|constructor].
  - apply Packed.
    (* at least two non-empty ranges with total <= S: each is narrower than S *)
    assert (T : forall l, Forall (fun r : range => 1 <= snd r) l -> forall r, In r l -> snd r <= total l).
    { induction l as [|[a b] l IHl]; intros Hl r Hr; [destruct Hr|]. inversion Hl; subst. cbn [total].
      destruct Hr as [<-|Hr]; [cbn [snd]; lia|]. specialize (IHl H2 r Hr). lia. }
    assert (H1 : Forall (fun r : range => 1 <= snd r) ((lo, n) :: r2 :: rs')).
    { rewrite Forall_forall in *. intros r Hr. now destruct (HF r Hr). }
    rewrite Forall_forall. intros r Hr.
    inversion H1 as [|a l Ha Hl]; subst. inversion Hl as [|b l' Hb Hl']; subst.
    destruct r2 as [lo2 n2]. cbn [snd total] in *.
    destruct Hr as [<-|[<-|Hr]]; cbn [snd].
    + pose proof (T rs' Hl') as T'. assert (0 <= total rs') by lia. lia.
    + lia.
    + pose proof (T rs' Hl' r Hr). lia.
Qed.

(** G4/G5: a field carried by an arbitrary-int *)
Lemma getter_arbitrary ρ raw i arr rs :
  env_ok ρ raw i ->
  (match arr with Some (_, s) => s < 2 ^ 64 | None => True end) ->
  shift_of arr i < 2 ^ 64 ->
  rs <> [] -> Forall (fun r => 1 <= snd r /\ fst r + shift_of arr i + snd r <= S) rs -> total rs <= S ->
  (match rs with [_] => True | _ => Forall (fun r => snd r < S) rs end) ->
  eval c ρ (match rs with
            | [(lo, _)] => EExtract S (total rs) ERaw (pos arr lo)
            | _ => EExtract S (total rs) (getter_packed S arr rs) (ELit TLit 0)
            end)
  = Ok (VInt (TAU (storage (total rs)) (total rs)) (gather (shift_ranges (shift_of arr i) rs) raw)).
Proof.
  intros E Hs Hsh Hne HF Htot Hn.
  destruct rs as [|[lo n] [|r2 rs']]; [congruence| |].
  - inversion HF as [|r rs'' [H1 H2] _]; subst. cbn [fst snd total] in *. rewrite N.add_0_r in *.
    rewrite (ev_extract c ρ S n ERaw _ _ _ (eval_raw ρ raw i E)
               (eval_pos ρ raw i arr lo E Hs Hsh ltac:(rewrite pow2_64_val; lia) ltac:(rewrite pow2_64_val; lia))).
    unfold extract_eval. rewrite N.eqb_refl. cbn [andb].
    destruct (N.leb_spec (lo + shift_of arr i + n) S); [|lia].
    cbn [shift_ranges map]. now rewrite gather_single.
  - set (rs := (lo, n) :: r2 :: rs') in *.
    assert (HF' : ranges_fit rs (shift_of arr i)).
    { unfold ranges_fit. rewrite Forall_forall in *. intros r Hr. specialize (HF r Hr). specialize (Hn r Hr). lia. }
    rewrite (ev_extract c ρ S (total rs) _ (ELit TLit 0) (VInt (TU S) (gather (shift_ranges (shift_of arr i) rs) raw)) (VInt TLit 0)).
    + unfold extract_eval. rewrite N.eqb_refl. cbn [andb]. rewrite N.add_0_l.
      destruct (N.leb_spec (total rs) S); [|lia]. f_equal. f_equal.
      apply bitsN_0_small. rewrite <- (total_shift (shift_of arr i) rs). apply gather_lt.
    + apply (eval_getter_packed ρ raw i arr rs E Hs Hsh); [discriminate|exact HF'|exact Htot].
    + cbn [eval width]. reflexivity.
Qed.
End Getter.

(** ** what the layout rules give *)

Lemma max_end_ge rs r : In r rs -> fst r + snd r <= max_end rs.
Proof.
  induction rs as [|[lo n] rs IH]; intros H; [destruct H|]. cbn [max_end fold_right].
  destruct H as [<-|H]; cbn [fst snd]; [lia|]. specialize (IH H). unfold max_end in IH. lia.
Qed.

Lemma entry_range_pos e : entry_ok e = true -> 1 <= snd (entry_range e).
Proof. destruct e as [n|lo hi]; cbn [entry_ok entry_range snd]; lia. Qed.

Record field_facts (W : N) (f : field) : Prop := {
  ff_ne : ranges f <> [];
  ff_pos : Forall (fun r => 1 <= snd r) (ranges f);
  ff_width : ty_width (f_ty f) = total (ranges f);
  ff_bool : f_ty f = FBool -> exists lo, ranges f = [(lo, 1)];
  ff_ty : ty_ok (f_ty f) = true;
  ff_bound : (count f - 1) * stride f + max_end (ranges f) <= W;
  ff_scalar : f_count f = None -> f_stride f = None;
  ff_count : forall k, f_count f = Some k -> 2 <= k;
  ff_stride : forall k, f_count f = Some k -> (List.length (ranges f) = 1)%nat -> total (ranges f) <= stride f
}.

Lemma valid_field_facts W f : valid_field W f = true -> field_facts W f.
Proof.
  unfold valid_field. intros H.
  apply andb_prop in H. destruct H as [H Hbound]. apply andb_prop in H. destruct H as [H Harr].
  apply andb_prop in H. destruct H as [H Hbool]. apply andb_prop in H. destruct H as [H Hw].
  apply andb_prop in H. destruct H as [H Hty]. apply andb_prop in H. destruct H as [Hshape Hent].
  assert (Hne : ranges f <> []).
  { unfold ranges. unfold attr_shape_ok in Hshape. destruct (f_entries f) as [|e es]; [|discriminate].
    destruct (f_list f); discriminate. }
  assert (Hpos : Forall (fun r => 1 <= snd r) (ranges f)).
  { unfold ranges. rewrite Forall_forall. intros r Hr. apply in_map_iff in Hr. destruct Hr as (e & <- & He).
    apply entry_range_pos. rewrite forallb_forall in Hent. now apply Hent. }
  constructor; try assumption.
  - lia.
  - intros Ht. rewrite Ht in *. cbn [ty_width] in *.
    destruct (ranges f) as [|[lo n] [|r rs]] eqn:Er; cbn [List.length] in Hbool; try discriminate; try congruence.
    exists lo. f_equal. f_equal. cbn [total] in *. lia.
  - lia.
  - intros Hc. rewrite Hc in Harr. now destruct (f_stride f).
  - intros k Hc. rewrite Hc in Harr. apply andb_prop in Harr. destruct Harr as [Harr _].
    apply andb_prop in Harr. destruct Harr as [Hk _]. lia.
  - intros k Hc Hl. rewrite Hc in Harr. apply andb_prop in Harr. destruct Harr as [_ Hst].
    rewrite Hl in Hst. cbn in Hst. lia.
Qed.

Lemma elem_fits W f i r :
  field_facts W f -> i < count f -> In r (ranges f) -> fst r + i * stride f + snd r <= W.
Proof.
  intros F Hi Hr. pose proof (ff_bound W f F) as Hb. pose proof (max_end_ge _ _ Hr) as Hm.
  assert (i * stride f <= (count f - 1) * stride f) by (apply N.mul_le_mono_r; lia). lia.
Qed.

Lemma multi_range_narrow S r1 r2 rs :
  Forall (fun r : range => 1 <= snd r) (r1 :: r2 :: rs) -> total (r1 :: r2 :: rs) <= S ->
  Forall (fun r : range => snd r < S) (r1 :: r2 :: rs).
Proof.
  intros H1 Htot.
  assert (T : forall l, Forall (fun r : range => 1 <= snd r) l -> forall r, In r l -> snd r <= total l).
  { induction l as [|[a b] l IHl]; intros Hl r Hr; [destruct Hr|]. inversion Hl; subst. cbn [total].
    destruct Hr as [<-|Hr]; [cbn [snd]; lia|]. specialize (IHl H3 r Hr). lia. }
  rewrite Forall_forall. intros r Hr.
  inversion H1 as [|a l Ha Hl]; subst. inversion Hl as [|b l' Hb Hl']; subst.
  destruct r1 as [lo1 n1], r2 as [lo2 n2]. cbn [snd total] in *.
  destruct Hr as [<-|[<-|Hr]]; cbn [snd].
  - assert (0 <= total rs) by lia. lia.
  - lia.
  - pose proof (T rs Hl' r Hr). lia.
Qed.

Lemma storage_minimal : forall W, 1 <= W <= 128 ->
  In (storage W) [8; 16; 32; 64; 128] /\ W <= storage W /\
  forall s, In s [8; 16; 32; 64; 128] -> W <= s -> storage W <= s.
Proof.
  intros W HW. unfold storage.
  destruct (N.leb_spec W 8); [|destruct (N.leb_spec W 16); [|destruct (N.leb_spec W 32); [|destruct (N.leb_spec W 64)]]];
    (split; [cbn; tauto|split; [lia|]]); intros s Hs Hle; cbn in Hs; lia.
Qed.

Lemma storage_range W : 1 <= storage W <= 128.
Proof.
  unfold storage. destruct (W <=? 8); [lia|]. destruct (W <=? 16); [lia|].
  destruct (W <=? 32); [lia|]. destruct (W <=? 64); lia.
Qed.

Section GetterMain.
Variable c : bool.
Variable W : N.
Hypothesis HW : base_ok W = true.

Let S := storage W.

Lemma HW128 : W <= 128.
Proof. unfold base_ok in HW. lia. Qed.

Lemma W_le_S : W <= S.
Proof. apply storage_ge. apply HW128. Qed.

Definition arr_of (f : field) : option (N * N) :=
  match f_count f with Some k => Some (k, stride f) | None => None end.

Lemma elem_ranges_shift f i : i < count f ->
  elem_ranges f i = shift_ranges (shift_of (arr_of f) i) (ranges f).
Proof.
  intros Hi. unfold elem_ranges, arr_of, count in *. destruct (f_count f); cbn [shift_of]; [reflexivity|].
  assert (i = 0) as -> by lia. now rewrite N.mul_0_l.
Qed.

Lemma env_ok_mk raw i arg : raw < 2 ^ W -> i < 2 ^ 64 -> env_ok S (mk_env W raw i arg) raw i.
Proof.
  intros Hr Hi. constructor; cbn; try reflexivity; [|exact Hi].
  eapply N.lt_le_trans; [exact Hr|]. apply pow2_mono. apply W_le_S.
Qed.

(** side conditions shared by getters and setters *)
Lemma side_conditions f i :
  field_facts W f -> i < count f ->
  (match arr_of f with Some (_, s) => s < 2 ^ 64 | None => True end)
  /\ shift_of (arr_of f) i < 2 ^ 64
  /\ Forall (fun r => 1 <= snd r /\ fst r + shift_of (arr_of f) i + snd r <= S) (ranges f).
Proof.
  intros F Hi. pose proof HW128 as H128. pose proof W_le_S as HWS.
  assert (Hsh : shift_of (arr_of f) i <= W).
  { unfold arr_of, shift_of. destruct (f_count f) as [k|] eqn:Ek; [|lia].
    pose proof (ff_bound W f F) as Hb. unfold count in *. rewrite Ek in *.
    assert (i * stride f <= (k - 1) * stride f) by (apply N.mul_le_mono_r; lia). lia. }
  split; [|split].
  - unfold arr_of. destruct (f_count f) as [k|] eqn:Ek; [|exact I].
    pose proof (ff_bound W f F) as Hb. unfold count in *. rewrite Ek in *.
    pose proof (ff_count W f F k Ek) as Hk2.
    assert (1 * stride f <= (k - 1) * stride f) by (apply N.mul_le_mono_r; lia).
    rewrite pow2_64_val. lia.
  - rewrite pow2_64_val. lia.
  - rewrite Forall_forall. intros r Hr. split.
    + pose proof (ff_pos W f F) as Hp. rewrite Forall_forall in Hp. now apply Hp.
    + pose proof (elem_fits W f i r F Hi Hr) as He.
      unfold arr_of, shift_of. destruct (f_count f) as [k|] eqn:Ek.
      * lia.
      * unfold count in Hi. rewrite Ek in Hi. assert (i = 0) by lia. subst i. rewrite N.mul_0_l in He. lia.
Qed.

(** the integer the getter produces before the conversion to a custom type *)
Definition core_value (t : fty) (g : N) : value :=
  match t with
  | FBool => VBool (N.testbit g 0)
  | FU n | FCustom _ n _ => VInt (uty n) g
  | FI n => VInt (TI n) g
  end.

Lemma uty_native n : is_native n = true -> uty n = TU n.
Proof. unfold uty. now intros ->. Qed.
Lemma uty_arb n : is_native n = false -> uty n = TAU (storage n) n.
Proof. unfold uty. now intros ->. Qed.

Lemma is_native_1 : is_native 1 = false.
Proof. reflexivity. Qed.

Lemma extracted_ok ρ f i raw :
  field_facts W f -> total (ranges f) <= S -> i < count f -> env_ok S ρ raw i ->
  eval c ρ (extracted_bits S f)
  = Ok (core_value (f_ty f) (gather (shift_ranges (shift_of (arr_of f) i) (ranges f)) raw)).
Proof.
  intros F Htot Hi E.
  destruct (side_conditions f i F Hi) as (Hs & Hsh & HF).
  pose proof (storage_range W) as [HS1 HS128]. fold S in HS1, HS128.
  pose proof (ff_width W f F) as Hw. pose proof (ff_ty W f F) as Hty.
  unfold extracted_bits. fold (arr_of f).
  set (rs := ranges f) in *. set (sh := shift_of (arr_of f) i) in *.
  destruct (f_ty f) as [|n|n|name n opt] eqn:Et; cbn [is_bool use_regular core_value ty_width ty_ok prim_ty] in *.
  - (* bool *)
    destruct (ff_bool W f F Et) as (lo & Er). fold rs in Er. rewrite Er in *.
    inversion HF as [|r l [_ Hfit] _]; subst. cbn [fst snd] in Hfit.
    assert (Hp : eval c ρ (pos (arr_of f) lo) = Ok (VInt TUsize (lo + sh))).
    { apply (eval_pos c S ρ raw i (arr_of f) lo E Hs Hsh); rewrite pow2_64_val; lia. }
    rewrite (ev_bin c ρ ONe _ _ (VInt (TU S) (N.land raw (2 ^ (lo + sh)))) (VInt TLit 0)).
    + rewrite bin_ne0 by (apply land_lt_l; apply E). rewrite land_pow2_ne0.
      cbn [shift_ranges map]. f_equal. f_equal. symmetry. apply gather_bit0. reflexivity.
    + rewrite (ev_bin c ρ OAnd _ _ _ _ (eval_raw c S ρ raw i E) (eval_one_shl c S HS1 HS128 ρ _ _ Hp ltac:(lia))).
      apply bin_and; [apply E|]. apply pow2_lt_mono. lia.
    + reflexivity.
  - (* uN *)
    destruct (is_native n) eqn:En.
    + rewrite (uty_native n En).
      apply (getter_regular c S HS1 HS128 ρ raw i (arr_of f) rs (TU n) E Hs Hsh (ff_ne W f F) HF Htot). exact Hw.
    + rewrite (uty_arb n En), Hw.
      apply (getter_arbitrary c S HS1 HS128 ρ raw i (arr_of f) rs E Hs Hsh (ff_ne W f F) HF Htot).
      destruct rs as [|r1 [|r2 rs']]; [constructor|exact I|].
      apply multi_range_narrow; [|exact Htot]. rewrite Forall_forall in *. intros r Hr. now destruct (HF r Hr).
  - (* iN *)
    apply (getter_regular c S HS1 HS128 ρ raw i (arr_of f) rs (TI n) E Hs Hsh (ff_ne W f F) HF Htot). exact Hw.
  - (* custom *)
    destruct (negb (n =? 1) && is_native n) eqn:Er.
    + apply andb_prop in Er. destruct Er as [_ En]. rewrite (uty_native n En), (storage_native n En).
      apply (getter_regular c S HS1 HS128 ρ raw i (arr_of f) rs (TU n) E Hs Hsh (ff_ne W f F) HF Htot). exact Hw.
    + assert (En : is_native n = false).
      { destruct (N.eqb_spec n 1) as [->|]; [reflexivity|]. cbn [negb andb] in Er. exact Er. }
      rewrite (uty_arb n En), Hw.
      apply (getter_arbitrary c S HS1 HS128 ρ raw i (arr_of f) rs E Hs Hsh (ff_ne W f F) HF Htot).
      destruct rs as [|r1 [|r2 rs']]; [constructor|exact I|].
      apply multi_range_narrow; [|exact Htot]. rewrite Forall_forall in *. intros r Hr. now destruct (HF r Hr).
Qed.

(** C01/C03/C04/C05/C08 for the generator model: the getter of EVERY valid field returns exactly the
    declared bits, presented as the declared type, for every raw value and in-range index, in both
    profiles, without panic. *)
Theorem gen_getter_correct f i raw :
  valid_field W f = true -> count f < 2 ^ 64 -> total (ranges f) <= S ->
  i < count f -> raw < 2 ^ W ->
  eval c (mk_env W raw i (VBool false)) (gen_getter S f) = Ok (present (f_ty f) (spec_get f i raw)).
Proof.
  intros Hv Hc Htot Hi Hraw.
  pose proof (valid_field_facts W f Hv) as F.
  assert (Hi64 : i < 2 ^ 64) by lia.
  set (ρ := mk_env W raw i (VBool false)).
  pose proof (env_ok_mk raw i (VBool false) Hraw Hi64) as E. fold ρ in E.
  unfold spec_get. rewrite (elem_ranges_shift f i Hi).
  set (g := gather (shift_ranges (shift_of (arr_of f) i) (ranges f)) raw).
  assert (Body : forall ρ', env_ok S ρ' raw i ->
            eval c ρ' (match is_custom (f_ty f) with
                       | Some name => ELet "extracted_bits" (extracted_bits S f) (ECustomNew name (EVar "extracted_bits"))
                       | None => extracted_bits S f
                       end) = Ok (present (f_ty f) g)).
  { intros ρ' E'. pose proof (extracted_ok ρ' f i raw F Htot Hi E') as X. fold g in X.
    destruct (f_ty f) as [|n|n|name n opt]; cbn [is_custom core_value present] in *; try exact X.
    rewrite (ev_let c ρ' _ _ _ _ X).
    apply ev_customnew. apply ev_var. cbn [bind_var e_vars lookup]. now rewrite String.eqb_refl. }
  unfold gen_getter, with_index_assert. destruct (f_count f) as [k|] eqn:Ek.
  - rewrite (ev_assert c ρ _ _ (i <? k)).
    + unfold count in Hi. rewrite Ek in Hi. destruct (N.ltb_spec i k); [|lia]. now apply Body.
    + rewrite (ev_bin c ρ OLt _ _ _ _ (eval_idx c S ρ raw i E) (eval_usz c ρ k ltac:(unfold count in Hc; rewrite Ek in Hc; exact Hc))).
      apply bin_lt_usz; [exact Hi64|]. unfold count in Hc. now rewrite Ek in Hc.
  - now apply Body.
Qed.
End GetterMain.

(** ** setters: the bit-level content *)

Definition mask_spec (M : N) (rs : list range) : Prop := forall k, N.testbit M k = covers rs k.

Definition nb_spec (NB : N) (rs : list range) (v : N) : Prop :=
  forall k, N.testbit NB k = match find_pos rs 0 k with Some j => N.testbit v j | None => false end.

Lemma mask_lt M rs S : mask_spec M rs -> max_end rs <= S -> M < 2 ^ S.
Proof.
  intros HM Hm. apply small_of_testbit. intros k Hk. rewrite HM.
  destruct (covers rs k) eqn:C; [|reflexivity]. apply max_end_covers in C. lia.
Qed.

Lemma nb_lt NB rs v S : nb_spec NB rs v -> max_end rs <= S -> NB < 2 ^ S.
Proof.
  intros HN Hm. apply small_of_testbit. intros k Hk. rewrite HN.
  destruct (find_pos rs 0 k) as [j|] eqn:E; [|reflexivity].
  assert (C : covers rs k = true).
  { destruct (covers rs k) eqn:C; [reflexivity|]. apply (find_pos_None_covers rs 0) in C. congruence. }
  apply max_end_covers in C. lia.
Qed.

(** [(raw & !M) | NB] is the scatter of the abstract register *)
Lemma clear_and_set S M NB rs v raw :
  mask_spec M rs -> nb_spec NB rs v -> raw < 2 ^ S -> max_end rs <= S ->
  N.lor (N.land raw (notw S M)) NB = scatter rs 0 v raw.
Proof.
  intros HM HN Hraw Hm. apply N.bits_inj. intros k.
  rewrite N.lor_spec, N.land_spec, notw_spec, HM, HN, scatter_spec.
  destruct (find_pos rs 0 k) as [j|] eqn:E.
  - assert (C : covers rs k = true).
    { destruct (covers rs k) eqn:C; [reflexivity|]. apply (find_pos_None_covers rs 0) in C. congruence. }
    rewrite C. cbn [negb]. now rewrite andb_false_r, andb_false_r.
  - apply (find_pos_None_covers rs 0) in E. rewrite E. cbn [negb]. rewrite andb_true_r, orb_false_r.
    destruct (N.ltb_spec k S); [now rewrite andb_true_r|].
    rewrite andb_false_r. symmetry. now apply (testbit_small raw S).
Qed.

(** one range *)
Lemma mask_spec_single p n : mask_spec (N.shiftl (N.ones n) p) [(p, n)].
Proof.
  intros k. change (N.shiftl (N.ones n) p) with (range_mask (p, n)). rewrite range_mask_spec.
  cbn [covers existsb fst snd]. now rewrite orb_false_r.
Qed.

Lemma nb_spec_single p n v : v < 2 ^ n -> nb_spec (N.shiftl v p) [(p, n)] v.
Proof.
  intros Hv k. cbn [find_pos]. destruct (N.leb_spec p k); cbn [andb].
  - rewrite N.shiftl_spec_high' by lia. destruct (N.ltb_spec k (p + n)).
    + f_equal; lia.
    + apply (testbit_small v n); [exact Hv|lia].
  - now rewrite N.shiftl_spec_low.
Qed.

(** OR-folds *)
Lemma fold_lor_bit vs : forall a k,
  N.testbit (fold_left N.lor vs a) k = N.testbit a k || existsb (fun v => N.testbit v k) vs.
Proof.
  induction vs as [|v vs IH]; intros a k; cbn [fold_left existsb]; [now rewrite orb_false_r|].
  rewrite IH, N.lor_spec. now rewrite orb_assoc.
Qed.

Definition mask_vals (rs : list range) : list N := map (fun '(lo, n) => N.shiftl (N.ones n) lo) rs.

Lemma mask_vals_spec rs a : (forall k, N.testbit a k = false) ->
  mask_spec (fold_left N.lor (mask_vals rs) a) rs.
Proof.
  intros Ha k. rewrite fold_lor_bit, Ha. cbn [orb]. unfold mask_vals, covers.
  induction rs as [|[lo n] rs IH]; cbn [map existsb]; [reflexivity|].
  rewrite IH. f_equal. change (N.shiftl (N.ones n) lo) with (range_mask (lo, n)). now rewrite range_mask_spec.
Qed.

Fixpoint nb_vals (rs : list range) (off v : N) : list N :=
  match rs with
  | [] => []
  | (lo, n) :: rs' => N.shiftl (bitsN off n v) lo :: nb_vals rs' (off + n) v
  end.

Lemma nb_val_bit lo n off v k :
  N.testbit (N.shiftl (bitsN off n v) lo) k = (lo <=? k) && (k <? lo + n) && N.testbit v (off + (k - lo)).
Proof.
  destruct (N.leb_spec lo k); cbn [andb].
  - rewrite N.shiftl_spec_high' by lia. rewrite bitsN_spec.
    destruct (N.ltb_spec (k - lo) n); destruct (N.ltb_spec k (lo + n)); try lia; cbn [andb]; try reflexivity.
    f_equal; lia.
  - now rewrite N.shiftl_spec_low.
Qed.

Lemma nb_vals_bit rs : NoDupBits rs -> forall off v k,
  existsb (fun x => N.testbit x k) (nb_vals rs off v)
  = match find_pos rs off k with Some j => N.testbit v j | None => false end.
Proof.
  induction rs as [|[lo n] rs IH]; cbn [NoDupBits nb_vals existsb find_pos]; intros ND off v k; [reflexivity|].
  destruct ND as [Hd ND]. rewrite (IH ND), nb_val_bit.
  destruct (N.leb_spec lo k) as [H1|H1]; cbn [andb]; [|now destruct (find_pos rs (off + n) k)].
  destruct (N.ltb_spec k (lo + n)) as [H2|H2]; cbn [andb]; [|now destruct (find_pos rs (off + n) k)].
  assert (C : covers rs k = false) by (apply Hd; lia).
  apply (find_pos_None_covers rs (off + n)) in C. rewrite C. now rewrite orb_false_r.
Qed.

Lemma nb_vals_spec rs v a : NoDupBits rs -> (forall k, N.testbit a k = false) ->
  nb_spec (fold_left N.lor (nb_vals rs 0 v) a) rs v.
Proof. intros ND Ha k. rewrite fold_lor_bit, Ha. cbn [orb]. now apply nb_vals_bit. Qed.

(** moving an element up by [sh] *)
Lemma find_pos_shift sh rs : forall off k,
  find_pos (shift_ranges sh rs) off k = if sh <=? k then find_pos rs off (k - sh) else None.
Proof.
  induction rs as [|[lo n] rs IH]; intros off k; cbn [shift_ranges map find_pos]; [now destruct (sh <=? k)|].
  fold (shift_ranges sh rs). rewrite IH. destruct (N.leb_spec sh k).
  - destruct (find_pos rs (off + n) (k - sh)); [reflexivity|].
    destruct (N.leb_spec (lo + sh) k); destruct (N.leb_spec lo (k - sh)); try lia; cbn [andb]; [|reflexivity].
    destruct (N.ltb_spec k (lo + sh + n)); destruct (N.ltb_spec (k - sh) (lo + n)); try lia; [|reflexivity].
    f_equal. lia.
  - destruct (N.leb_spec (lo + sh) k); [lia|reflexivity].
Qed.

Lemma mask_spec_shift M rs sh : mask_spec M rs -> mask_spec (N.shiftl M sh) (shift_ranges sh rs).
Proof.
  intros HM k. rewrite covers_shift. destruct (N.leb_spec sh k); cbn [andb].
  - rewrite N.shiftl_spec_high' by lia. apply HM.
  - now rewrite N.shiftl_spec_low.
Qed.

Lemma nb_spec_shift NB rs v sh : nb_spec NB rs v -> nb_spec (N.shiftl NB sh) (shift_ranges sh rs) v.
Proof.
  intros HN k. rewrite find_pos_shift. destruct (N.leb_spec sh k).
  - rewrite N.shiftl_spec_high' by lia. apply HN.
  - now rewrite N.shiftl_spec_low.
Qed.

(** ** setters: evaluating the templates *)

Section Setter.
Variable c : bool.
Variable S : N.
Hypothesis HS1 : 1 <= S.
Hypothesis HS128 : S <= 128.

Notation env_ok := (env_ok S).

(** the argument, widened to the storage type: [#argument_converted as uS] *)
Lemma eval_arg_as_storage ρ t v :
  e_arg ρ = present t v -> is_bool t = false -> ty_ok t = true ->
  v < 2 ^ ty_width t -> ty_width t <= S ->
  eval c ρ (ECast (argument_converted t) (TU S)) = Ok (VInt (TU S) v).
Proof.
  intros Ha Hb Hty Hv Hw.
  assert (Hvs : v < 2 ^ S) by (eapply N.lt_le_trans; [exact Hv|now apply pow2_mono]).
  assert (Fin : forall m e, eval c ρ e = Ok (VInt (TU m) v) -> eval c ρ (ECast e (TU S)) = Ok (VInt (TU S) v)).
  { intros m e He. rewrite (ev_cast c ρ e _ _ He). cbn [cast_eval is_int_target negb width]. now rewrite wrap_small. }
  assert (EA : eval c ρ EArg = Ok (present t v)) by (cbn [eval]; now rewrite Ha).
  destruct t as [|n|n|name n opt]; cbn [is_bool ty_ok ty_width present argument_converted use_regular] in *; [discriminate| | |].
  - destruct (is_native n) eqn:En.
    + apply (Fin n). now rewrite EA, (uty_native n En).
    + apply (Fin (storage n)). rewrite (ev_uvalue c ρ _ _ EA), (uty_arb n En). cbn [uvalue_eval].
      assert (n <= storage n) by (apply storage_ge; lia). destruct (N.leb_spec n (storage n)); [reflexivity|lia].
  - apply (Fin n). rewrite (ev_cast c ρ _ _ _ EA). cbn [cast_eval is_int_target negb width].
    destruct (N.leb_spec n n); [|lia]. now rewrite wrap_small.
  - destruct (negb (n =? 1) && is_native n) eqn:Er.
    + apply andb_prop in Er. destruct Er as [_ En]. apply (Fin n).
      apply (ev_customraw c ρ EArg name). now rewrite EA, (uty_native n En).
    + assert (En : is_native n = false).
      { destruct (N.eqb_spec n 1) as [->|]; [reflexivity|]. cbn [negb andb] in Er. exact Er. }
      apply (Fin (storage n)).
      rewrite (ev_uvalue c ρ _ (VInt (uty n) v)); [|apply (ev_customraw c ρ EArg name); exact EA].
      rewrite (uty_arb n En). cbn [uvalue_eval].
      assert (n <= storage n) by (apply storage_ge; lia). destruct (N.leb_spec n (storage n)); [reflexivity|lia].
Qed.

(** bool: [if v { raw | (1 << p) } else { raw & !(1 << p) }] *)
Lemma bool_set_bits p v raw : v < 2 ^ 1 -> p < S -> raw < 2 ^ S ->
  (if N.testbit v 0 then N.lor raw (2 ^ p) else N.land raw (notw S (2 ^ p))) = scatter [(p, 1)] 0 v raw.
Proof.
  intros Hv Hp Hraw. apply N.bits_inj. intros k. rewrite scatter_spec. cbn [find_pos].
  destruct (N.testbit v 0) eqn:B.
  - rewrite N.lor_spec, N.pow2_bits_eqb.
    destruct (N.leb_spec p k); destruct (N.ltb_spec k (p + 1)); cbn [andb];
      destruct (N.eqb_spec p k); try lia; rewrite ?orb_false_r; try reflexivity.
    subst k. rewrite N.sub_diag, N.add_0_l, B. apply orb_true_r.
  - rewrite N.land_spec, notw_spec, N.pow2_bits_eqb.
    assert (R : S <= k -> N.testbit raw k = false) by (intros; now apply (testbit_small raw S)).
    destruct (N.eqb_spec p k) as [<-|Hne].
    + destruct (N.leb_spec p p); [|lia]. destruct (N.ltb_spec p (p + 1)); [|lia]. cbn [andb negb].
      rewrite N.sub_diag, N.add_0_l, B. now rewrite !andb_false_r.
    + assert (X : (p <=? k) && (k <? p + 1) = false).
      { destruct (N.leb_spec p k); destruct (N.ltb_spec k (p + 1)); try reflexivity; lia. }
      rewrite X. cbn [negb]. rewrite andb_true_r.
      destruct (N.ltb_spec k S); [now rewrite andb_true_r|]. rewrite andb_false_r. symmetry. now apply R.
Qed.

Lemma eval_bool_set ρ raw i pe p v :
  env_ok ρ raw i -> e_arg ρ = VBool (N.testbit v 0) -> v < 2 ^ 1 ->
  eval c ρ pe = Ok (VInt TUsize p) -> p < S ->
  eval c ρ (EIf EArg (EBin OOr ERaw (EBin OShl (one S) pe)) (EBin OAnd ERaw (ENot (EBin OShl (one S) pe))))
  = Ok (VInt (TU S) (scatter [(p, 1)] 0 v raw)).
Proof.
  intros E Ha Hv Hp Hps.
  assert (EA : eval c ρ EArg = Ok (VBool (N.testbit v 0))) by (cbn [eval]; now rewrite Ha).
  pose proof (eval_one_shl c S HS1 HS128 ρ pe p Hp Hps) as Hsh.
  assert (H2 : 2 ^ p < 2 ^ S) by now apply pow2_lt_mono.
  rewrite (ev_if c ρ _ _ _ _ EA), <- (bool_set_bits p v raw Hv Hps (eo_raw_lt _ _ _ _ E)).
  destruct (N.testbit v 0).
  - rewrite (ev_bin c ρ OOr _ _ _ _ (eval_raw c S ρ raw i E) Hsh). apply bin_or; [apply E|exact H2].
  - rewrite (ev_bin c ρ OAnd _ _ (VInt (TU S) raw) (VInt (TU S) (notw S (2 ^ p)))).
    + apply bin_and; [apply E|apply notw_lt].
    + apply (eval_raw c S ρ raw i E).
    + rewrite (ev_not c ρ _ _ Hsh). reflexivity.
Qed.

(** one range: [(raw & !(((1 << n) - 1) << p)) | ((A as uS) << p)] *)
Lemma eval_single_set ρ raw i pe p n ae v :
  env_ok ρ raw i -> eval c ρ pe = Ok (VInt TUsize p) -> eval c ρ ae = Ok (VInt (TU S) v) ->
  1 <= n -> n < S -> p + n <= S -> v < 2 ^ n ->
  eval c ρ (EBin OOr (EBin OAnd ERaw (ENot (EBin OShl (lowmask S n) pe))) (EBin OShl ae pe))
  = Ok (VInt (TU S) (scatter [(p, n)] 0 v raw)).
Proof.
  intros E Hp Ha Hn1 Hn Hfit Hv.
  assert (Hps : p < S) by lia.
  assert (Hm : max_end [(p, n)] <= S) by (cbn; lia).
  pose proof (mask_spec_single p n) as HM. pose proof (nb_spec_single p n v Hv) as HN.
  pose proof (mask_lt _ _ S HM Hm) as HMlt. pose proof (nb_lt _ _ _ S HN Hm) as HNlt.
  rewrite <- (clear_and_set S _ _ _ v raw HM HN (eo_raw_lt _ _ _ _ E) Hm).
  rewrite (ev_bin c ρ OOr _ _ (VInt (TU S) (N.land raw (notw S (N.shiftl (N.ones n) p)))) (VInt (TU S) (N.shiftl v p))).
  - apply bin_or; [apply land_lt_l; apply E|exact HNlt].
  - rewrite (ev_bin c ρ OAnd _ _ (VInt (TU S) raw) (VInt (TU S) (notw S (N.shiftl (N.ones n) p)))).
    + apply bin_and; [apply E|apply notw_lt].
    + apply (eval_raw c S ρ raw i E).
    + rewrite (ev_not c ρ _ (VInt (TU S) (N.shiftl (N.ones n) p))); [reflexivity|].
      rewrite (ev_bin c ρ OShl _ _ _ _ (eval_lowmask c S HS1 HS128 ρ n Hn) Hp), bin_shl by exact Hps.
      now rewrite wrap_small.
  - rewrite (ev_bin c ρ OShl _ _ _ _ Ha Hp), bin_shl by exact Hps. now rewrite wrap_small.
Qed.

(** the whole storage integer: [A as uS] *)
Lemma full_width_set v raw : v < 2 ^ S -> raw < 2 ^ S -> scatter [(0, S)] 0 v raw = v.
Proof.
  intros Hv Hraw. apply N.bits_inj. intros k. rewrite scatter_spec. cbn [find_pos].
  destruct (N.leb_spec 0 k); [|lia]. cbn [andb]. rewrite N.add_0_l.
  destruct (N.ltb_spec k S); [now rewrite N.add_0_l, N.sub_0_r|].
  now rewrite (testbit_small raw S k), (testbit_small v S k).
Qed.

(** range lists *)
Definition list_fit (rs : list range) : Prop :=
  Forall (fun r => 1 <= snd r /\ snd r < S /\ fst r + snd r <= S) rs.

Lemma eval_mask_terms ρ rs : list_fit rs ->
  Forall2 (fun e v => eval c ρ e = Ok (VInt (TU S) v) /\ v < 2 ^ S) (mask_terms S rs) (mask_vals rs).
Proof.
  induction rs as [|[lo n] rs IH]; intros HF; cbn [mask_terms mask_vals map]; [constructor|].
  inversion HF as [|r l (H1 & H2 & H3) HF']; subst. cbn [fst snd] in *.
  constructor; [|now apply IH].
  assert (Hlo : lo < 2 ^ 64) by (rewrite pow2_64_val; lia).
  pose proof (mask_lt _ _ S (mask_spec_single lo n) ltac:(cbn; lia)) as Hlt.
  split; [|exact Hlt].
  rewrite (ev_bin c ρ OShl _ _ _ _ (eval_lowmask c S HS1 HS128 ρ n H2) (eval_usz c ρ lo Hlo)), bin_shl by lia.
  now rewrite wrap_small.
Qed.

Lemma eval_newbits_terms ρ v : lookup "temp" (e_vars ρ) = Some (VInt (TU S) v) -> v < 2 ^ S ->
  forall rs off, list_fit rs -> off + total rs <= S ->
  Forall2 (fun e x => eval c ρ e = Ok (VInt (TU S) x) /\ x < 2 ^ S) (newbits_terms S rs off) (nb_vals rs off v).
Proof.
  intros Hl Hv. induction rs as [|[lo n] rs IH]; intros off HF Htot; cbn [newbits_terms nb_vals]; [constructor|].
  inversion HF as [|r l (H1 & H2 & H3) HF']; subst. cbn [fst snd total] in *.
  constructor; [|apply IH; [exact HF'|lia]].
  assert (Hlo : lo < 2 ^ 64) by (rewrite pow2_64_val; lia).
  assert (Hoff : off < 2 ^ 64) by (rewrite pow2_64_val; lia).
  assert (Hb : N.shiftl (bitsN off n v) lo < 2 ^ S).
  { apply small_of_testbit. intros k Hk. rewrite nb_val_bit.
    destruct (N.leb_spec lo k); destruct (N.ltb_spec k (lo + n)); try reflexivity. lia. }
  split; [|exact Hb].
  rewrite (ev_bin c ρ OShl _ _ (VInt (TU S) (bitsN off n v)) (VInt TUsize lo)).
  - rewrite bin_shl by lia. now rewrite wrap_small.
  - rewrite (ev_bin c ρ OAnd _ _ (VInt (TU S) (N.shiftr v off)) (VInt (TU S) (N.ones n))).
    + rewrite bin_and; [reflexivity|now apply shiftr_lt|].
      eapply N.lt_trans; [apply ones_lt|]. now apply pow2_lt_mono.
    + rewrite (ev_bin c ρ OShr _ _ _ _ (ev_var c ρ "temp" _ Hl) (eval_usz c ρ off Hoff)). apply bin_shr. lia.
    + now apply eval_lowmask.
  - now apply eval_usz.
Qed.

Lemma eval_ors ρ l vs :
  l <> [] ->
  Forall2 (fun e v => eval c ρ e = Ok (VInt (TU S) v) /\ v < 2 ^ S) l vs ->
  eval c ρ (ors l) = Ok (VInt (TU S) (fold_left N.lor vs 0)) /\ fold_left N.lor vs 0 < 2 ^ S.
Proof.
  intros Hne HF. destruct l as [|e l]; [congruence|]. inversion HF as [|e' v l' vs' [He Hv] HF']; subst.
  cbn [ors fold_left]. rewrite N.lor_0_l. now apply eval_or_all.
Qed.

Lemma bits_0_false k : N.testbit 0 k = false.
Proof. apply N.bits_0. Qed.

(** S7: [{ let temp = A as uS; const CLEAR_MASK: uS = !(mask); raw & CLEAR_MASK | new_bits }] *)
Lemma eval_list_set ρ raw i rs ae v :
  env_ok ρ raw i -> eval c ρ ae = Ok (VInt (TU S) v) -> v < 2 ^ S ->
  rs <> [] -> list_fit rs -> total rs <= S -> NoDupBits rs ->
  eval c ρ (ELet "temp" ae
             (ELet "CLEAR_MASK" (ENot (ors (mask_terms S rs)))
                (EBin OOr (EBin OAnd ERaw (EVar "CLEAR_MASK")) (ors (newbits_terms S rs 0)))))
  = Ok (VInt (TU S) (scatter rs 0 v raw)).
Proof.
  intros E Ha Hv Hne HF Htot ND.
  set (ρ1 := bind_var "temp" (VInt (TU S) v) ρ).
  set (M := fold_left N.lor (mask_vals rs) 0).
  set (NB := fold_left N.lor (nb_vals rs 0 v) 0).
  assert (Hmax : max_end rs <= S).
  { clear - HF. induction rs as [|[lo n] rs IH]; [cbn; lia|]. inversion HF as [|r l (H1 & H2 & H3) HF']; subst.
    specialize (IH HF'). cbn [max_end fold_right fst snd] in *. unfold max_end in IH. lia. }
  pose proof (mask_vals_spec rs 0 bits_0_false) as HM. fold M in HM.
  pose proof (nb_vals_spec rs v 0 ND bits_0_false) as HN. fold NB in HN.
  assert (Hmne : mask_terms S rs <> []) by (destruct rs; [congruence|discriminate]).
  assert (Hnne : newbits_terms S rs 0 <> []) by (destruct rs as [|[? ?] ?]; [congruence|discriminate]).
  rewrite (ev_let c ρ _ _ _ _ Ha). fold ρ1.
  destruct (eval_ors ρ1 _ _ Hmne (eval_mask_terms ρ1 rs HF)) as [EM HMlt]. fold M in EM, HMlt.
  rewrite (ev_let c ρ1 "CLEAR_MASK" _ _ (VInt (TU S) (notw S M))); [|now rewrite (ev_not c ρ1 _ _ EM)].
  set (ρ2 := bind_var "CLEAR_MASK" (VInt (TU S) (notw S M)) ρ1).
  assert (E2 : env_ok ρ2 raw i) by (apply env_ok_bind; now apply env_ok_bind).
  assert (Ht : lookup "temp" (e_vars ρ2) = Some (VInt (TU S) v)) by reflexivity.
  destruct (eval_ors ρ2 _ _ Hnne (eval_newbits_terms ρ2 v Ht Hv rs 0 HF ltac:(rewrite N.add_0_l; exact Htot))) as [EN HNlt].
  fold NB in EN, HNlt.
  rewrite <- (clear_and_set S M NB rs v raw HM HN (eo_raw_lt _ _ _ _ E) Hmax).
  rewrite (ev_bin c ρ2 OOr _ _ (VInt (TU S) (N.land raw (notw S M))) (VInt (TU S) NB)).
  - apply bin_or; [apply land_lt_l; apply E|exact HNlt].
  - rewrite (ev_bin c ρ2 OAnd _ _ (VInt (TU S) raw) (VInt (TU S) (notw S M))).
    + apply bin_and; [apply E|apply notw_lt].
    + apply (eval_raw c S ρ2 raw i E2).
    + now apply ev_var.
  - exact EN.
Qed.

(** S3: [{ let temp = A as uS; const MASK: uS = mask; raw & !(MASK << sh) | (new_bits << sh) }] *)
Lemma eval_list_array_set ρ raw i rs ae v she sh :
  env_ok ρ raw i -> eval c ρ ae = Ok (VInt (TU S) v) -> v < 2 ^ S ->
  (forall ρ', e_idx ρ' = e_idx ρ -> eval c ρ' she = Ok (VInt TUsize sh)) ->
  rs <> [] -> list_fit rs -> total rs <= S -> NoDupBits rs -> max_end rs + sh <= S ->
  eval c ρ (ELet "temp" ae
             (ELet "MASK" (ors (mask_terms S rs))
                (EBin OOr (EBin OAnd ERaw (ENot (EBin OShl (EVar "MASK") she)))
                          (EBin OShl (ors (newbits_terms S rs 0)) she))))
  = Ok (VInt (TU S) (scatter (shift_ranges sh rs) 0 v raw)).
Proof.
  intros E Ha Hv Hsh Hne HF Htot ND Hfit.
  set (ρ1 := bind_var "temp" (VInt (TU S) v) ρ).
  set (M := fold_left N.lor (mask_vals rs) 0).
  set (NB := fold_left N.lor (nb_vals rs 0 v) 0).
  assert (Hmax1 : 1 <= max_end rs).
  { destruct rs as [|[lo n] rs']; [congruence|]. inversion HF as [|r l (H1 & H2 & H3) HF']; subst.
    cbn [max_end fold_right fst snd] in *. lia. }
  assert (Hshs : sh < S) by lia.
  pose proof (mask_spec_shift M rs sh (mask_vals_spec rs 0 bits_0_false)) as HM.
  pose proof (nb_spec_shift NB rs v sh (nb_vals_spec rs v 0 ND bits_0_false)) as HN.
  assert (Hmax : max_end (shift_ranges sh rs) <= S) by (rewrite max_end_shift by exact Hne; lia).
  pose proof (mask_lt _ _ S HM Hmax) as HMs. pose proof (nb_lt _ _ _ S HN Hmax) as HNs.
  assert (Hmne : mask_terms S rs <> []) by (destruct rs; [congruence|discriminate]).
  assert (Hnne : newbits_terms S rs 0 <> []) by (destruct rs as [|[? ?] ?]; [congruence|discriminate]).
  rewrite (ev_let c ρ _ _ _ _ Ha). fold ρ1.
  destruct (eval_ors ρ1 _ _ Hmne (eval_mask_terms ρ1 rs HF)) as [EM HMlt]. fold M in EM, HMlt.
  rewrite (ev_let c ρ1 "MASK" _ _ _ EM).
  set (ρ2 := bind_var "MASK" (VInt (TU S) M) ρ1).
  assert (E2 : env_ok ρ2 raw i) by (apply env_ok_bind; now apply env_ok_bind).
  assert (Ht : lookup "temp" (e_vars ρ2) = Some (VInt (TU S) v)) by reflexivity.
  destruct (eval_ors ρ2 _ _ Hnne (eval_newbits_terms ρ2 v Ht Hv rs 0 HF ltac:(rewrite N.add_0_l; exact Htot))) as [EN HNlt].
  fold NB in EN, HNlt.
  pose proof (Hsh ρ2 eq_refl) as Hs2.
  rewrite <- (clear_and_set S _ _ _ v raw HM HN (eo_raw_lt _ _ _ _ E) Hmax).
  rewrite (ev_bin c ρ2 OOr _ _ (VInt (TU S) (N.land raw (notw S (N.shiftl M sh)))) (VInt (TU S) (N.shiftl NB sh))).
  - apply bin_or; [apply land_lt_l; apply E|exact HNs].
  - rewrite (ev_bin c ρ2 OAnd _ _ (VInt (TU S) raw) (VInt (TU S) (notw S (N.shiftl M sh)))).
    + apply bin_and; [apply E|apply notw_lt].
    + apply (eval_raw c S ρ2 raw i E2).
    + rewrite (ev_not c ρ2 _ (VInt (TU S) (N.shiftl M sh))); [reflexivity|].
      rewrite (ev_bin c ρ2 OShl _ _ (VInt (TU S) M) _ (ev_var c ρ2 "MASK" _ eq_refl) Hs2), bin_shl by exact Hshs.
      now rewrite wrap_small.
  - rewrite (ev_bin c ρ2 OShl _ _ _ _ EN Hs2), bin_shl by exact Hshs. now rewrite wrap_small.
Qed.
End Setter.

Lemma shift_ranges_0 rs : shift_ranges 0 rs = rs.
Proof. induction rs as [|[lo n] rs IH]; cbn [shift_ranges map]; [reflexivity|]. fold (shift_ranges 0 rs). now rewrite IH, N.add_0_r. Qed.

Section SetterMain.
Variable c : bool.
Variable W : N.
Hypothesis HW : base_ok W = true.

Let S := storage W.

(** C02/C03/C04/C05/C08 for the generator model: the expression pasted into [with_] and [set_] of EVERY
    valid field with distinct bits computes exactly the scatter of the abstract register — the
    field's bits become the argument, every other bit of the storage integer is the receiver's —
    for every raw value, argument and in-range index, in both profiles, without panic. *)
Theorem gen_setter_correct f i raw v :
  valid_field W f = true -> count f < 2 ^ 64 -> NoDupBits (ranges f) -> total (ranges f) <= S ->
  i < count f -> raw < 2 ^ W -> v < 2 ^ ty_width (f_ty f) ->
  eval c (mk_env W raw i (present (f_ty f) v)) (gen_setter S f) = Ok (VInt (TU S) (spec_set f i v raw)).
Proof.
  intros Hv Hc ND Htot Hi Hraw Hval.
  pose proof (valid_field_facts W f Hv) as F.
  assert (Hi64 : i < 2 ^ 64) by lia.
  pose proof (storage_range W) as [HS1 HS128]. fold S in HS1, HS128.
  pose proof (W_le_S W HW) as HWS. fold S in HWS.
  set (ρ := mk_env W raw i (present (f_ty f) v)).
  pose proof (env_ok_mk W HW raw i (present (f_ty f) v) Hraw Hi64) as E. fold S in E. fold ρ in E.
  destruct (side_conditions W HW f i F Hi) as (Hs & Hsh & HF). fold S in HF.
  pose proof (ff_width W f F) as Hw. pose proof (ff_ty W f F) as Hty. pose proof (ff_ne W f F) as Hne.
  unfold spec_set. rewrite (elem_ranges_shift W HW f i Hi).
  set (sh := shift_of (arr_of f) i) in *. set (rs := ranges f) in *.
  assert (Hvs : v < 2 ^ S).
  { eapply N.lt_le_trans; [exact Hval|]. apply pow2_mono. rewrite Hw. exact Htot. }
  assert (Hn1 : Forall (fun r : range => 1 <= snd r) rs).
  { rewrite Forall_forall in *. intros r Hr. now destruct (HF r Hr). }
  (* the argument widened to the storage type, in any environment that keeps the argument *)
  assert (Arg : forall ρ', e_arg ρ' = present (f_ty f) v -> is_bool (f_ty f) = false ->
                 eval c ρ' (ECast (argument_converted (f_ty f)) (TU S)) = Ok (VInt (TU S) v)).
  { intros ρ' Ha Hb. apply (eval_arg_as_storage c S HS1 HS128 ρ' (f_ty f) v Ha Hb Hty Hval). rewrite Hw. exact Htot. }
  assert (Body : eval c ρ (new_raw_value S f) = Ok (VInt (TU S) (scatter (shift_ranges sh rs) 0 v raw))).
  { unfold new_raw_value. fold rs.
    destruct (f_count f) as [k|] eqn:Ek.
    - (* arrays *)
      assert (Esh : sh = i * stride f) by (unfold sh, arr_of; now rewrite Ek).
      assert (Hstr : stride f < 2 ^ 64) by (unfold arr_of in Hs; now rewrite Ek in Hs).
      assert (Hmul : forall ρ', e_idx ρ' = i -> eval c ρ' (EBin OMul EIdx (usz (stride f))) = Ok (VInt TUsize sh)).
      { intros ρ' Hi'. rewrite (ev_bin c ρ' OMul _ _ (VInt TUsize i) (VInt TUsize (stride f))).
        - rewrite Esh. apply bin_mul_usz; [exact Hi64|exact Hstr|now rewrite <- Esh].
        - cbn [eval]. now rewrite Hi'.
        - now apply eval_usz. }
      destruct (is_bool (f_ty f)) eqn:Eb.
      + destruct (f_ty f) as [| | |] eqn:Et; try discriminate.
        destruct (ff_bool W f F Et) as (lo & Er). fold rs in Er. rewrite Er in *.
        inversion HF as [|r l [_ Hfit] _]; subst. cbn [fst snd] in Hfit.
        rewrite (ev_let c ρ "effective_index" _ _ (VInt TUsize (lo + sh))).
        * cbn [shift_ranges map].
          apply (eval_bool_set c S HS1 HS128 _ raw i (EVar "effective_index") (lo + sh) v);
            [now apply env_ok_bind|reflexivity|exact Hval|now apply ev_var|lia].
        * rewrite (ev_bin c ρ OAdd _ _ (VInt TUsize lo) (VInt TUsize sh)).
          -- apply bin_add_usz; rewrite ?pow2_64_val; lia.
          -- apply eval_usz. rewrite pow2_64_val. lia.
          -- apply Hmul. reflexivity.
      + destruct rs as [|[lo n] [|r2 rs']] eqn:Ers; [congruence| |].
        * inversion HF as [|r l [Hn Hfit] _]; subst. cbn [fst snd total] in *. rewrite N.add_0_r in *.
          pose proof (ff_stride W f F k Ek) as Hst. fold rs in Hst. rewrite Ers in Hst. specialize (Hst eq_refl). cbn [total] in Hst.
          pose proof (ff_bound W f F) as Hb. pose proof (ff_count W f F k Ek) as Hk2. fold rs in Hb. rewrite Ers in Hb.
          unfold count in Hb. rewrite Ek in Hb. cbn [max_end fold_right] in Hb.
          assert (1 * stride f <= (k - 1) * stride f) by (apply N.mul_le_mono_r; lia).
          rewrite (ev_let c ρ "effective_index" _ _ (VInt TUsize (lo + sh))).
          -- cbn [shift_ranges map].
             apply (eval_single_set c S HS1 HS128 _ raw i (EVar "effective_index") (lo + sh) n _ v);
               [now apply env_ok_bind|now apply ev_var|apply Arg; reflexivity|lia|lia|lia|now rewrite <- Hw].
          -- rewrite (ev_bin c ρ OAdd _ _ (VInt TUsize lo) (VInt TUsize sh)).
             ++ apply bin_add_usz; rewrite ?pow2_64_val; lia.
             ++ apply eval_usz. rewrite pow2_64_val. lia.
             ++ apply Hmul. reflexivity.
        * rewrite <- Ers in *.
          assert (Hfit : list_fit S rs).
          { pose proof (multi_range_narrow S _ _ _ ltac:(rewrite <- Ers; exact Hn1) ltac:(rewrite <- Ers; exact Htot)) as Hnar.
            rewrite <- Ers in Hnar. unfold list_fit. rewrite Forall_forall in *. intros r Hr.
            specialize (HF r Hr). specialize (Hnar r Hr). lia. }
          assert (Hme : max_end rs + sh <= S).
          { pose proof (ff_bound W f F) as Hb. fold rs in Hb. unfold count in Hb, Hi. rewrite Ek in Hb, Hi.
            assert (i * stride f <= (k - 1) * stride f) by (apply N.mul_le_mono_r; lia). lia. }
          rewrite Ers. rewrite <- Ers.
          apply (eval_list_array_set c S HS1 HS128 ρ raw i rs _ v (EBin OMul EIdx (usz (stride f))) sh E);
            try assumption.
          all: try (apply Arg; reflexivity).
          all: try (intros ρ' Hi'; apply Hmul; rewrite Hi'; reflexivity).
    - (* plain fields *)
      assert (Esh : sh = 0) by (unfold sh, arr_of; now rewrite Ek).
      rewrite Esh, shift_ranges_0 in *.
      destruct (is_bool (f_ty f)) eqn:Eb.
      + destruct (f_ty f) as [| | |] eqn:Et; try discriminate.
        destruct (ff_bool W f F Et) as (lo & Er). fold rs in Er. rewrite Er in *.
        inversion HF as [|r l [_ Hfit] _]; subst. cbn [fst snd] in Hfit. rewrite N.add_0_r in Hfit.
        apply (eval_bool_set c S HS1 HS128 ρ raw i (usz lo) lo v E); [reflexivity|exact Hval| |lia].
        apply eval_usz. rewrite pow2_64_val. lia.
      + destruct rs as [|[lo n] [|r2 rs']] eqn:Ers; [congruence| |].
        * inversion HF as [|r l [Hn Hfit] _]; subst. cbn [fst snd total] in *. rewrite !N.add_0_r in *.
          destruct (N.eqb_spec n S) as [->|Hns].
          -- assert (lo = 0) as -> by lia.
             change (scatter [(0, S)] 0 v raw) with (scatter [(0, S)] 0 v raw).
             replace (VInt (TU S) (scatter [(0, S)] 0 v raw)) with (VInt (TU S) v)
               by (now rewrite (full_width_set S HS1 HS128 v raw Hvs (eo_raw_lt _ _ _ _ E))).
             apply Arg; reflexivity.
          -- apply (eval_single_set c S HS1 HS128 ρ raw i (usz lo) lo n _ v E);
               [apply eval_usz; rewrite pow2_64_val; lia|apply Arg; reflexivity|lia|lia|lia|now rewrite <- Hw].
        * rewrite <- Ers in *.
          assert (Hfit : list_fit S rs).
          { pose proof (multi_range_narrow S _ _ _ ltac:(rewrite <- Ers; exact Hn1) ltac:(rewrite <- Ers; exact Htot)) as Hnar.
            rewrite <- Ers in Hnar. unfold list_fit. rewrite Forall_forall in *. intros r Hr.
            specialize (HF r Hr). specialize (Hnar r Hr). lia. }
          rewrite Ers. rewrite <- Ers.
          apply (eval_list_set c S HS1 HS128 ρ raw i rs _ v E); try assumption.
          apply Arg; reflexivity. }
  unfold gen_setter, with_index_assert. destruct (f_count f) as [k|] eqn:Ek; [|exact Body].
  rewrite (ev_assert c ρ _ _ (i <? k)).
  - unfold count in Hi. rewrite Ek in Hi. destruct (N.ltb_spec i k); [exact Body|lia].
  - rewrite (ev_bin c ρ OLt _ _ _ _ (eval_idx c S ρ raw i E) (eval_usz c ρ k ltac:(unfold count in Hc; rewrite Ek in Hc; exact Hc))).
    apply bin_lt_usz; [exact Hi64|]. unfold count in Hc. now rewrite Ek in Hc.
Qed.
End SetterMain.

Print Assumptions gen_getter_correct.
Print Assumptions gen_setter_correct.

(** ** raw_value() and new_with_raw_value() *)

Lemma storage_is_native W : W <= 128 -> is_native (storage W) = true.
Proof.
  intros H. unfold storage. destruct (W <=? 8); [reflexivity|]. destruct (W <=? 16); [reflexivity|].
  destruct (W <=? 32); [reflexivity|]. destruct (W <=? 64); reflexivity.
Qed.

Lemma storage_fix W : is_native W = true -> storage W = W.
Proof. apply storage_native. Qed.

Lemma not_native_lt_storage W : W <= 128 -> W <> storage W -> is_native W = false.
Proof.
  intros H Hne. destruct (is_native W) eqn:E; [|reflexivity]. apply storage_native in E. congruence.
Qed.

Theorem gen_raw_value_correct c W raw :
  base_ok W = true -> raw < 2 ^ W ->
  eval c (mk_env W raw 0 (VBool false)) (gen_raw_value (storage W) W) = Ok (VInt (base_ty W) raw).
Proof.
  intros HW Hraw. unfold base_ok in HW. assert (H128 : W <= 128) by lia.
  pose proof (storage_ge W H128) as HWS. unfold gen_raw_value, base_ty.
  destruct (N.eqb_spec W (storage W)) as [E|E].
  - cbn [eval mk_env e_S e_raw]. rewrite uty_native; [now rewrite <- E|].
    rewrite E. now apply storage_is_native.
  - rewrite (uty_arb W (not_native_lt_storage W H128 E)).
    rewrite (ev_extract c _ (storage W) W ERaw (ELit TLit 0) (VInt (TU (storage W)) raw) (VInt TLit 0));
      [|reflexivity|reflexivity].
    unfold extract_eval. rewrite N.eqb_refl. cbn [andb]. rewrite N.add_0_l.
    destruct (N.leb_spec W (storage W)); [|lia]. now rewrite bitsN_0_small.
Qed.

Theorem gen_new_with_raw_value_correct c W r raw :
  base_ok W = true -> r < 2 ^ W ->
  eval c (mk_env W raw 0 (VInt (base_ty W) r)) (gen_new_with_raw_value (storage W) W)
  = Ok (VInt (TU (storage W)) r).
Proof.
  intros HW Hr. unfold base_ok in HW. assert (H128 : W <= 128) by lia.
  pose proof (storage_ge W H128) as HWS. unfold gen_new_with_raw_value, base_ty.
  destruct (N.eqb_spec W (storage W)) as [E|E].
  - cbn [eval mk_env e_arg]. rewrite uty_native; [now rewrite <- E|].
    rewrite E. now apply storage_is_native.
  - rewrite (uty_arb W (not_native_lt_storage W H128 E)).
    rewrite (ev_uvalue c _ EArg (VInt (TAU (storage W) W) r)); [|reflexivity].
    cbn [uvalue_eval]. destruct (N.leb_spec W (storage W)); [reflexivity|lia].
Qed.

(** ** out-of-range indices (C03): the assert is the first thing every array accessor does *)
Theorem gen_oob_panics c S f ρ k :
  f_count f = Some k -> k < 2 ^ 64 -> k <= e_idx ρ -> e_idx ρ < 2 ^ 64 ->
  eval c ρ (gen_getter S f) = Panic /\ eval c ρ (gen_setter S f) = Panic.
Proof.
  intros Hk Hk64 Hi Hi64. unfold gen_getter, gen_setter, with_index_assert. rewrite Hk.
  split; apply (check_assert_sound k); try assumption; cbn [check_assert usz];
    rewrite N.eqb_refl; cbn [andb]; destruct (N.ltb_spec k (2 ^ 64)); [reflexivity|lia|reflexivity|lia].
Qed.

Print Assumptions gen_raw_value_correct.

(** ** a field with distinct bits inside the base is no wider than the base *)

Lemma filter_split_length {A} (p : A -> bool) l :
  (List.length (filter p l) + List.length (filter (fun x => negb (p x)) l) = List.length l)%nat.
Proof. induction l as [|a l IH]; [reflexivity|]. cbn [filter]. destruct (p a); cbn [negb List.length]; lia. Qed.

Lemma NoDup_map_of_nat l : NoDup l -> NoDup (map N.of_nat l).
Proof.
  induction 1 as [|a l Hn ND IH]; cbn [map]; constructor; [|exact IH].
  intros Hin. apply in_map_iff in Hin. destruct Hin as (b & Hb & Hin). assert (a = b) by lia. now subst.
Qed.

Lemma total_le_universe rs : forall U : list N,
  NoDup U -> NoDupBits rs -> (forall k, covers rs k = true -> In k U) ->
  (N.to_nat (total rs) <= List.length U)%nat.
Proof.
  induction rs as [|[lo n] rs IH]; intros U NU ND Hc; cbn [total]; [lia|].
  cbn [NoDupBits] in ND. destruct ND as [Hd ND].
  set (inr := fun k => (lo <=? k) && (k <? lo + n)).
  pose proof (filter_split_length inr U) as Hsplit.
  (* the bits of the first range are distinct members of U *)
  assert (H1 : (N.to_nat n <= List.length (filter inr U))%nat).
  { set (sq := map N.of_nat (seq (N.to_nat lo) (N.to_nat n))).
    assert (Hlen : List.length sq = N.to_nat n) by (unfold sq; now rewrite map_length, seq_length).
    rewrite <- Hlen. apply NoDup_incl_length; [apply NoDup_map_of_nat, seq_NoDup|].
    intros k Hk. unfold sq in Hk. apply in_map_iff in Hk. destruct Hk as (m & <- & Hm). apply in_seq in Hm.
    apply filter_In. split.
    - apply Hc. rewrite covers_cons. cbn [fst snd]. apply orb_true_intro. left. lia.
    - unfold inr. lia. }
  (* the rest lives in what is left of U *)
  assert (H2 : (N.to_nat (total rs) <= List.length (filter (fun x => negb (inr x)) U))%nat).
  { apply IH; [now apply NoDup_filter|exact ND|]. intros k Ck. apply filter_In. split.
    - apply Hc. rewrite covers_cons. now rewrite Ck, orb_true_r.
    - unfold inr. destruct (N.leb_spec lo k); destruct (N.ltb_spec k (lo + n)); try reflexivity.
      rewrite Hd in Ck by lia. discriminate. }
  lia.
Qed.

Theorem total_le_base rs W : NoDupBits rs -> max_end rs <= W -> total rs <= W.
Proof.
  intros ND Hm.
  pose proof (total_le_universe rs (map N.of_nat (seq 0 (N.to_nat W))) (NoDup_map_of_nat _ (seq_NoDup _ _)) ND) as H.
  rewrite map_length, seq_length in H. assert (N.to_nat (total rs) <= N.to_nat W)%nat; [|lia].
  apply H. intros k Ck. apply max_end_covers in Ck. apply in_map_iff. exists (N.to_nat k). split; [lia|].
  apply in_seq. lia.
Qed.

(** ** the theorems in their final form: only the layout rules and "no bit named twice" *)

Lemma valid_field_max_end W f : valid_field W f = true -> max_end (ranges f) <= W.
Proof.
  intros Hv. pose proof (ff_bound W f (valid_field_facts W f Hv)) as H.
  set (x := (count f - 1) * stride f) in *. lia.
Qed.

Lemma valid_total_le_storage W f :
  base_ok W = true -> valid_field W f = true -> nodup_bits (ranges f) = true -> total (ranges f) <= storage W.
Proof.
  intros HW Hv Hn. pose proof (W_le_S W HW).
  pose proof (total_le_base (ranges f) W (nodup_bits_ok _ Hn) (valid_field_max_end W f Hv)). lia.
Qed.

(** every getter the generator model emits (C01, C03, C04, C05, C08, C16) *)
Theorem model_getter_correct c W f i raw :
  base_ok W = true -> valid_field W f = true -> nodup_bits (ranges f) = true -> count f < 2 ^ 64 ->
  i < count f -> raw < 2 ^ W ->
  eval c (mk_env W raw i (VBool false)) (gen_getter (storage W) f) = Ok (present (f_ty f) (spec_get f i raw)).
Proof.
  intros HW Hv Hn Hc Hi Hraw. apply gen_getter_correct; try assumption. now apply valid_total_le_storage.
Qed.

(** every with_/set_ body the generator model emits (C02, C03, C04, C05, C08, C11, C16) *)
Theorem model_setter_correct c W f i raw v :
  base_ok W = true -> valid_field W f = true -> nodup_bits (ranges f) = true -> count f < 2 ^ 64 ->
  i < count f -> raw < 2 ^ W -> v < 2 ^ ty_width (f_ty f) ->
  eval c (mk_env W raw i (present (f_ty f) v)) (gen_setter (storage W) f)
  = Ok (VInt (TU (storage W)) (spec_set f i v raw))
  /\ spec_set f i v raw < 2 ^ W.
Proof.
  intros HW Hv Hn Hc Hi Hraw Hval. split.
  - apply gen_setter_correct; try assumption; [now apply nodup_bits_ok|now apply valid_total_le_storage].
  - unfold spec_set. apply scatter_lt; [exact Hraw|].
    pose proof (valid_field_facts W f Hv) as F. unfold elem_ranges.
    rewrite max_end_shift by (apply F). pose proof (ff_bound W f F).
    assert (i * stride f <= (count f - 1) * stride f) by (apply N.mul_le_mono_r; lia). lia.
Qed.

(** ** any history of writes on the bodies of the generator model (C11, C12) *)

Section ModelHistory.
Variable c : bool.
Variable d : decl.

Definition model_step (raw : N) (o : hop) : res N :=
  match eval c (mk_env (d_W d) raw (h_i o) (present (f_ty (h_f o)) (h_v o))) (gen_setter (storage (d_W d)) (h_f o)) with
  | Ok (VInt _ r) => Ok r
  | Ok _ => Stuck
  | Panic => Panic
  | Stuck => Stuck
  end.

Fixpoint model_run (raw : N) (ops : list hop) : res N :=
  match ops with
  | [] => Ok raw
  | o :: ops' => bind (model_step raw o) (fun raw' => model_run raw' ops')
  end.

Theorem model_history ops : forall raw,
  valid_decl d = true -> Forall (fun f => count f < 2 ^ 64) (d_fields d) ->
  Forall (hop_ok d) ops -> raw < 2 ^ d_W d ->
  model_run raw ops = Ok (run (map hop_wop ops) raw) /\ run (map hop_wop ops) raw < 2 ^ d_W d.
Proof.
  intros raw Hvd Hcnt. revert raw. unfold run.
  destruct (valid_decl_parts d Hvd) as (HW & Hvf & _ & _).
  rewrite forallb_forall in Hvf. rewrite Forall_forall in Hcnt.
  induction ops as [|o ops IH]; cbn [model_run map fold_left]; intros raw Hall Hraw; [auto|].
  inversion Hall as [|o' ops' (Hin & Hset & Hdup & Hi & Hv) Hops]; subst.
  assert (Hn : nodup_bits (ranges (h_f o)) = true).
  { unfold dup_bits in Hdup. now destruct (nodup_bits (ranges (h_f o))). }
  destruct (model_setter_correct c (d_W d) (h_f o) (h_i o) raw (h_v o) HW (Hvf _ Hin) Hn (Hcnt _ Hin) Hi Hraw Hv) as [Hs Hlt].
  unfold model_step. rewrite Hs. cbn [bind]. now apply IH.
Qed.
End ModelHistory.

Print Assumptions model_getter_correct.
Print Assumptions model_setter_correct.
Print Assumptions model_history.
