(** * BuilderValid.v — the type-state theorem for every rule-valid declaration (C14).

    [Builder.typestate_unique_path] needs a well-formed chain (strictly growing masks).  Here:
    every field of a valid declaration has at least one bit, so the chain the macro computes is
    well-formed, and [build()] type-checks exactly for the complete call sequence. *)
From BB Require Import Bits Expr Spec Validate Prog History Builder Gen GenCorrect.
From Coq Require Import String.
Open Scope N_scope.

Lemma covers_app a b k : covers (a ++ b) k = covers a k || covers b k.
Proof. unfold covers. apply existsb_app. Qed.

Lemma valid_field_has_a_bit W f :
  valid_field W f = true -> exists k, covers (field_elems f) k = true.
Proof.
  intros Hv. pose proof (valid_field_facts W f Hv) as F.
  assert (Hc : 1 <= count f).
  { unfold count. destruct (f_count f) as [k|] eqn:E; [|lia]. pose proof (ff_count W f F k E). lia. }
  destruct (ranges f) as [|[lo n] rs] eqn:Er; [destruct (ff_ne W f F Er)|].
  pose proof (ff_pos W f F) as Hp. rewrite Er in Hp. inversion Hp as [|r l Hn _]; subst. cbn [snd] in Hn.
  exists lo. unfold field_elems.
  destruct (N.to_nat (count f)) as [|m] eqn:Em; [lia|]. cbn [seq flat_map].
  rewrite covers_app. apply orb_true_intro. left.
  unfold elem_ranges. rewrite Er. cbn [N.of_nat shift_ranges map]. rewrite N.mul_0_l, N.add_0_r.
  rewrite covers_cons. cbn [fst snd]. apply orb_true_intro. left. lia.
Qed.

Theorem typestate_for_valid_declarations d steps :
  valid_decl d = true -> builder_offered d = Some steps ->
  forall calls, typechecks steps (final_mask steps) 0 calls = true <-> calls = full_calls steps.
Proof.
  intros Hv Ho.
  assert (Hc : chain (d_fields d) 0 = Some steps).
  { unfold builder_offered in Ho. destruct (chain (d_fields d) 0) as [st|]; [|discriminate].
    destruct (has_default d || complete (d_W d) (final_mask st)); [now injection Ho as ->|discriminate]. }
  assert (Hw : wf_chain steps 0).
  { apply (chain_wf (d_fields d) 0 steps Hc). rewrite Forall_forall. intros f Hf _ fm Hm.
    destruct (valid_decl_parts d Hv) as (_ & Hvf & _ & _).
    rewrite forallb_forall in Hvf.
    apply (field_mask_nonzero f fm Hm). apply (valid_field_has_a_bit (d_W d)). now apply Hvf. }
  intros calls. unfold final_mask. split.
  - now apply typestate_unique_path.
  - intros ->. now apply typestate_full_path_ok.
Qed.

Print Assumptions typestate_for_valid_declarations.
