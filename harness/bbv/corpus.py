"""Seeded corpus generator. Every random choice derives from one PRNG state (VERIF_SEED)."""
import random
from .decls import *

BOUNDARY_BASES = [8, 16, 32, 64, 128, 1, 2, 3, 7, 9, 12, 15, 17, 24, 31, 33, 48, 63, 65, 96, 127]


class Gen:
    def __init__(self, seed, tier):
        self.rng = random.Random(seed)
        self.tier = tier
        self.decls = []
        self.counter = 0
        self.enum_cache = {}
        self.nested_cache = {}

    # -- names --------------------------------------------------------------------------------
    def name(self, prefix):
        self.counter += 1
        return '%s%06d' % (prefix, self.counter)

    def add(self, d, family, expect='accept', tags=()):
        d['family'] = family
        d['expect'] = expect
        d['tags'] = list(tags)
        self.decls.append(d)
        return d

    # -- custom types -------------------------------------------------------------------------
    def enum_decl(self, n, exhaustive, nvariants=None, family='types'):
        """a valid bitenum over n bits"""
        rng = self.rng
        maxv = (1 << n) - 1
        if exhaustive:
            discrs = list(range(1 << n))
            rng.shuffle(discrs)
            exh = 'true'
        else:
            k = nvariants if nvariants is not None else min(1 << n, rng.choice([1, 2, 3, 5])) 
            k = max(1, min(k, (1 << n) - 1))
            pool = {0, maxv, maxv - 1 if maxv > 0 else 0, 1 if maxv >= 1 else 0}
            while len(pool) < k + 2 and len(pool) < (1 << n):
                pool.add(rng.randrange(1 << n))
            discrs = rng.sample(sorted(pool), min(k, len(pool)))
            exh = rng.choice([None, 'false'])
        d = {'kind': 'enum', 'name': self.name('E'), 'bits': n, 'exh': exh,
             'variants': [{'name': 'V%d' % i, 'discr': x} for i, x in enumerate(discrs)]}
        if n == 64 and any(x >= (1 << 63) for x in discrs):
            d['repr'] = 'u64'
        return self.add(d, family)

    def custom_enum(self, n):
        """(type dict) of a cached enum with n bits; exhaustive for small n"""
        key = n
        if key not in self.enum_cache:
            exhaustive = n <= 3 and self.rng.random() < 0.5
            self.enum_cache[key] = self.enum_decl(n, exhaustive)
        e = self.enum_cache[key]
        opt = e['exh'] != 'true'
        return {'k': 'custom', 'name': e['name'], 'n': n, 'opt': opt, 'ck': 'enum'}

    def custom_nested(self, n):
        if n not in self.nested_cache:
            d = {'kind': 'bitfield', 'name': self.name('N'), 'base': n,
                 'fields': [self.field('all', {'k': 'u', 'n': n}, [('r', 0, n - 1)] if n > 1 else [('s', 0)], acc='rw')]}
            self.nested_cache[n] = self.add(d, 'types')
        return {'k': 'custom', 'name': self.nested_cache[n]['name'], 'n': n, 'opt': False, 'ck': 'bitfield'}

    def custom(self, n):
        if n <= 64 and self.rng.random() < 0.7:
            return self.custom_enum(n)
        return self.custom_nested(n)

    # -- fields -------------------------------------------------------------------------------
    def field(self, name, ty, entries, acc='rw', count=None, stride=None, lst=None, doc=False):
        entries = [tuple(e) for e in entries]
        if lst is None:
            lst = len(entries) != 1
        if lst:
            bits_kw = self.rng.random() < 0.8
        else:
            bits_kw = entries[0][0] == 'r'
        return {'name': name, 'ty': ty, 'bits_kw': bits_kw, 'list': lst, 'entries': [list(e) for e in entries],
                'count': count, 'stride': stride, 'acc': acc, 'doc': doc}

    def type_for_width(self, n, allow_bool=True):
        """a random field type with exactly n bits"""
        rng = self.rng
        opts = ['u', 'custom']
        if n == 1 and allow_bool:
            opts += ['bool', 'bool']
        if n in NATIVE:
            opts += ['i', 'u']
        k = rng.choice(opts)
        if k == 'bool':
            return {'k': 'bool'}
        if k == 'u':
            return {'k': 'u', 'n': n}
        if k == 'i':
            return {'k': 'i', 'n': n}
        return self.custom(n)

    def rand_acc(self):
        return self.rng.choice(['rw'] * 6 + ['r', 'w', ''])

    def entry(self, lo, n):
        if n == 1 and self.rng.random() < 0.7:
            return ('s', lo)
        return ('r', lo, lo + n - 1)

    # -- families -----------------------------------------------------------------------------
    def single_field(self, W, name, n=None, lo=None, ty=None, acc=None):
        rng = self.rng
        if n is None:
            n = rng.choice([1, 1, W, max(1, W - 1), rng.randint(1, W), rng.randint(1, W)] +
                           [w for w in NATIVE if w <= W])
        n = min(n, W)
        if lo is None:
            lo = rng.choice([0, W - n, rng.randint(0, W - n)])
        if ty is None:
            ty = self.type_for_width(n)
        if ty['k'] == 'bool' or n > 1:
            e = ('s', lo) if n == 1 else ('r', lo, lo + n - 1)
        else:
            e = self.entry(lo, n)
        if ty['k'] == 'bool':
            e = ('s', lo)
        return self.field(name, ty, [e], acc=acc if acc is not None else self.rand_acc())

    def fam_single(self, count):
        """F1: structs of single-range fields (overlaps allowed), every template x storage class x boundary"""
        rng = self.rng
        bases = list(BOUNDARY_BASES)
        for k in range(count):
            W = bases[k % len(bases)] if k < 2 * len(bases) else rng.randint(1, 128)
            fields = []
            # systematic boundary members first
            plan = [(1, 0, {'k': 'bool'}), (1, W - 1, {'k': 'bool'}), (W, 0, None), (1, W - 1, {'k': 'u', 'n': 1})]
            for w in NATIVE:
                if w <= W:
                    plan.append((w, rng.choice([0, W - w]), {'k': rng.choice(['u', 'i']), 'n': w}))
            if W > 1:
                plan.append((W - 1, 1, None))
                plan.append((W - 1, 0, None))
            rng.shuffle(plan)
            for (n, lo, ty) in plan[:rng.randint(3, 6)]:
                fields.append(self.single_field(W, 'f%d' % len(fields), n=n, lo=lo, ty=ty, acc='rw'))
            for _ in range(rng.randint(2, 4)):
                fields.append(self.single_field(W, 'f%d' % len(fields)))
            self.add({'kind': 'bitfield', 'name': self.name('S'), 'base': W, 'fields': fields}, 'F1')

    def array_field(self, W, name):
        rng = self.rng
        for _ in range(50):
            n = rng.choice([1, 1, 2, 3, 4, 8, 16, rng.randint(1, max(1, W // 2))])
            if n * 2 > W:
                continue
            stride = rng.choice([None, n, n, n + 1, n + rng.randint(0, 4)])
            s = stride if stride is not None else n
            if s < n:
                continue
            lo = rng.choice([0, rng.randint(0, W - 2 * n)])
            kmax = (W - lo - n) // s + 1
            if kmax < 2:
                continue
            K = rng.choice([2, 3, kmax, kmax, rng.randint(2, kmax)])
            K = min(K, kmax, 40)
            ty = self.type_for_width(n)
            e = ('s', lo) if (n == 1 and (ty['k'] == 'bool' or rng.random() < 0.6)) else ('r', lo, lo + n - 1)
            return self.field(name, ty, [e], acc=self.rand_acc(), count=K, stride=stride)
        return None

    def fam_arrays(self, count):
        rng = self.rng
        for k in range(count):
            W = rng.choice([8, 16, 32, 64, 128, 12, 24, 48, 100, rng.randint(4, 128)])
            fields = []
            for _ in range(rng.randint(2, 4)):
                f = self.array_field(W, 'a%d' % len(fields))
                if f:
                    fields.append(f)
            if fields:
                self.add({'kind': 'bitfield', 'name': self.name('S'), 'base': W, 'fields': fields}, 'F2')

    def rand_disjoint_ranges(self, W, total_bits, nentries):
        """nentries pairwise-disjoint ranges inside [0,W) with the given total width, in random order"""
        rng = self.rng
        nentries = max(1, min(nentries, total_bits))
        # split total_bits into nentries positive parts
        cuts = sorted(rng.sample(range(1, total_bits), nentries - 1)) if nentries > 1 else []
        parts = [b - a for a, b in zip([0] + cuts, cuts + [total_bits])]
        free = W - total_bits
        # distribute gaps
        gaps = [0] * (nentries + 1)
        for _ in range(free):
            gaps[rng.randrange(nentries + 1)] += 1
        pos = 0
        rs = []
        order = list(range(nentries))
        placed = []
        for i in range(nentries):
            pos += gaps[i]
            placed.append((pos, parts[i]))
            pos += parts[i]
        style = rng.choice(['shuffle', 'reverse', 'rotate', 'sorted'])
        if style == 'shuffle':
            rng.shuffle(placed)
        elif style == 'reverse':
            placed.reverse()
        elif style == 'rotate':
            r = rng.randrange(nentries)
            placed = placed[r:] + placed[:r]
        # widths must follow the (now permuted) order: they already do (each entry carries its own width)
        return placed

    def list_field(self, W, name, array=False):
        rng = self.rng
        for _ in range(50):
            if array:
                span = rng.randint(2, max(2, W // 2))
                n = rng.choice([2, 3, 4, 8, rng.randint(2, span)])
                n = min(n, span)
                rs = self.rand_disjoint_ranges(span, n, rng.randint(2, min(4, n)))
                interleave = rng.random() < 0.3
                if interleave:
                    stride = rng.randint(1, max(1, span - 1))
                else:
                    stride = span + rng.randint(0, 3)
                K = rng.randint(2, 6)
                if (K - 1) * stride + max(lo + m for lo, m in rs) > W:
                    continue
                # per-element write/read needs only per-element disjointness
                ty = self.type_for_width(n, allow_bool=False)
                return self.field(name, ty, [self.entry(lo, m) for lo, m in rs], acc=self.rand_acc(), count=K,
                                  stride=stride, lst=True)
            else:
                n = rng.choice([2, 3, 4, 7, 8, 9, 16, rng.randint(2, W), W])
                n = min(n, W)
                if n < 2:
                    continue
                rs = self.rand_disjoint_ranges(W, n, rng.randint(2, min(8, n)))
                ty = self.type_for_width(n, allow_bool=False)
                return self.field(name, ty, [self.entry(lo, m) for lo, m in rs], acc=self.rand_acc(), lst=True)
        return None

    def fam_lists(self, count):
        rng = self.rng
        for k in range(count):
            W = rng.choice([8, 16, 32, 64, 128, 7, 24, 40, 100, rng.randint(4, 128)])
            fields = []
            for _ in range(rng.randint(2, 4)):
                f = self.list_field(W, 'l%d' % len(fields), array=rng.random() < 0.35)
                if f:
                    fields.append(f)
            if fields:
                self.add({'kind': 'bitfield', 'name': self.name('S'), 'base': W, 'fields': fields}, 'F3')

    def generate(self):
        q = self.tier == 'quick'
        self.fam_single(42 if q else 300)
        self.fam_arrays(20 if q else 200)
        self.fam_lists(24 if q else 250)
        return self.decls


def generate(seed, tier):
    return Gen(seed, tier).generate()
