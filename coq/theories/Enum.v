(** * Enum.v — bitenum: the rule (C10), the macro's decision, the generated conversions (C07).

    [enum_accept] follows [bitenum::bitenum] in [bitbybit/src/bitenum.rs]
    ([check_explicit_conditional], [check_explicit_exhaustive], [Bits::base_type]);
    [valid_enum] is the rule as the property states it.  [enum_new]/[enum_raw] model the
    generated [new_with_raw_value]/[raw_value]. *)
From BB Require Import Bits.
From Coq Require Import String DecimalString.
Open Scope N_scope.

Inductive exh_kind := ExTrue | ExFalse | ExConditional.

Inductive discr := DLitN (n : N) | DMissing | DNonLit.

Record variant := mkVariant {
  v_name : string;
  v_discr : discr;
  v_cfg : bool;       (* carries a #[cfg(..)] attribute *)
  v_live : bool       (* ... which evaluates to true (always true without cfg) *)
}.

Record enum_decl := mkEnum {
  en_name : string;
  en_bits : N;
  en_exh : option exh_kind;
  en_variants : list variant
}.

Definition exh_of (e : enum_decl) : exh_kind :=
  match en_exh e with Some k => k | None => ExFalse end.

Definition is_conditional (k : exh_kind) : bool := match k with ExConditional => true | _ => false end.

(** [Exhaustive::matches] *)
Definition exh_matches (k : exh_kind) (expected : bool) : bool :=
  match k, expected with
  | ExTrue, false | ExFalse, true => false
  | _, _ => true
  end.

Definition lit_of (v : variant) : option N :=
  match v_discr v with DLitN n => Some n | _ => None end.

(** the loop of [check_explicit_exhaustive]: [None] = an error was raised *)
Fixpoint max_discr (vs : list variant) (acc : N) : option N :=
  match vs with
  | [] => Some acc
  | v :: vs' =>
      match v_discr v with
      | DLitN n => max_discr vs' (if acc <? n then n else acc)
      | _ => None
      end
  end.

Definition enum_accept (e : enum_decl) : bool :=
  let k := exh_of e in
  let vs := en_variants e in
  (* check_explicit_conditional *)
  if existsb v_cfg vs && negb (is_conditional k) then false else
  (* check_explicit_exhaustive *)
  let max_count := 2 ^ en_bits e in
  let count := N.of_nat (List.length vs) in
  if (max_count <? count) && negb (is_conditional k) then false else
  let actually_exhaustive := count =? max_count in
  if negb (exh_matches k actually_exhaustive) then false else
  match max_discr vs 0 with
  | None => false
  | Some m =>
      if max_count <=? m then false else
      (* Bits::base_type *)
      (1 <=? en_bits e) && (en_bits e <=? 64)
  end.

(** the rule of C10 *)
Definition valid_enum (e : enum_decl) : bool :=
  let vs := en_variants e in
  let count := N.of_nat (List.length vs) in
  (1 <=? en_bits e) && (en_bits e <=? 64)
  && forallb (fun v => match v_discr v with DLitN n => n <? 2 ^ en_bits e | _ => false end) vs
  && (match exh_of e with
      | ExTrue => count =? 2 ^ en_bits e
      | ExFalse => count <? 2 ^ en_bits e
      | ExConditional => true
      end)
  && (if existsb v_cfg vs then is_conditional (exh_of e) else true).

(** ** generated code *)

Definition storage_enum (n : N) : N :=
  if n <=? 8 then 8 else if n <=? 16 then 16 else if n <=? 32 then 32 else 64.

Inductive new_result := NOk (name : string) | NErr (x : N) | NUnreachable.

Definition live (e : enum_decl) : list variant := filter v_live (en_variants e).

Fixpoint first_match (vs : list variant) (x : N) : option string :=
  match vs with
  | [] => None
  | v :: vs' =>
      match v_discr v with
      | DLitN n => if n =? x then Some (v_name v) else first_match vs' x
      | _ => first_match vs' x
      end
  end.

(** [new_with_raw_value]: arms in declaration order over the variants that survive cfg-stripping;
    the default arm is [Err(value)] unless the enum was declared [exhaustive = true] *)
Definition enum_new (e : enum_decl) (x : N) : new_result :=
  match first_match (live e) x with
  | Some name => NOk name
  | None => if exh_matches (exh_of e) false then NErr x else NUnreachable
  end.

(** [raw_value]: the discriminant *)
Definition enum_raw (v : variant) : option N := lit_of v.

(** ** C07: exact, total, mutually inverse *)

Definition discrs (vs : list variant) : list N :=
  flat_map (fun v => match v_discr v with DLitN n => [n] | _ => [] end) vs.

Lemma first_match_In vs x name :
  first_match vs x = Some name -> exists v, In v vs /\ v_name v = name /\ v_discr v = DLitN x.
Proof.
  induction vs as [|v vs IH]; cbn [first_match]; [discriminate|].
  destruct (v_discr v) as [n| |] eqn:E.
  - destruct (N.eqb_spec n x) as [->|].
    + intros [= <-]. exists v. cbn. auto.
    + intros H. destruct (IH H) as (v' & Hin & Hn & Hd). exists v'. cbn. auto.
  - intros H. destruct (IH H) as (v' & Hin & Hn & Hd). exists v'. cbn. auto.
  - intros H. destruct (IH H) as (v' & Hin & Hn & Hd). exists v'. cbn. auto.
Qed.

Lemma first_match_None vs x :
  first_match vs x = None -> forall v, In v vs -> v_discr v <> DLitN x.
Proof.
  induction vs as [|v vs IH]; cbn [first_match]; [intros _ v []|].
  destruct (v_discr v) as [n| |] eqn:E.
  - destruct (N.eqb_spec n x) as [->|Hne]; [discriminate|].
    intros H v' [<-|Hin]; [rewrite E; congruence|now apply IH].
  - intros H v' [<-|Hin]; [rewrite E; congruence|now apply IH].
  - intros H v' [<-|Hin]; [rewrite E; congruence|now apply IH].
Qed.

Lemma first_match_unique vs x v :
  NoDup (discrs vs) -> In v vs -> v_discr v = DLitN x -> first_match vs x = Some (v_name v).
Proof.
  induction vs as [|w vs IH]; cbn [first_match discrs flat_map]; intros ND Hin Hd; [destruct Hin|].
  fold (discrs vs) in *.
  destruct Hin as [->|Hin].
  - rewrite Hd. now rewrite N.eqb_refl.
  - destruct (v_discr w) as [n| |] eqn:E; cbn [app] in ND.
    + apply NoDup_cons_iff in ND. destruct ND as [Hn ND].
      destruct (N.eqb_spec n x) as [->|Hne]; [|now apply IH].
      exfalso. apply Hn. unfold discrs. apply in_flat_map. exists v. split; [exact Hin|].
      rewrite Hd. now left.
    + now apply IH.
    + now apply IH.
Qed.

(** [new_with_raw_value(x)] is the variant whose discriminant is [x] *)
Theorem C07_new_exact e x name :
  enum_new e x = NOk name ->
  exists v, In v (live e) /\ v_name v = name /\ v_discr v = DLitN x.
Proof.
  unfold enum_new. destruct (first_match (live e) x) eqn:E.
  - intros [= <-]. now apply first_match_In.
  - destruct (exh_matches _ _); discriminate.
Qed.

(** ... and when there is none, non-exhaustive and conditional enums return [Err(x)] *)
Theorem C07_err e x :
  exh_of e <> ExTrue ->
  (forall v, In v (live e) -> v_discr v <> DLitN x) ->
  enum_new e x = NErr x.
Proof.
  intros Hk Hn. unfold enum_new. destruct (first_match (live e) x) eqn:E.
  - destruct (first_match_In _ _ _ E) as (v & Hin & _ & Hd). now destruct (Hn v Hin).
  - destruct (exh_of e); cbn; congruence.
Qed.

(** converting a variant to its raw value and back is the identity *)
Theorem C07_inverse_1 e v x :
  NoDup (discrs (live e)) -> In v (live e) -> enum_raw v = Some x ->
  enum_new e x = NOk (v_name v).
Proof.
  intros ND Hin Hr. unfold enum_new, enum_raw, lit_of in *.
  destruct (v_discr v) as [n| |] eqn:E; try discriminate. injection Hr as ->.
  now rewrite (first_match_unique _ _ _ ND Hin E).
Qed.

(** converting a raw value to a variant and back is the identity *)
Theorem C07_inverse_2 e x name :
  enum_new e x = NOk name ->
  exists v, In v (live e) /\ v_name v = name /\ enum_raw v = Some x.
Proof.
  intros H. destruct (C07_new_exact _ _ _ H) as (v & Hin & Hn & Hd).
  exists v. unfold enum_raw, lit_of. rewrite Hd. auto.
Qed.

(** pigeonhole: [2^N] distinct values below [2^N] are all of them *)
Lemma pigeonhole (l : list N) (n : nat) :
  NoDup l -> (forall d, In d l -> d < N.of_nat n) -> List.length l = n ->
  forall x, x < N.of_nat n -> In x l.
Proof.
  intros ND Hlt Hlen x Hx.
  set (all := map N.of_nat (seq 0 n)).
  assert (Hincl : incl l all).
  { intros d Hd. unfold all. apply in_map_iff. exists (N.to_nat d). split; [lia|].
    apply in_seq. specialize (Hlt d Hd). lia. }
  assert (Hlen' : (List.length all <= List.length l)%nat).
  { unfold all. rewrite map_length, seq_length. lia. }
  pose proof (NoDup_length_incl ND Hlen' Hincl) as Hback.
  apply Hback. unfold all. apply in_map_iff. exists (N.to_nat x). split; [lia|].
  apply in_seq. lia.
Qed.

Lemma max_discr_spec vs : forall acc m,
  max_discr vs acc = Some m ->
  acc <= m /\ forall v, In v vs -> exists n, v_discr v = DLitN n /\ n <= m.
Proof.
  induction vs as [|v vs IH]; cbn [max_discr]; intros acc m H.
  - injection H as <-. split; [lia|]. intros v [].
  - destruct (v_discr v) as [n| |] eqn:E; try discriminate.
    destruct (IH _ _ H) as [Hacc Hall]. split.
    + destruct (N.ltb_spec acc n); lia.
    + intros w [<-|Hin]; [|now apply Hall]. exists n. split; [exact E|].
      destruct (N.ltb_spec acc n); lia.
Qed.

Lemma accept_discrs e :
  enum_accept e = true ->
  forall v, In v (en_variants e) -> exists n, v_discr v = DLitN n /\ n < 2 ^ en_bits e.
Proof.
  unfold enum_accept. intros H.
  destruct (existsb v_cfg (en_variants e) && negb (is_conditional (exh_of e))); [discriminate|].
  destruct ((2 ^ en_bits e <? N.of_nat (List.length (en_variants e))) && negb (is_conditional (exh_of e)));
    [discriminate|].
  destruct (negb (exh_matches _ _)); [discriminate|].
  destruct (max_discr (en_variants e) 0) as [m|] eqn:Em; [|discriminate].
  destruct (N.leb_spec (2 ^ en_bits e) m); [discriminate|].
  intros v Hin. destruct (max_discr_spec _ _ _ Em) as [_ Hall].
  destruct (Hall v Hin) as (n & Hd & Hn). exists n. split; [exact Hd|lia].
Qed.

(** no accepted variant is unrepresentable: [raw_value()] cannot panic in [UInt::new] (C07, C10) *)
Theorem C10_no_unrepresentable e v x :
  enum_accept e = true -> In v (en_variants e) -> enum_raw v = Some x -> x < 2 ^ en_bits e.
Proof.
  intros Ha Hin Hr. destruct (accept_discrs e Ha v Hin) as (n & Hd & Hn).
  unfold enum_raw, lit_of in Hr. rewrite Hd in Hr. now injection Hr as <-.
Qed.

Lemma discrs_length_all vs :
  (forall v, In v vs -> exists n, v_discr v = DLitN n) -> List.length (discrs vs) = List.length vs.
Proof.
  induction vs as [|v vs IH]; intros H; [reflexivity|].
  cbn [discrs flat_map]. fold (discrs vs).
  destruct (H v (or_introl eq_refl)) as (n & ->). cbn. f_equal. apply IH.
  intros w Hw. apply H. now right.
Qed.

Lemma In_discrs vs n : In n (discrs vs) -> exists v, In v vs /\ v_discr v = DLitN n.
Proof.
  unfold discrs. rewrite in_flat_map. intros (v & Hin & Hn). exists v. split; [exact Hin|].
  destruct (v_discr v); cbn in Hn; try contradiction. destruct Hn as [->|[]]. reflexivity.
Qed.

(** a variant without a cfg attribute always exists *)
Definition wf_enum (e : enum_decl) : Prop :=
  forall v, In v (en_variants e) -> v_cfg v = false -> v_live v = true.

Lemma live_all e :
  wf_enum e -> existsb v_cfg (en_variants e) = false -> live e = en_variants e.
Proof.
  unfold wf_enum, live. induction (en_variants e) as [|v vs IH]; cbn [existsb filter]; intros W H; [reflexivity|].
  apply orb_false_elim in H. destruct H as [Hv Hvs].
  rewrite (W v (or_introl eq_refl) Hv). f_equal. apply IH; [|exact Hvs].
  intros w Hw. apply W. now right.
Qed.

(** an enum accepted as [exhaustive = true] (rustc guarantees distinct discriminants) converts
    every N-bit raw value to a variant: the [unreachable!()] arm is dead *)
Theorem C10_exhaustive_sound e :
  wf_enum e -> enum_accept e = true -> exh_of e = ExTrue -> NoDup (discrs (en_variants e)) ->
  forall x, x < 2 ^ en_bits e -> exists name, enum_new e x = NOk name.
Proof.
  intros Wf Ha Hk ND x Hx.
  pose proof (accept_discrs e Ha) as Hd.
  unfold enum_accept in Ha. rewrite Hk in Ha. cbn [is_conditional negb] in Ha.
  rewrite andb_true_r in Ha.
  destruct (existsb v_cfg (en_variants e)) eqn:Ecfg; [discriminate|].
  rewrite andb_true_r in Ha.
  destruct (N.ltb_spec (2 ^ en_bits e) (N.of_nat (List.length (en_variants e)))); [discriminate|].
  destruct (N.eqb_spec (N.of_nat (List.length (en_variants e))) (2 ^ en_bits e)) as [Hc|]; [|discriminate].
  clear Ha.
  assert (Hin : In x (discrs (en_variants e))).
  { apply (pigeonhole _ (List.length (en_variants e))).
    - exact ND.
    - intros d Hdin. destruct (In_discrs _ _ Hdin) as (v & Hv & Hvd).
      destruct (Hd v Hv) as (n & Hn & Hlt). rewrite Hvd in Hn. injection Hn as <-. lia.
    - apply discrs_length_all. intros v Hv. destruct (Hd v Hv) as (n & Hn & _). eauto.
    - lia. }
  destruct (In_discrs _ _ Hin) as (v & Hv & Hvd).
  exists (v_name v). unfold enum_new. rewrite (live_all e Wf Ecfg).
  now rewrite (first_match_unique _ _ _ ND Hv Hvd).
Qed.

(** totality in general: [new_with_raw_value] never reaches [unreachable!()] on an accepted enum *)
Theorem C07_total e :
  wf_enum e -> enum_accept e = true -> NoDup (discrs (en_variants e)) ->
  forall x, x < 2 ^ en_bits e -> enum_new e x <> NUnreachable.
Proof.
  intros Wf Ha ND x Hx. destruct (exh_of e) eqn:Hk.
  - destruct (C10_exhaustive_sound e Wf Ha Hk ND x Hx) as (name & ->). discriminate.
  - unfold enum_new. rewrite Hk. destruct (first_match _ _); discriminate.
  - unfold enum_new. rewrite Hk. destruct (first_match _ _); discriminate.
Qed.

(** the macro's decision is the rule (C10), both directions *)
Lemma max_discr_forallb vs B : forall acc, acc < B ->
  (match max_discr vs acc with Some m => m <? B | None => false end)
  = forallb (fun v => match v_discr v with DLitN n => n <? B | _ => false end) vs.
Proof.
  induction vs as [|v vs IH]; cbn [max_discr forallb]; intros acc Hacc.
  - destruct (N.ltb_spec acc B); [reflexivity|lia].
  - destruct (v_discr v) as [n| |]; try reflexivity.
    destruct (N.ltb_spec n B) as [Hn|Hn]; cbn [andb].
    + apply IH. destruct (N.ltb_spec acc n); lia.
    + (* a discriminant >= B keeps the maximum >= B *)
      destruct (max_discr vs (if acc <? n then n else acc)) as [m|] eqn:E; [|reflexivity].
      destruct (max_discr_spec _ _ _ E) as [Hm _].
      destruct (N.ltb_spec acc n); destruct (N.ltb_spec m B); try reflexivity; lia.
Qed.

Theorem C10_accept_iff_valid e : enum_accept e = valid_enum e.
Proof.
  unfold enum_accept, valid_enum.
  set (vs := en_variants e). set (B := 2 ^ en_bits e). set (cnt := N.of_nat (List.length vs)).
  pose proof (max_discr_forallb vs B 0 (pow2_pos _)) as HM.
  rewrite <- HM. clear HM.
  destruct (existsb v_cfg vs) eqn:Ecfg; destruct (exh_of e) eqn:Ek; cbn [is_conditional negb andb exh_matches];
    rewrite ?andb_true_r, ?andb_false_r; try reflexivity.
  all: destruct (max_discr vs 0) as [m|];
       destruct (N.ltb_spec B cnt); destruct (N.eqb_spec cnt B); cbn [negb andb];
       rewrite ?andb_true_r, ?andb_false_r; try reflexivity; try lia.
  all: try (destruct (N.leb_spec B m); destruct (N.ltb_spec m B); try lia;
            destruct ((1 <=? en_bits e) && (en_bits e <=? 64)); cbn; try reflexivity;
            destruct (N.ltb_spec cnt B); try reflexivity; try lia).
  all: try (destruct ((1 <=? en_bits e) && (en_bits e <=? 64)); cbn; try reflexivity;
            destruct (N.ltb_spec cnt B); try reflexivity; lia).
Qed.

Print Assumptions C10_accept_iff_valid.
Print Assumptions C10_exhaustive_sound.

(** ** the translated expansion of a bitenum, and its obligation *)

Inductive default_arm := DefErr | DefUnreachable | DefOther.

Record enum_prog := mkEnumProg {
  ep_name : string;
  ep_derive_copy_clone : bool;
  ep_variants : list (string * option N * bool);  (* the re-emitted enum: name, literal discriminant, cfg *)
  ep_raw_ok : bool;                (* pub const fn raw_value(self) -> <qualified type> *)
  ep_raw_ctor : option (N * N);    (* Some (st, n): arbitrary_int::UInt::<u{st}, n>::new( .. ) around the cast *)
  ep_raw_cast : N;                 (* self as u{b} *)
  ep_raw_ret : option (N * N) * N; (* return type: (Some (st, n), _) = UInt<u{st},n>; (None, b) = u{b} *)
  ep_new_ok : bool;                (* pub const fn new_with_raw_value(value: <qualified type>) *)
  ep_new_param : option (N * N) * N;
  ep_new_ret_result : option N;    (* Some b: Result<Self, u{b}>; None: Self *)
  ep_new_reader : bool;            (* match value.value() rather than match value *)
  ep_arms : list (N * string * bool * bool);   (* literal, variant, wrapped in Ok, carries the cfg attribute *)
  ep_default : default_arm;
  ep_has_unsafe : bool;            (* the token `unsafe` occurs in the expansion *)
  ep_roots : list string;          (* first segments of every path / type / macro the expansion mentions *)
  ep_docs : bool                   (* both generated functions carry a doc attribute *)
}.

Definition is_arb_enum (n : N) : bool := negb ((n =? 8) || (n =? 16) || (n =? 32) || (n =? 64)).

Definition ty_of_enum (n : N) : option (N * N) * N :=
  if is_arb_enum n then (Some (storage_enum n, n), 0) else (None, n).

Definition opt_nn_eqb (a b : option (N * N)) : bool :=
  match a, b with
  | Some (x, y), Some (x', y') => (x =? x') && (y =? y')
  | None, None => true
  | _, _ => false
  end.
Definition ty_eqb (a b : option (N * N) * N) : bool := opt_nn_eqb (fst a) (fst b) && (snd a =? snd b).

Definition arm_eqb (a b : N * string * bool * bool) : bool :=
  let '(n, s, o, c) := a in let '(n', s', o', c') := b in
  (n =? n') && String.eqb s s' && Bool.eqb o o' && Bool.eqb c c'.

Fixpoint list_eqb {A} (eqb : A -> A -> bool) (l l' : list A) : bool :=
  match l, l' with
  | [], [] => true
  | a :: l, b :: l' => eqb a b && list_eqb eqb l l'
  | _, _ => false
  end.

Definition expected_arms (e : enum_decl) : list (N * string * bool * bool) :=
  flat_map (fun v => match v_discr v with
                     | DLitN n => [(n, v_name v, exh_matches (exh_of e) false, v_cfg v)]
                     | _ => []
                     end) (en_variants e).

Definition var_eqb (a b : string * option N * bool) : bool :=
  let '(s, d, c) := a in let '(s', d', c') := b in
  String.eqb s s' && (match d, d' with Some x, Some y => x =? y | None, None => true | _, _ => false end) && Bool.eqb c c'.

(** names the generated code may refer to (C18): arbitrary_int, primitives, prelude items of core, the enum itself
    and its storage type as the user wrote it *)
Definition enum_allowed_root (e : enum_decl) (storage_name : string) (r : string) : bool :=
  existsb (String.eqb r)
    ["arbitrary_int"%string; "Self"%string; "self"%string; "value"%string; "Ok"%string; "Err"%string; "Result"%string;
     "unreachable!"%string; "u8"%string; "u16"%string; "u32"%string; "u64"%string; en_name e; storage_name].

Definition check_enum (e : enum_decl) (p : enum_prog) : list (string * bool) :=
  let n := en_bits e in
  let nonexh := exh_matches (exh_of e) false in
  [("enum:item"%string, ep_derive_copy_clone p
                 && list_eqb var_eqb (ep_variants p)
                      (map (fun v => (v_name v, lit_of v, v_cfg v)) (en_variants e)));
   ("enum:raw_value"%string, ep_raw_ok p && opt_nn_eqb (ep_raw_ctor p) (fst (ty_of_enum n))
                      && (ep_raw_cast p =? storage_enum n) && ty_eqb (ep_raw_ret p) (ty_of_enum n));
   ("enum:new_with_raw_value"%string,
      ep_new_ok p && ty_eqb (ep_new_param p) (ty_of_enum n)
      && (match ep_new_ret_result p with
          | Some b => nonexh && (b =? storage_enum n)
          | None => negb nonexh
          end)
      && Bool.eqb (ep_new_reader p) (is_arb_enum n)
      && list_eqb arm_eqb (ep_arms p) (expected_arms e)
      && (match ep_default p with
          | DefErr => nonexh
          | DefUnreachable => negb nonexh
          | DefOther => false
          end));
   ("enum:surface"%string,
      negb (ep_has_unsafe p) && ep_docs p
      && forallb (enum_allowed_root e (String.append "u" (NilZero.string_of_uint (N.to_uint (en_bits e))))) (ep_roots p))].

(** evaluating the translated match: first arm (whose cfg is live) with an equal literal *)
Fixpoint arms_match (arms : list (N * string * bool * bool)) (livef : string -> bool) (x : N) : option string :=
  match arms with
  | [] => None
  | (n, name, _, _) :: arms' => if livef name && (n =? x) then Some name else arms_match arms' livef x
  end.

Definition ep_new (p : enum_prog) (livef : string -> bool) (x : N) : new_result :=
  match arms_match (ep_arms p) livef x with
  | Some name => NOk name
  | None => match ep_default p with DefErr => NErr x | _ => NUnreachable end
  end.

(** results encoded for printing: (0, position of the variant) | (1, x) | (2, 0) *)
Fixpoint position (name : string) (vs : list variant) (k : N) : N :=
  match vs with
  | [] => k
  | v :: vs' => if String.eqb (v_name v) name then k else position name vs' (k + 1)
  end.
Definition encode_new (e : enum_decl) (r : new_result) : N * N :=
  match r with
  | NOk name => (0, position name (en_variants e) 0)
  | NErr x => (1, x)
  | NUnreachable => (2, 0)
  end.
Definition live_name (e : enum_decl) (name : string) : bool :=
  existsb (fun v => String.eqb (v_name v) name && v_live v) (en_variants e).

(** ** soundness of the per-enum obligation: the translated real match computes the model's conversion *)

Lemma list_eqb_eq {A} (eqb : A -> A -> bool) :
  (forall a b, eqb a b = true -> a = b) -> forall l l', list_eqb eqb l l' = true -> l = l'.
Proof.
  intros H. induction l as [|a l IH]; destruct l' as [|b l']; cbn [list_eqb]; intros E; try discriminate; [reflexivity|].
  apply andb_prop in E. destruct E as [E1 E2]. f_equal; [now apply H|now apply IH].
Qed.

Lemma arm_eqb_eq a b : arm_eqb a b = true -> a = b.
Proof.
  destruct a as [[[n s] o] c], b as [[[n' s'] o'] c']. cbn [arm_eqb]. intros H.
  apply andb_prop in H. destruct H as [H Hc]. apply andb_prop in H. destruct H as [H Ho].
  apply andb_prop in H. destruct H as [Hn Hs].
  apply N.eqb_eq in Hn. apply String.eqb_eq in Hs. apply Bool.eqb_prop in Ho. apply Bool.eqb_prop in Hc.
  now subst.
Qed.

Lemma live_name_unique e v :
  NoDup (map v_name (en_variants e)) -> In v (en_variants e) -> live_name e (v_name v) = v_live v.
Proof.
  unfold live_name. induction (en_variants e) as [|w vs IH]; intros ND Hin; [destruct Hin|].
  cbn [map existsb] in *. apply NoDup_cons_iff in ND. destruct ND as [Hn ND].
  destruct Hin as [->|Hin].
  - rewrite String.eqb_refl. cbn [andb]. destruct (v_live v); [reflexivity|]. cbn [orb].
    (* no other variant carries this name *)
    clear IH. induction vs as [|u vs IHv]; [reflexivity|]. cbn [existsb map] in *.
    destruct (String.eqb_spec (v_name u) (v_name v)) as [E|_].
    + exfalso. apply Hn. left. exact E.
    + cbn [andb orb]. apply IHv; [intros H; apply Hn; now right|]. now inversion ND.
  - destruct (String.eqb_spec (v_name w) (v_name v)) as [E|_].
    + exfalso. apply Hn. rewrite E. now apply in_map.
    + cbn [andb orb]. now apply IH.
Qed.

Lemma arms_match_expected e : NoDup (map v_name (en_variants e)) ->
  forall x, arms_match (expected_arms e) (live_name e) x = first_match (live e) x.
Proof.
  intros ND x. unfold expected_arms, live.
  assert (H : forall vs, (forall v, In v vs -> live_name e (v_name v) = v_live v) ->
            arms_match (flat_map (fun v => match v_discr v with
                                             | DLitN n => [(n, v_name v, exh_matches (exh_of e) false, v_cfg v)]
                                             | _ => []
                                             end) vs) (live_name e) x
            = first_match (filter v_live vs) x).
  { induction vs as [|v vs IH]; intros Hl; [reflexivity|]. cbn [flat_map filter].
    assert (IH' := IH (fun u Hu => Hl u (or_intror Hu))). specialize (Hl v (or_introl eq_refl)).
    destruct (v_discr v) as [n| |] eqn:Ed; cbn [app arms_match].
    - rewrite Hl. destruct (v_live v); cbn [andb first_match].
      + rewrite Ed. destruct (n =? x); [reflexivity|exact IH'].
      + exact IH'.
    - destruct (v_live v); cbn [first_match]; [rewrite Ed|]; exact IH'.
    - destruct (v_live v); cbn [first_match]; [rewrite Ed|]; exact IH'. }
  apply H. intros v Hv. now apply live_name_unique.
Qed.

(** when the obligation [enum:new_with_raw_value] of [check_enum] holds for the translated real expansion [p],
    the real match — first arm whose cfg is live and whose literal equals the value, else the default arm —
    computes exactly [enum_new e] for EVERY raw value *)
Theorem check_enum_new_sound e p :
  NoDup (map v_name (en_variants e)) ->
  list_eqb arm_eqb (ep_arms p) (expected_arms e) = true ->
  (match ep_default p with
   | DefErr => exh_matches (exh_of e) false
   | DefUnreachable => negb (exh_matches (exh_of e) false)
   | DefOther => false
   end) = true ->
  forall x, ep_new p (live_name e) x = enum_new e x.
Proof.
  intros ND Ha Hd x. apply (list_eqb_eq _ arm_eqb_eq) in Ha. unfold ep_new, enum_new.
  rewrite Ha, (arms_match_expected e ND). destruct (first_match (live e) x); [reflexivity|].
  destruct (ep_default p); destruct (exh_matches (exh_of e) false); try discriminate; reflexivity.
Qed.

Print Assumptions check_enum_new_sound.
