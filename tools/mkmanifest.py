#!/usr/bin/env python3
"""Regenerates /verif/MANIFEST.json from the table below (keeps it valid at all times)."""
import json, os
V = os.path.dirname(os.path.dirname(os.path.abspath(__file__)))
props = [json.loads(l) for l in open(os.path.join(V, 'properties.jsonl'))]

NOTE_COMMON = ('Trusted: Coq 8.16.1 kernel + vm_compute (no native_compute, no axioms); hand-written semantics of the emitted '
               'Rust fragment and of arbitrary-int 1.3.0 (Expr.v), validated by differential execution; the syn-based translator '
               'and the dump hook; corpus printers; rustc/cargo. The statement about the code is: for every corpus declaration '
               '(regenerated and re-expanded by the real macro on every run) and ALL inputs; declarations outside the corpus are '
               'covered only as far as the generator model mirrors the code.')

CLAIMED = {
    'C01': ('Reflective proof: the real getter body of every corpus declaration is translated to a Coq term and checked by a verified '
            'symbolic bit evaluator against the abstract register (Spec.v) for all raw values, both profiles (theorems C01_getter_exact, '
            'C01_bit_weights, C01_outside_bits_irrelevant).', '4 C01'),
    'C02': ('Reflective proof of both emitted setter bodies (with_ and set_ separately) against Spec.v scatter for all raw values and '
            'arguments; read-back and frame are theorems of Spec.v (C02_setter_exact, C02_readback, C02_frame).', '4 C02'),
    'C03': ('Reflective proof for every in-range index of every corpus array field (getter, with_, set_), plus the syntactic index-assert '
            'obligation whose theorem C03_oob_panics covers every index >= K.', '4 C03'),
    'C04': ('Reflective proof for range-list fields: expected bit provenance is the permutation given by Spec.v (nth_pos / find_pos); '
            'gather/scatter round-trip and frame proved by induction over the list.', '4 C04'),
    'C05': ('Reflective proof for signed fields: a sign-extending widening would put the sign bit above the field in the symbolic result '
            'and fail the obligation; casts are modelled with explicit sign extension.', '4 C05'),
    'C08': ('Reflective proof for custom-typed fields through the uninterpreted conversion boundary ECustomNew/ECustomRaw: exactly the field '
            'bits reach T::new_with_raw_value and exactly T::raw_value() is scattered.', '4 C08'),
}
TECH = 'Rocq/Coq proof: verified symbolic evaluator (seval_sound) applied reflectively to the translated real expansion; Spec.v theorems'

checks = []
for p in props:
    pid = p['id']
    if pid in CLAIMED:
        text, ref = CLAIMED[pid]
        checks.append({
            'property_id': pid,
            'quick_cmd': './check %s --tier quick' % pid,
            'thorough_cmd': './check %s --tier thorough' % pid,
            'evidence_file': 'evidence/%s.json' % pid,
            'replay_cmd_template': './check replay {path}',
            'engine': 'bbv',
            'level_claimed': {'category': 'proof', 'text': text, 'design_ref': 'DESIGN.md section ' + ref},
            'level_note': NOTE_COMMON,
            'technique': TECH,
        })
m = {
    'version': 1,
    'setup_cmd': './check setup',
    'hooks': {
        'guard': 'cargo feature verif_hooks (crate bitbybit)',
        'enable': 'corpus crate depends on bitbybit = { path = "/repo/bitbybit", features = ["verif_hooks"] }; BITBYBIT_VERIF_DUMP_DIR=<dir> selects the dump directory',
        'baseline_off_cmd': 'cd /repo && (cargo nextest run --workspace --no-fail-fast --offline || cargo test --workspace --no-fail-fast --offline)',
        'source_commits': ['8106812'],
        'add_only': True,
    },
    'engines': [{'name': 'bbv', 'path': 'check', 'serves_properties': sorted(CLAIMED),
                 'kind_free_text': 'Coq 8.16 development (coq/theories) + syn translator (harness/xlate) + Python driver (harness/bbv)'}],
    'checks': checks,
    'not_applicable': [{'property_id': p['id'], 'reason': 'check not built yet (work in progress; see DESIGN.md section 12)'}
                       for p in props if p['id'] not in CLAIMED],
}
json.dump(m, open(os.path.join(V, 'MANIFEST.json'), 'w'), indent=1)
print('claimed', sorted(CLAIMED))
