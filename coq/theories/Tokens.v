(** * Tokens.v — model of the attribute-argument parser of [parse_field]
      (bitbybit/src/bitfield/parsing.rs: [ArgumentParser], [finished_argument], [parse_argument_tokens]).

    The macro does not parse [bits(0..=3, rw, stride = 4)] with a grammar: it runs a small automaton over
    the raw token trees, one state per argument, and a closure that consumes each finished argument.
    This file models exactly that ([take_literal], [take_punct], [take_ident], [finished],
    [parse_tokens]) and proves that on the tokens of every *well-formed* attribute — as printed from a
    structured field description — the automaton yields precisely the ranges, access flags and stride
    that [Parse.accept_field] starts from ([parse_print]).  Malformed attribute strings of the corpus are
    tokenised and run through the same automaton on every run; its verdict must be rustc's. *)
From BB Require Import Bits Spec Parse.
From Coq Require Import String.
Open Scope string_scope.
Open Scope N_scope.

Inductive pc := PDot | PEq | PColon | PComma | POther.

Inductive tok :=
| KLit (n : N)                              (* a literal that parses as usize *)
| KBadLit                                   (* any other literal: 0x3, 1.5, "s" *)
| KPunct (c : pc)
| KIdent (s : string)
| KGroup (arr : option (list (list tok))).  (* a delimited group; [Some elems] when it parses as an array expression
                                               [[e1, e2, ..]] (each element by its own tokens), [None] otherwise
                                               (the macro unwraps the parse result: a panic, i.e. a compile error) *)

Inductive ap :=
| Reset | ResetOnlyRange
| GotLower (a : N) | GotDot1 (a : N) | GotDot2 (a : N) | GotEq (a : N) | GotBoth (a b : N)
| StrideStarted | StrideEq | StrideDone (s : N)
| ARead | AWrite | AReadWrite.

Definition take_literal (s : ap) (n : N) : option ap :=
  match s with
  | Reset | ResetOnlyRange => Some (GotLower n)
  | GotEq a => Some (GotBoth a n)
  | StrideEq => Some (StrideDone n)
  | _ => None
  end.

Definition take_punct (s : ap) (c : pc) : option ap :=
  match s, c with
  | GotLower a, PDot => Some (GotDot1 a)
  | GotDot1 a, PDot => Some (GotDot2 a)
  | GotDot2 a, PEq => Some (GotEq a)
  | StrideStarted, PEq | StrideStarted, PColon => Some StrideEq
  | _, _ => None
  end.

Definition take_ident (s : ap) (id : string) : option ap :=
  match s with
  | Reset =>
      if String.eqb id "rw" then Some AReadWrite
      else if String.eqb id "r" then Some ARead
      else if String.eqb id "w" then Some AWrite
      else if String.eqb id "stride" then Some StrideStarted
      else None
  | _ => None
  end.

(** what the closure [finished_argument] accumulates *)
Record pacc := mkPacc {
  a_ranges : list (N * N);       (* Range { start, end } with end exclusive, in the order pushed *)
  a_rtoken : option N;           (* ranges_token *)
  a_get : bool; a_set : bool;
  a_stride : option N
}.

Definition pacc0 : pacc := mkPacc [] None false false None.

Definition push (a : pacc) (r : N * N) : pacc :=
  mkPacc (a_ranges a ++ [r]) (a_rtoken a) (a_get a) (a_set a) (a_stride a).

Section Finished.
Variable is_range : bool.        (* the attribute is `bits` (true) or `bit` (false) *)
Variable has_count : bool.       (* the field's type is an array *)

Definition finished (s : ap) (in_array : bool) (token_id : N) (a : pacc) : option pacc :=
  (* first match: a second range where only one is allowed *)
  let a1 :=
    match s with
    | GotBoth _ _ | GotLower _ =>
        if in_array then
          match a_rtoken a with
          | Some t => if t =? token_id then Some a else None
          | None => Some a
          end
        else match a_ranges a with [] => Some a | _ => None end
    | _ => Some a
    end in
  match a1 with
  | None => None
  | Some a =>
      let a := match s with
               | GotBoth _ _ | GotLower _ => mkPacc (a_ranges a) (Some token_id) (a_get a) (a_set a) (a_stride a)
               | _ => a
               end in
      match s with
      | GotBoth lo hi =>
          if negb in_array && negb is_range then None
          else if hi <? lo then None
          else Some (push a (lo, hi + 1))
      | GotLower lo =>
          if is_range && negb in_array then None else Some (push a (lo, lo + 1))
      | AReadWrite => Some (mkPacc (a_ranges a) (a_rtoken a) true true (a_stride a))
      | ARead => Some (mkPacc (a_ranges a) (a_rtoken a) true (a_set a) (a_stride a))
      | AWrite => Some (mkPacc (a_ranges a) (a_rtoken a) (a_get a) true (a_stride a))
      | StrideDone st => if has_count then Some (mkPacc (a_ranges a) (a_rtoken a) (a_get a) (a_set a) (Some st)) else None
      | Reset => Some a
      | _ => None
      end
  end.

(** [parse_argument_tokens]; [sub tid elem a] parses one element of a bracketed group whose token id is [tid] *)
Section Go.
Variable sub : N -> list tok -> pacc -> option pacc.

Fixpoint go (toks : list tok) (in_array : bool) (outer : option N) (token_id : N) (s : ap) (a : pacc) {struct toks} : option pacc :=
  let reset := if in_array then ResetOnlyRange else Reset in
  let tid := match outer with Some t => t | None => token_id end in
  match toks with
  | [] => finished s in_array tid a
  | t :: toks' =>
      match t with
      | KGroup None => None
      | KGroup (Some elems) =>
          match fold_left (fun (acc : option pacc) elem =>
                             match acc with Some a' => sub token_id elem a' | None => None end) elems (Some a) with
          | Some a' => go toks' in_array outer (token_id + 1) s a'
          | None => None
          end
      | KIdent id =>
          match take_ident s id with
          | Some s' => go toks' in_array outer (token_id + 1) s' a
          | None => None
          end
      | KPunct PComma =>
          match finished s in_array tid a with
          | Some a' => go toks' in_array outer (token_id + 1) reset a'
          | None => None
          end
      | KPunct c =>
          match take_punct s c with
          | Some s' => go toks' in_array outer (token_id + 1) s' a
          | None => None
          end
      | KLit n =>
          match take_literal s n with
          | Some s' => go toks' in_array outer (token_id + 1) s' a
          | None => None
          end
      | KBadLit => None
      end
  end.
End Go.

(** [fuel] bounds the nesting of groups *)
Fixpoint sub_of (fuel : nat) : N -> list tok -> pacc -> option pacc :=
  match fuel with
  | O => fun _ _ _ => None
  | S fuel' => fun tid elem a => go (sub_of fuel') elem true (Some tid) 0 ResetOnlyRange a
  end.

Definition parse_tokens (fuel : nat) := go (sub_of fuel).

Definition parse_attr (toks : list tok) : option pacc := parse_tokens 4 toks false None 0 Reset pacc0.
End Finished.

(** ** well-formed attributes, printed as tokens *)

Definition print_entry (e : rentry) : list tok :=
  match e with
  | RSingle n => [KLit n]
  | RRange lo hi => [KLit lo; KPunct PDot; KPunct PDot; KPunct PEq; KLit hi]
  end.

Fixpoint print_entries_flat (es : list rentry) : list tok :=
  match es with
  | [] => []
  | [e] => print_entry e
  | e :: es' => (print_entry e ++ KPunct PComma :: print_entries_flat es')%list
  end.

Definition print_access (g s : bool) : list tok :=
  match g, s with
  | true, true => [KPunct PComma; KIdent "rw"]
  | true, false => [KPunct PComma; KIdent "r"]
  | false, true => [KPunct PComma; KIdent "w"]
  | false, false => []
  end.

Definition print_stride (st : option N) : list tok :=
  match st with
  | Some s => [KPunct PComma; KIdent "stride"; KPunct PEq; KLit s]
  | None => []
  end.

(** [bits([a..=b, c], rw, stride = s)]  /  [bits(a..=b, rw)]  /  [bit(n, w)] *)
Definition print_attr (f : field) : list tok :=
  ((if f_list f then [KGroup (Some (map print_entry (f_entries f)))] else print_entries_flat (f_entries f))
   ++ print_access (f_get f) (f_set f) ++ print_stride (f_stride f))%list.

(** ** the structured front end of [Parse.accept_field] *)

Definition front (f : field) : option (list (N * N) * bool * bool * option N) :=
  let shape_ok := if f_list f then true else match f_entries f with [_] => true | _ => false end in
  if shape_ok then
    match parse_entries (f_list f) (f_bits_kw f) (f_entries f) with
    | Some rs =>
        match f_count f, f_stride f with
        | None, Some _ => None
        | _, _ => Some (rs, f_get f, f_set f, f_stride f)
        end
    | None => None
    end
  else None.

Definition result_of (a : pacc) : list (N * N) * bool * bool * option N :=
  (a_ranges a, a_get a, a_set a, a_stride a).

(** ** the automaton on printed attributes *)

Definition entry_state (e : rentry) : ap :=
  match e with RSingle n => GotLower n | RRange lo hi => GotBoth lo hi end.

Local Open Scope list_scope.

Section Proofs.
Variable kw : bool.          (* bits (true) / bit (false) *)
Variable hc : bool.          (* array field *)

Variable sub : N -> list tok -> pacc -> option pacc.
Notation ptok := (fun (fuel : nat) => go kw hc sub).
Notation fin := (finished kw hc).

(** the tokens of one entry drive the automaton from a reset state to [entry_state] *)
Lemma run_entry fuel e rest ia outer tid a s0 :
  s0 = Reset \/ s0 = ResetOnlyRange ->
  exists tid', ptok fuel (print_entry e ++ rest) ia outer tid s0 a = ptok fuel rest ia outer tid' (entry_state e) a.
Proof.
  intros [-> | ->]; destruct e as [n|lo hi]; cbn [print_entry app go take_literal take_punct entry_state]; eauto.
Qed.

(** one element of a bracketed list *)
Lemma elem_ok fuel e a :
  (a_rtoken a = None \/ a_rtoken a = Some 0) ->
  ptok fuel (print_entry e) true (Some 0) 0 ResetOnlyRange a =
  match parse_entry true kw e with
  | PRange x y => Some (push (mkPacc (a_ranges a) (Some 0) (a_get a) (a_set a) (a_stride a)) (x, y))
  | PReject => None
  end.
Proof.
  intros Hr. destruct a as [rs rt fg fs st]. cbn [a_rtoken] in Hr.
  destruct e as [n|lo hi]; cbn [print_entry go take_literal take_punct parse_entry negb andb]; unfold finished, push;
    cbn [a_ranges a_rtoken a_get a_set a_stride negb andb].
  - rewrite andb_false_r. destruct Hr as [-> | ->]; reflexivity.
  - destruct Hr as [-> | ->]; cbn [N.eqb Pos.eqb]; destruct (hi <? lo); reflexivity.
Qed.

Lemma elems_ok fuel es : forall a,
  (a_rtoken a = None \/ a_rtoken a = Some 0) ->
  fold_left (fun (acc : option pacc) elem =>
               match acc with
               | Some a' => ptok fuel elem true (Some 0) 0 ResetOnlyRange a'
               | None => None
               end) (map print_entry es) (Some a)
  = match parse_entries true kw es with
    | Some rs => Some (mkPacc (a_ranges a ++ rs) (match es with [] => a_rtoken a | _ => Some 0 end)
                              (a_get a) (a_set a) (a_stride a))
    | None => None
    end.
Proof.
  induction es as [|e es IH]; intros a Hr; cbn [map fold_left parse_entries].
  - rewrite app_nil_r. now destruct a.
  - rewrite (elem_ok fuel e a Hr). destruct (parse_entry true kw e) as [x y|] eqn:Pe.
    + rewrite IH by (right; reflexivity). cbn [push a_ranges a_rtoken a_get a_set a_stride].
      destruct (parse_entries true kw es) as [rs|]; [|reflexivity].
      rewrite <- app_assoc. cbn [app]. now destruct es.
    + clear IH. induction (map print_entry es) as [|x l IHl]; [reflexivity|exact IHl].
Qed.

(** the tail: access specifier and stride, after a pending state [s] that finishes to [a1] *)
Definition with_flags (a : pacc) (g s : bool) (st : option N) : pacc :=
  mkPacc (a_ranges a) (a_rtoken a) (a_get a || g) (a_set a || s) (match st with Some x => Some x | None => a_stride a end).

Lemma fin_spec s0 a a1 :
  (forall t, option_map result_of (fin s0 false t a) = Some (result_of a1)) ->
  forall t, exists a', fin s0 false t a = Some a' /\ a_ranges a' = a_ranges a1 /\ a_get a' = a_get a1
                       /\ a_set a' = a_set a1 /\ a_stride a' = a_stride a1.
Proof.
  intros H t. specialize (H t). destruct (fin s0 false t a) as [a'|]; cbn [option_map] in H; [|discriminate].
  exists a'. unfold result_of in H. injection H as H1 H2 H3 H4. auto.
Qed.

Lemma access_stride_ok fuel fg fs st s0 : forall tid a a1,
  (forall t, option_map result_of (fin s0 false t a) = Some (result_of a1)) ->
  a_get a1 = false -> a_set a1 = false -> a_stride a1 = None ->
  option_map result_of (ptok fuel (print_access fg fs ++ print_stride st) false None tid s0 a)
  = match st with
    | Some _ => if hc then Some (result_of (with_flags a1 fg fs st)) else None
    | None => Some (result_of (with_flags a1 fg fs st))
    end.
Proof.
  intros tid a a1 Hfin Hg Hs Hst. pose proof (fin_spec s0 a a1 Hfin) as F.
  unfold result_of, with_flags. rewrite Hg, Hs, Hst. cbn [orb a_ranges a_rtoken a_get a_set a_stride].
  destruct fg, fs, st as [x|];
    cbn [print_access print_stride app go take_ident take_punct take_literal String.eqb Ascii.eqb Bool.eqb];
    match goal with
    | |- context [fin s0 false ?t a] =>
        destruct (F t) as (a' & E & R1 & R2 & R3 & R4); rewrite E; clear E
    end;
    unfold finished; cbn [a_ranges a_rtoken a_get a_set a_stride option_map];
    try (destruct hc); cbn [option_map a_ranges a_rtoken a_get a_set a_stride];
    rewrite ?R1, ?R2, ?R3, ?R4, ?Hg, ?Hs, ?Hst; reflexivity.
Qed.

(** a pending state that cannot be finished kills whatever follows: the next thing is a comma or the end *)
Lemma tail_none fuel fg fs st s0 tid a :
  (forall t, fin s0 false t a = None) ->
  ptok fuel (print_access fg fs ++ print_stride st) false None tid s0 a = None.
Proof.
  intros H. destruct fg, fs, st as [x|]; cbn [print_access print_stride app go]; now rewrite H.
Qed.

Lemma second_range_rejected e t a : a_ranges a <> [] -> fin (entry_state e) false t a = None.
Proof.
  intros H. destruct e; cbn [entry_state]; unfold finished; destruct (a_ranges a); congruence.
Qed.

(** after one range at top level, a second one is an error wherever the list of entries goes on *)
Lemma more_entries_rejected fuel e es tail tid a :
  a_ranges a <> [] -> (tail = [] \/ exists tl, tail = KPunct PComma :: tl) ->
  ptok fuel (print_entries_flat (e :: es) ++ tail) false None tid Reset a = None.
Proof.
  intros Ha Ht.
  assert (X : exists rest, print_entries_flat (e :: es) ++ tail = print_entry e ++ rest
                           /\ (rest = [] \/ exists tl, rest = KPunct PComma :: tl)).
  { destruct es as [|e' es'].
    - exists tail. split; [reflexivity|exact Ht].
    - exists (KPunct PComma :: print_entries_flat (e' :: es') ++ tail). split.
      + cbn [print_entries_flat]. now rewrite <- app_assoc.
      + right. eauto. }
  destruct X as (rest & -> & Hr).
  destruct (run_entry fuel e rest false None tid a Reset (or_introl eq_refl)) as (tid' & ->).
  destruct Hr as [-> | (tl & ->)]; cbn [go]; now rewrite second_range_rejected.
Qed.
End Proofs.

Definition is_some {A} (o : option A) : bool := match o with Some _ => true | None => false end.

(** The automaton, run on the tokens of a well-formed attribute, produces exactly what the structured front end of
    [Parse.accept_field] starts from: the same ranges in the same order, the same access flags, the same stride —
    or rejects exactly when it does. *)
Theorem parse_print f :
  (f_entries f <> [] \/ f_list f = true) ->
  option_map result_of (parse_attr (f_bits_kw f) (is_some (f_count f)) (print_attr f)) = front f.
Proof.
  intros Hne. unfold parse_attr, parse_tokens, print_attr, front.
  set (kw := f_bits_kw f). set (hc := is_some (f_count f)).
  assert (Hstr : forall (r : list (N * N) * bool * bool * option N),
            match f_stride f with
            | Some _ => if hc then Some (fst (fst (fst r)), f_get f, f_set f, f_stride f) else None
            | None => Some (fst (fst (fst r)), f_get f, f_set f, f_stride f)
            end
            = match f_count f, f_stride f with
              | None, Some _ => None
              | _, _ => Some (fst (fst (fst r)), f_get f, f_set f, f_stride f)
              end).
  { intros r. unfold hc, is_some. destruct (f_count f), (f_stride f); reflexivity. }
  destruct (f_list f) eqn:El.
  - (* a bracketed list *)
    cbn [app go]. change (sub_of kw hc 4%nat) with (fun tid elem a => go kw hc (sub_of kw hc 3%nat) elem true (Some tid) 0 ResetOnlyRange a) at 1.
    cbv beta.
    rewrite (elems_ok kw hc (sub_of kw hc 3%nat) 0%nat (f_entries f) pacc0 (or_introl eq_refl)).
    destruct (parse_entries true kw (f_entries f)) as [rs|] eqn:Pe; [|reflexivity].
    cbn [pacc0 a_ranges a_rtoken a_get a_set a_stride app].
    set (a1 := mkPacc rs _ false false None).
    rewrite (access_stride_ok kw hc (sub_of kw hc 4%nat) 0%nat (f_get f) (f_set f) (f_stride f) Reset (0 + 1) a1 a1);
      try reflexivity.
    unfold result_of, with_flags, a1. cbn [a_ranges a_get a_set a_stride orb].
    specialize (Hstr (rs, false, false, None)). cbn [fst] in Hstr.
    destruct (f_stride f) as [x|]; exact Hstr.
  - destruct Hne as [Hne|Hl]; [|discriminate].
    destruct (f_entries f) as [|e [|e2 es]] eqn:Ees; [congruence| |].
    + (* exactly one entry *)
      cbn [print_entries_flat parse_entries].
      destruct (run_entry kw hc (sub_of kw hc 4%nat) 0%nat e (print_access (f_get f) (f_set f) ++ print_stride (f_stride f))
                          false None 0 pacc0 Reset (or_introl eq_refl)) as (tid' & ->).
      destruct (parse_entry false kw e) as [x y|] eqn:Pe.
      * set (a1 := mkPacc [(x, y)] None false false None).
        rewrite (access_stride_ok kw hc (sub_of kw hc 4%nat) 0%nat (f_get f) (f_set f) (f_stride f) (entry_state e) tid' pacc0 a1);
          try reflexivity.
        -- unfold result_of, with_flags, a1. cbn [a_ranges a_get a_set a_stride orb].
           specialize (Hstr ([(x, y)], false, false, None)). cbn [fst] in Hstr.
           destruct (f_stride f) as [z|]; exact Hstr.
        -- intros t. unfold a1, kw in *. destruct e as [n|lo hi]; cbn [entry_state parse_entry negb andb] in *;
             unfold finished, push; cbn [pacc0 a_ranges a_rtoken a_get a_set a_stride negb andb app].
           ++ destruct (f_bits_kw f); cbn [andb negb] in *; [discriminate|]. now injection Pe as <- <-.
           ++ destruct (f_bits_kw f); cbn [andb negb] in *; [|discriminate].
              destruct (hi <? lo); [discriminate|]. now injection Pe as <- <-.
      * rewrite (tail_none kw hc (sub_of kw hc 4%nat) 0%nat (f_get f) (f_set f) (f_stride f) (entry_state e) tid' pacc0); [reflexivity|].
        intros t. unfold kw in *. destruct e as [n|lo hi]; cbn [entry_state parse_entry negb andb] in *;
          unfold finished; cbn [pacc0 a_ranges a_rtoken negb andb].
        -- destruct (f_bits_kw f); cbn [andb negb] in *; [reflexivity|discriminate].
        -- destruct (f_bits_kw f); cbn [andb negb] in *; [|reflexivity].
           destruct (hi <? lo); [reflexivity|discriminate].
    + (* two or more entries outside a list *)
      change (print_entries_flat (e :: e2 :: es)) with (print_entry e ++ KPunct PComma :: print_entries_flat (e2 :: es)).
      rewrite <- app_assoc. rewrite <- app_comm_cons.
      destruct (run_entry kw hc (sub_of kw hc 4%nat) 0%nat e
                  (KPunct PComma :: print_entries_flat (e2 :: es) ++ print_access (f_get f) (f_set f) ++ print_stride (f_stride f))
                  false None 0 pacc0 Reset (or_introl eq_refl)) as (tid' & ->).
      cbn [go].
      destruct (finished kw hc (entry_state e) false tid' pacc0) as [a1|] eqn:Ef; [|reflexivity].
      assert (Ha1 : a_ranges a1 <> []).
      { destruct e as [n|lo hi]; cbn [entry_state] in Ef; unfold finished, push in Ef;
          cbn [pacc0 a_ranges a_rtoken a_get a_set a_stride negb andb] in Ef;
          repeat match type of Ef with context [if ?c then _ else _] => destruct c end;
          try discriminate; injection Ef as <-; cbn [a_ranges]; discriminate. }
      rewrite (more_entries_rejected kw hc (sub_of kw hc 4%nat) 0%nat e2 es _ (tid' + 1) a1 Ha1); [reflexivity|].
      destruct (f_get f), (f_set f), (f_stride f); cbn [print_access print_stride app]; eauto.
Qed.

Print Assumptions parse_print.

(** the structured decision starts from the front end: what [accept_field] accepts, [front] parses *)
Lemma accept_field_front W f : accept_field W f = true -> exists r, front f = Some r.
Proof.
  unfold accept_field, front.
  destruct (if f_list f then true else match f_entries f with [_] => true | _ => false end); [|discriminate].
  destruct (parse_entries (f_list f) (f_bits_kw f) (f_entries f)) as [rs|]; [|discriminate].
  destruct rs as [|r rs]; [discriminate|].
  destruct (f_count f), (f_stride f); try discriminate; eauto.
Qed.

(** verdict of the automaton on an arbitrary token string (used for the malformed attributes of the corpus) *)
Definition tokens_accepted (kw hc : bool) (toks : list tok) : bool :=
  match parse_attr kw hc toks with Some a => match a_ranges a with [] => false | _ => true end | None => false end.

(** boolean equality of automaton states (used to print where a re-translation of the macro's transition
    functions first differs from the functions above; see SrcSlice.v) *)
Definition ap_eqb (x y : ap) : bool :=
  match x, y with
  | Reset, Reset | ResetOnlyRange, ResetOnlyRange | StrideStarted, StrideStarted | StrideEq, StrideEq
  | ARead, ARead | AWrite, AWrite | AReadWrite, AReadWrite => true
  | GotLower a, GotLower b | GotDot1 a, GotDot1 b | GotDot2 a, GotDot2 b | GotEq a, GotEq b
  | StrideDone a, StrideDone b => a =? b
  | GotBoth a b, GotBoth c d => (a =? c) && (b =? d)
  | _, _ => false
  end.
